/-
C04 — everything the muxer hands to its writer is whole 188-byte packets beginning with the sync byte, and the
returned byte count equals the number of bytes handed over: for every call in ANY state (no invariant, no
well-formedness of the caller's data), error results included; then for whole histories.

This file must not import `Astits.Proofs.MuxDemux` (it imports `Props.C11`, which imports `Props.C04`), so the few
length lemmas needed are proved here again.
-/
import Astits.Proofs.MuxCounters
namespace Astits.MuxWhole
open Astits.MuxCounters

/-! ### `writePacket`: any successful result is exactly `target` bytes and starts with 0x47 -/

theorem pcrBytes_length (c : ClockReference) : (pcrBytes c).length = 6 := by
  simp [pcrBytes, packFields, fieldsWidth, beBytes]

theorem ptsBytes_length (f : Nat) (c : ClockReference) : (ptsBytes f c).length = 5 := by
  simp [ptsBytes, packFields, fieldsWidth, beBytes]

theorem afExtBytes_length (e : PacketAdaptationExtensionField) : (afExtBytes e).length = 1 + afExtSize e := by
  unfold afExtBytes afExtSize
  simp only [List.length_append, List.length_cons, List.length_nil]
  have h1 : (packFields [(b2n e.hasLegalTimeWindow, 1), (b2n e.hasPiecewiseRate, 1), (b2n e.hasSeamlessSplice, 1), (0x1f, 5)]).length = 1 := by
    simp [packFields, fieldsWidth, beBytes]
  rw [h1]
  cases e.hasLegalTimeWindow <;> cases e.hasPiecewiseRate <;> cases e.hasSeamlessSplice <;>
    simp [packFields, fieldsWidth, beBytes, ptsBytes_length, ptsOrDTSByteLength]

/-- **declared = written, for ANY adaptation field** that is not the one-byte form: the bytes written are exactly one
(the length byte) more than `calcPacketAdaptationFieldSize` announces.  No hypothesis on TransportPrivateDataLength (the
writer derives the private-data length byte from the data itself) and none on StuffingLength (a negative value counts, and
is written, as 0 bytes). -/
theorem afBytes_length (a : PacketAdaptationField) (h1 : a.isOneByteStuffing = false) :
    ((afBytes a).length : Int) = 1 + afSize a := by
  unfold afBytes afSize
  simp only [h1, Bool.false_eq_true, if_false, List.length_append, List.length_cons, List.length_nil, List.length_replicate]
  have hf : (packFields [(b2n a.discontinuityIndicator, 1), (b2n a.randomAccessIndicator, 1),
        (b2n a.elementaryStreamPriorityIndicator, 1), (b2n a.hasPCR, 1), (b2n a.hasOPCR, 1),
        (b2n a.hasSplicingCountdown, 1), (b2n a.hasTransportPrivateData, 1), (b2n a.hasAdaptationExtensionField, 1)]).length = 1 := by
    simp [packFields, fieldsWidth, beBytes]
  rw [hf]
  have hst : ((a.stuffingLength.toNat : Nat) : Int) = (if 0 < a.stuffingLength then a.stuffingLength else 0) := by
    split <;> omega
  cases hpcr : a.hasPCR <;> cases hopcr : a.hasOPCR <;> cases hsc : a.hasSplicingCountdown <;>
    cases hpd : a.hasTransportPrivateData <;> cases hext : a.hasAdaptationExtensionField <;>
    simp [pcrBytes_length, afExtBytes_length] <;> omega

/-- the earlier, weaker form (before the writer fix the private data could be announced but not written, so only `≤`
held): the adaptation field never occupies more bytes than `calcPacketAdaptationFieldSize` announces -/
theorem afBytes_length_le (a : PacketAdaptationField) (h1 : a.isOneByteStuffing = false) :
    ((afBytes a).length : Int) ≤ 1 + afSize a := Int.le_of_eq (afBytes_length a h1)

/-- **any** packet, any target: a successful `writePacket` emits exactly `target` bytes -/
theorem writePacket_length (p : Packet) (target : Nat) (bs : Bytes) (h : writePacket p target = .ok bs) :
    bs.length = target := by
  unfold writePacket at h
  split at h
  · cases h
  · split at h
    · cases h
    · split at h
      · cases h
      · rename_i h1 h2 h3
        simp only [Res.ok.injEq] at h
        subst h
        have hhead : (([syncByte] ++ hdrBytes p.header ++ (if p.header.hasAdaptationField = true then afBytes (p.adaptationField.getD default) else [])).length : Int)
            ≤ packetHeadSize p := by
          unfold packetHeadSize
          simp only [List.length_append, List.length_cons, List.length_nil, MuxCounters.hdrBytes_length]
          by_cases hc : p.header.hasAdaptationField = true
          · simp only [hc, if_true]
            cases ha : p.adaptationField with
            | none => exact absurd ⟨hc, by simp [ha]⟩ h1
            | some a =>
              simp only [Option.getD_some]
              cases ho : a.isOneByteStuffing with
              | true => simp [afBytes, ho]
              | false =>
                have := afBytes_length_le a ho
                simp only [Bool.false_eq_true, if_false]
                omega
          · simp [hc]
        have hbody : ((if p.header.hasPayload = true then p.payload else []).length : Int) ≤ p.payload.length := by
          split <;> simp
        simp only [List.length_append, List.length_replicate] at hhead ⊢
        omega

/-- a whole transport packet: 188 bytes, the first of which is the sync byte -/
def Whole (c : Bytes) : Prop := c.length = 188 ∧ c.head? = some 0x47

theorem writePacket_whole (p : Packet) (bs : Bytes) (h : writePacket p 188 = .ok bs) : Whole bs := by
  refine ⟨writePacket_length p 188 bs h, ?_⟩
  obtain ⟨rest, rfl⟩ := writePacket_ok_shape p 188 bs h
  rfl

def AllWhole (cs : List Bytes) : Prop := ∀ c ∈ cs, Whole c

theorem AllWhole.nil : AllWhole [] := fun _ h => by cases h
theorem AllWhole.append {a b : List Bytes} (ha : AllWhole a) (hb : AllWhole b) : AllWhole (a ++ b) := by
  intro c hc
  rcases List.mem_append.mp hc with h | h
  · exact ha c h
  · exact hb c h
theorem AllWhole.single {c : Bytes} (h : Whole c) : AllWhole [c] := by
  intro x hx
  simp only [List.mem_cons, List.not_mem_nil, or_false] at hx
  subst hx; exact h

theorem chunksLen_nil : chunksLen [] = 0 := rfl
theorem chunksLen_append (a b : List Bytes) : chunksLen (a ++ b) = chunksLen a + chunksLen b := by
  simp [chunksLen]
theorem chunksLen_flatten (cs : List Bytes) : chunksLen cs = cs.flatten.length := by
  simp [chunksLen, List.length_flatten]

/-- whole packets: the total is 188 × the number of chunks -/
theorem AllWhole.chunksLen {cs : List Bytes} (h : AllWhole cs) : chunksLen cs = 188 * cs.length := by
  induction cs with
  | nil => rfl
  | cons c cs ih =>
    have h1 := (h c (List.mem_cons_self ..)).1
    have h2 := ih (fun x hx => h x (List.mem_cons_of_mem _ hx))
    simp only [Astits.chunksLen, List.map_cons, List.sum_cons, List.length_cons] at h2 ⊢
    omega

/-! ### tables -/

theorem generatePAT_whole (m : Mux) (bs : Bytes) (m' : Mux) (h : m.generatePAT = (.ok bs, m')) : Whole bs := by
  unfold Mux.generatePAT at h
  simp only at h
  split at h
  · split at h
    · rename_i c hw
      simp only [Prod.mk.injEq, Res.ok.injEq] at h
      rw [← h.1]; exact writePacket_whole _ _ hw
    · simp at h
    · simp at h
  · simp at h
  · simp at h

theorem generatePMT_whole (m : Mux) (bs : Bytes) (m' : Mux) (h : m.generatePMT = (.ok bs, m')) : Whole bs := by
  unfold Mux.generatePMT at h
  split at h
  · simp at h
  · simp only at h
    split at h
    · split at h
      · rename_i c hw
        simp only [Prod.mk.injEq, Res.ok.injEq] at h
        rw [← h.1]; exact writePacket_whole _ _ hw
      · simp at h
      · simp at h
    · simp at h
    · simp at h

theorem writeTables_whole (m : Mux) (cs : List Bytes) (h : m.writeTables.1 = .ok cs) : AllWhole cs := by
  unfold Mux.writeTables at h
  split at h
  · rename_i pat m1 h1
    split at h
    · rename_i pmt m2 h2
      simp only [Res.ok.injEq] at h
      subst h
      exact AllWhole.append (a := [pat]) (b := [pmt]) (AllWhole.single (generatePAT_whole m _ m1 h1))
        (AllWhole.single (generatePMT_whole m1 _ m2 h2))
    · cases h
    · cases h
  · cases h
  · cases h

theorem retransmitTables_whole (m : Mux) (force : Bool) (cs : List Bytes) (h : (m.retransmitTables force).1 = .ok cs) :
    AllWhole cs := by
  unfold Mux.retransmitTables at h
  simp only at h
  split at h
  · simp only [Res.ok.injEq] at h; subst h; exact AllWhole.nil
  · split at h
    · rename_i cs' m' hw
      simp only [Res.ok.injEq] at h; subst h
      exact writeTables_whole _ _ (by rw [hw])
    · rename_i r m' hne hw
      simp only at h
      exact writeTables_whole _ _ (by rw [hw]; exact h)

/-! ### the packetisation loop -/

/-- whatever the loop's outcome (success, error, panic, fuel exhausted), the chunks it has emitted are whole
packets: each is the result of a successful `writePacket … 188` -/
theorem loop_whole (pid : Nat) (hdr : PESHeader) (fuel : Nat) : ∀ (data : Bytes) (ps waf : Bool)
    (af : Option PacketAdaptationField) (cc : WrappingCounter) (acc : List Bytes), AllWhole acc →
    AllWhole (writeDataLoop pid hdr fuel data ps waf af cc acc).2.2.2 := by
  induction fuel with
  | zero => intro data ps waf af cc acc h; exact h
  | succ fuel ih =>
    intro data ps waf af cc acc h
    rw [loop_succ]
    split
    · exact h
    · split
      · split
        · exact h
        · split
          · rename_i bs hw
            exact ih _ _ _ _ _ _ (AllWhole.append h (AllWhole.single (writePacket_whole _ _ hw)))
          · exact h
          · exact h
      · split
        · simp only
          split
          · rename_i bs hw
            exact ih _ _ _ _ _ _ (AllWhole.append h (AllWhole.single (writePacket_whole _ _ hw)))
          · exact h
          · exact h
        · exact h
        · exact h

/-! ### the API calls -/

/-- what holds of the result of every call:
* every chunk handed to the writer is a whole packet;
* unless the call panicked, the returned count is the number of bytes handed to the writer — for successful
  calls and for calls that return an error alike;
* a panicking call (Go: nil dereference on a caller-supplied structure, nothing is returned) is modelled with
  `n = 0` and no error; the chunks written before the panic are still whole packets. -/
structure OutOK (o : MuxOut) : Prop where
  whole : AllWhole o.chunks
  count : o.panic = false → o.n = (chunksLen o.chunks : Int)
  panicked : o.panic = true → o.n = 0 ∧ o.err = none

theorem writePacketCall_ok (m : Mux) (p : Packet) : OutOK (m.writePacketCall p).1 := by
  unfold Mux.writePacketCall
  split
  · rename_i bs hw
    exact ⟨AllWhole.single (writePacket_whole _ _ hw), fun _ => by simp [chunksLen], fun h => by cases h⟩
  · exact ⟨AllWhole.nil, fun _ => rfl, fun h => by cases h⟩
  · exact ⟨AllWhole.nil, fun h => (by cases h), fun _ => ⟨rfl, rfl⟩⟩

theorem writeTablesCall_ok (m : Mux) : OutOK m.writeTablesCall.1 := by
  unfold Mux.writeTablesCall
  split
  · rename_i cs m' hw
    exact ⟨writeTables_whole m cs (by rw [hw]), fun _ => rfl, fun h => by cases h⟩
  · exact ⟨AllWhole.nil, fun _ => rfl, fun h => by cases h⟩
  · exact ⟨AllWhole.nil, fun h => (by cases h), fun _ => ⟨rfl, rfl⟩⟩

theorem writeData_ok (m : Mux) (d : MuxerData) : OutOK (m.writeData d).1 := by
  cases hcc : m.ccOf d.pid with
  | none =>
    unfold Mux.writeData; rw [hcc]
    exact ⟨AllWhole.nil, fun _ => rfl, fun h => by cases h⟩
  | some cc =>
    by_cases hfit : 6 + calcPESOptionalHeaderLength d.pes.header.optionalHeader > 184
    · unfold Mux.writeData; rw [hcc]; simp only [hfit, if_true]
      exact ⟨AllWhole.nil, fun _ => rfl, fun h => by cases h⟩
    · cases hr : m.retransmitTables (dataForce m d) with
      | mk r m1 =>
        have hr' := hr
        unfold dataForce at hr
        unfold Mux.writeData; rw [hcc]; simp only [hfit, if_false]; rw [hr]
        cases r with
        | err e => exact ⟨AllWhole.nil, fun _ => rfl, fun h => by cases h⟩
        | panic => exact ⟨AllWhole.nil, fun h => (by cases h), fun _ => ⟨rfl, rfl⟩⟩
        | ok tcs =>
          have ht : AllWhole tcs := retransmitTables_whole m _ tcs (by rw [hr'])
          simp only
          have hl := loop_whole d.pid
            (if d.pes.header.streamID = 0 then
              { d.pes.header with streamID := toPESStreamID ((m1.streams.find? (·.elementaryPID == d.pid)).map (·.streamType) |>.getD 0) }
             else d.pes.header)
            (d.pes.data.length + 2) d.pes.data true d.adaptationField.isSome d.adaptationField cc [] AllWhole.nil
          revert hl
          generalize writeDataLoop _ _ _ _ _ _ _ _ _ = L
          obtain ⟨r, cc', af', acc'⟩ := L
          intro hl
          cases r with
          | ok l => exact ⟨AllWhole.append ht hl, fun _ => rfl, fun h => by cases h⟩
          | err e => exact ⟨AllWhole.append ht hl, fun _ => rfl, fun h => by cases h⟩
          | panic => exact ⟨AllWhole.append ht hl, fun h => (by cases h), fun _ => ⟨rfl, rfl⟩⟩

/-! ### panics are caller misuse -/

/-- on well-formed loop inputs (no nil pointer behind a set flag, PES header no longer than announced) the loop
does not panic -/
theorem loop_noPanic (pid : Nat) (hdr : PESHeader) (fuel : Nat) : ∀ (data : Bytes) (ps waf : Bool)
    (af : Option PacketAdaptationField) (cc : WrappingCounter) (acc : List Bytes), LoopWF hdr ps waf af →
    (writeDataLoop pid hdr fuel data ps waf af cc acc).1 ≠ .panic := by
  induction fuel with
  | zero => intro data ps waf af cc acc _ h; cases h
  | succ fuel ih =>
    intro data ps waf af cc acc hwf
    rw [loop_succ]
    split
    · intro h; cases h
    · split
      · split
        · intro h; cases h
        · rename_i a hpk
          split
          · exact ih _ _ _ _ _ _ (hwf.after_afOnly _)
          · intro h; cases h
          · rename_i hw
            exfalso
            have hwaf : waf = true ∧ af = some a := by
              cases waf with
              | false => simp at hpk
              | true => exact ⟨rfl, by simpa using hpk⟩
            rcases writePacket_panic _ _ hw with ⟨_, h2⟩ | ⟨_, h2⟩
            · simp [afOnlyPkt] at h2
            · simp only [afOnlyPkt, Option.map_some, Option.getD_some, afNilDeref_setStuffing] at h2
              rw [hwf.afNoNil hwaf.1 a hwaf.2] at h2
              cases h2
      · rename_i hbr
        split
        · rename_i payload ntot np hpes
          simp only []
          split
          · exact ih _ _ _ _ _ _ (LoopWF.after_payload hdr _)
          · intro h; cases h
          · rename_i hw
            exfalso
            have hn := stuffPair_noNil (bytesAvail waf af - ↑ntot) (if waf = true then af else none) af
              (by
                intro a ha
                cases waf with
                | false => simp at ha
                | true => exact hwf.afNoNil rfl a (by simpa using ha))
            rcases writePacket_panic _ _ hw with ⟨h1, h2⟩ | ⟨_, h2⟩
            · simp only [payloadPkt, mkHdr] at h1 h2
              rw [Option.isNone_iff_eq_none] at h2
              rw [h2] at h1
              cases h1
            · simp only [payloadPkt] at h2
              rw [hn] at h2
              cases h2
        · intro h; cases h
        · rename_i hpes
          exact absurd hpes (writePESData_ne_panic hdr data ps waf af hwf hbr)

/-- `WritePacket` panics exactly on a packet flagged HasAdaptationField whose adaptation field is nil or has a
set flag with a nil pointer behind it (Go: nil dereference); nothing has been written then -/
theorem writePacketCall_panic_iff (m : Mux) (p : Packet) :
    (m.writePacketCall p).1.panic = true ↔
      (p.header.hasAdaptationField = true ∧
        (p.adaptationField.isNone = true ∨ (p.adaptationField.map afNilDeref).getD false = true)) := by
  unfold Mux.writePacketCall
  split
  · rename_i bs hw
    constructor
    · intro h; cases h
    · rintro ⟨h1, h2⟩
      exfalso
      unfold writePacket at hw
      rcases h2 with h2 | h2
      · rw [if_pos ⟨h1, h2⟩] at hw; cases hw
      · split at hw
        · cases hw
        · rw [if_pos ⟨h1, h2⟩] at hw; cases hw
  · rename_i e hw
    constructor
    · intro h; cases h
    · rintro ⟨h1, h2⟩
      exfalso
      unfold writePacket at hw
      rcases h2 with h2 | h2
      · rw [if_pos ⟨h1, h2⟩] at hw; cases hw
      · split at hw
        · cases hw
        · rw [if_pos ⟨h1, h2⟩] at hw; cases hw
  · rename_i hw
    constructor
    · intro _
      rcases writePacket_panic _ _ hw with ⟨h1, h2⟩ | ⟨h1, h2⟩
      · exact ⟨h1, Or.inl h2⟩
      · exact ⟨h1, Or.inr h2⟩
    · intro _; rfl

theorem writePacketCall_panic_chunks (m : Mux) (p : Packet) (h : (m.writePacketCall p).1.panic = true) :
    (m.writePacketCall p).1.chunks = [] := by
  unfold Mux.writePacketCall at h ⊢
  split <;> simp_all

/-- a panicking `WriteTables` (a nil pointer in a stream's descriptors) has written nothing -/
theorem writeTablesCall_panic_chunks (m : Mux) (h : m.writeTablesCall.1.panic = true) :
    m.writeTablesCall.1.chunks = [] := by
  unfold Mux.writeTablesCall at h ⊢
  split <;> simp_all

/-- a panicking `WriteData`: either table generation panicked (nothing written), or the caller's data is
not `DataWF` (a nil pointer behind a set flag in the PES optional header or the adaptation field, or a PES header
longer than its announced length); in the second case whole packets (tables, adaptation-field-only packet) may
have been written before the panic -/
theorem writeData_panic_cases (m : Mux) (d : MuxerData) (h : (m.writeData d).1.panic = true) :
    ((m.retransmitTables (dataForce m d)).1 = .panic ∧ (m.writeData d).1.chunks = []) ∨ ¬ DataWF d := by
  cases hcc : m.ccOf d.pid with
  | none => unfold Mux.writeData at h; rw [hcc] at h; cases h
  | some cc =>
    by_cases hfit : 6 + calcPESOptionalHeaderLength d.pes.header.optionalHeader > 184
    · unfold Mux.writeData at h; rw [hcc] at h; simp only [hfit, if_true] at h; cases h
    · cases hr : m.retransmitTables (dataForce m d) with
      | mk r m1 =>
        cases r with
        | err e =>
          have hr' := hr
          unfold dataForce at hr
          unfold Mux.writeData at h; rw [hcc] at h; simp only [hfit, if_false] at h; rw [hr] at h; cases h
        | panic =>
          left
          refine ⟨rfl, ?_⟩
          exact (writeData_tables_failed m d cc hcc hfit (by rw [hr]; rfl)).1
        | ok tcs =>
          right
          intro hwf
          have h3 := (writeData_ok_tables m d cc hcc hfit tcs m1 hr).2.2
          exact loop_noPanic d.pid (dataHdr m1 d) _ _ _ _ _ _ _ (hwf.loopWF m1) (h3.1 h)

/-! ### histories: every API call, `WritePacket` with arbitrary caller packets included -/

/-- a muxer API call: the calls of `MuxCounters.Op` (AddElementaryStream, RemoveElementaryStream, SetPCRPID,
WriteTables, WriteData) and `WritePacket` with an arbitrary caller-built packet -/
inductive Call where
  | op (o : Op)
  | packet (p : Packet)

def resErr : Res Unit → Option Err
  | .err e => some e
  | _ => none

/-- one call: what it returns (count, error, panic flag), the chunks it hands to the writer, the new state.
The calls that never write (`add`, `remove`, `setPCR`) return no count in Go: `n = 0`, no chunks. -/
def call (m : Mux) : Call → MuxOut × Mux
  | .op (.add es) => ({ err := resErr (m.addElementaryStream es).1 }, (m.addElementaryStream es).2)
  | .op (.remove pid) => ({ err := resErr (m.removeElementaryStream pid).1 }, (m.removeElementaryStream pid).2)
  | .op (.setPCR pid) => ({}, m.setPCRPID pid)
  | .op .tables => m.writeTablesCall
  | .op (.data d) => ((m.writeData d).1, (m.writeData d).2.1)
  | .packet p => m.writePacketCall p

/-- a history: the results of all calls, in order, and the final state -/
def hist : Mux → List Call → List MuxOut × Mux
  | m, [] => ([], m)
  | m, c :: cs => ((call m c).1 :: (hist (call m c).2 cs).1, (hist (call m c).2 cs).2)

/-- everything handed to the writer during the history, chunk by chunk, in order -/
def written (outs : List MuxOut) : List Bytes := outs.flatMap (·.chunks)
/-- the sum of the byte counts returned by the calls -/
def counted (outs : List MuxOut) : Int := (outs.map (·.n)).sum

theorem written_cons (o : MuxOut) (outs : List MuxOut) : written (o :: outs) = o.chunks ++ written outs := rfl

/-- `call` agrees with `MuxCounters.step` (chunks and state) on the calls `step` knows -/
theorem call_op (m : Mux) (o : Op) : ((call m (.op o)).1.chunks, (call m (.op o)).2) = step m o := by
  cases o <;> rfl

theorem hist_ops (m : Mux) (ops : List Op) :
    (written (hist m (ops.map .op)).1, (hist m (ops.map .op)).2) = run m ops := by
  induction ops generalizing m with
  | nil => rfl
  | cons o ops ih =>
    have h1a : (call m (.op o)).1.chunks = (step m o).1 := congrArg Prod.fst (call_op m o)
    have h1b : (call m (.op o)).2 = (step m o).2 := congrArg Prod.snd (call_op m o)
    have h2a := congrArg Prod.fst (ih (call m (.op o)).2)
    have h2b := congrArg Prod.snd (ih (call m (.op o)).2)
    simp only at h2a h2b
    simp only [List.map_cons, hist, written_cons, run, Prod.mk.injEq]
    rw [← h1b, ← h2b, ← h1a, ← h2a]
    exact ⟨rfl, rfl⟩

/-- **every call, in any state** -/
theorem call_ok (m : Mux) (c : Call) : OutOK (call m c).1 := by
  cases c with
  | packet p => exact writePacketCall_ok m p
  | op o =>
    cases o with
    | add es => exact ⟨AllWhole.nil, fun _ => rfl, fun h => by cases h⟩
    | remove pid => exact ⟨AllWhole.nil, fun _ => rfl, fun h => by cases h⟩
    | setPCR pid => exact ⟨AllWhole.nil, fun _ => rfl, fun h => by cases h⟩
    | tables => exact writeTablesCall_ok m
    | data d => exact writeData_ok m d

theorem hist_all_ok (m : Mux) (cs : List Call) : ∀ o ∈ (hist m cs).1, OutOK o := by
  induction cs generalizing m with
  | nil => intro o h; cases h
  | cons c cs ih =>
    intro o h
    rcases List.mem_cons.mp h with rfl | h
    · exact call_ok m c
    · exact ih _ o h

theorem written_whole (outs : List MuxOut) (h : ∀ o ∈ outs, OutOK o) : AllWhole (written outs) := by
  intro c hc
  obtain ⟨o, ho, hco⟩ := List.mem_flatMap.mp hc
  exact (h o ho).whole c hco

theorem counted_cons (o : MuxOut) (outs : List MuxOut) : counted (o :: outs) = o.n + counted outs := by
  simp [counted]

/-- the chunks of the calls that returned (did not panic) -/
def returned (outs : List MuxOut) : List MuxOut := outs.filter (fun o => !o.panic)

theorem counted_eq (outs : List MuxOut) (h : ∀ o ∈ outs, OutOK o) :
    counted outs = (chunksLen (written (returned outs)) : Int) := by
  induction outs with
  | nil => rfl
  | cons o outs ih =>
    have ho := h o (List.mem_cons_self ..)
    have ih' := ih (fun x hx => h x (List.mem_cons_of_mem _ hx))
    rw [counted_cons, ih']
    cases hp : o.panic with
    | true =>
      have : returned (o :: outs) = returned outs := by simp [returned, hp]
      rw [this, (ho.panicked hp).1]; omega
    | false =>
      have : returned (o :: outs) = o :: returned outs := by simp [returned, hp]
      rw [this, written_cons, chunksLen_append, ho.count hp]; omega

theorem returned_of_noPanic (outs : List MuxOut) (h : ∀ o ∈ outs, o.panic = false) : returned outs = outs := by
  unfold returned
  rw [List.filter_eq_self]
  intro o ho; simp [h o ho]

end Astits.MuxWhole
