/-
C09 helper: the CRC register update is a BIJECTION of the register for every fixed input (bit, byte, byte string):
the LFSR step is linear with trivial kernel.  Hence two runs that differ in their register at some point and read
the same bytes from there on still differ at the end — nothing that follows a damaged prefix can mask the damage.
-/
import Astits.Proofs.CRCBurst
namespace Astits

theorem crcBit_inj (x y : BitVec 32) (h : crcBit x = crcBit y) : x = y := by
  have h0 : crcBit (x ^^^ y) = 0#32 := by rw [crcBit_xor, h, BitVec.xor_self]
  have hz : x ^^^ y = 0#32 := Decidable.byContradiction fun hne => crcBit_ne_zero' _ hne h0
  exact BitVec.xor_eq_zero_iff.mp hz

theorem feedBit_inj (c d : BitVec 32) (b : Bool) (h : Spec.crcFeedBit c b = Spec.crcFeedBit d b) : c = d := by
  rw [feedBit_eq, feedBit_eq] at h
  exact (BitVec.xor_left_inj (topBit b)).mp (crcBit_inj _ _ h)

theorem feedBits_inj (c d : BitVec 32) (m : List Bool) (h : feedBits c m = feedBits d m) : c = d := by
  induction m generalizing c d with
  | nil => exact h
  | cons a r ih =>
    simp only [feedBits, List.foldl_cons] at h ih
    exact feedBit_inj _ _ a (ih _ _ h)

theorem feedByte_inj (c d : BitVec 32) (b : Nat) (h : Spec.crcFeedByte c b = Spec.crcFeedByte d b) : c = d :=
  feedBits_inj c d (Spec.bitsOfByte b) h

theorem crcFrom_inj (c d : BitVec 32) (bs : Bytes) (h : Spec.crcFrom c bs = Spec.crcFrom d bs) : c = d := by
  induction bs generalizing c d with
  | nil => exact h
  | cons b r ih =>
    simp only [Spec.crcFrom, List.foldl_cons] at h ih
    exact feedByte_inj _ _ b (ih _ _ h)

/-! ### injectivity in the input byte -/

theorem crcBits8_inj (x y : BitVec 32) (h : crcBits8 x = crcBits8 y) : x = y := by
  unfold crcBits8 at h
  exact crcBit_inj _ _ (crcBit_inj _ _ (crcBit_inj _ _ (crcBit_inj _ _ (crcBit_inj _ _ (crcBit_inj _ _
    (crcBit_inj _ _ (crcBit_inj _ _ h)))))))

theorem idx_lt (v : BitVec 32) : (v &&& 0xff#32).toNat < 256 := by
  rw [BitVec.toNat_and]
  exact Nat.lt_of_le_of_lt Nat.and_le_right (by decide)

theorem shl24_inj (i j : BitVec 32) (hi : i.toNat < 256) (hj : j.toNat < 256) (h : i <<< 24 = j <<< 24) : i = j := by
  apply BitVec.eq_of_toNat_eq
  have := congrArg BitVec.toNat h
  simp only [BitVec.toNat_shiftLeft, Nat.shiftLeft_eq] at this
  omega


/-! ### any two different windows of ≤ 32 bits are separated -/

def valOfBits : List Bool → Nat
  | [] => 0
  | b :: r => (if b then 2 ^ r.length else 0) + valOfBits r

theorem valOfBits_bitsOfByte : ∀ x : Fin 256, valOfBits (Spec.bitsOfByte x.val) = x.val := by decide +kernel

theorem bitsOfByte_length (b : Nat) : (Spec.bitsOfByte b).length = 8 := rfl

theorem bitsOfByte_inj (x y : Nat) (hx : x < 256) (hy : y < 256) (h : Spec.bitsOfByte x = Spec.bitsOfByte y) : x = y := by
  have a := valOfBits_bitsOfByte ⟨x, hx⟩
  have b := valOfBits_bitsOfByte ⟨y, hy⟩
  simp only at a b
  rw [← a, ← b, h]

theorem flatBits_inj (w w' : Bytes) (hl : w.length = w'.length) (hw : ∀ b ∈ w, b < 256) (hw' : ∀ b ∈ w', b < 256)
    (h : w.flatMap Spec.bitsOfByte = w'.flatMap Spec.bitsOfByte) : w = w' := by
  induction w generalizing w' with
  | nil => cases w' with
    | nil => rfl
    | cons _ _ => simp at hl
  | cons x r ih =>
    cases w' with
    | nil => simp at hl
    | cons y s =>
      simp only [List.flatMap_cons] at h
      have := List.append_inj h (by rw [bitsOfByte_length, bitsOfByte_length])
      have hxy := bitsOfByte_inj x y (hw x (by simp)) (hw' y (by simp)) this.1
      rw [hxy, ih s (by simpa using hl) (fun b hb => hw b (by simp [hb])) (fun b hb => hw' b (by simp [hb])) this.2]

theorem flatBits_length (w : Bytes) : (w.flatMap Spec.bitsOfByte).length = 8 * w.length := by
  induction w with
  | nil => rfl
  | cons x r ih => simp only [List.flatMap_cons, List.length_append, bitsOfByte_length, ih, List.length_cons]; omega

theorem xorBits_length (m e : List Bool) (h : m.length = e.length) : (xorBits m e).length = m.length := by
  induction m generalizing e with
  | nil => cases e <;> simp [xorBits]
  | cons a r ih => cases e with
    | nil => simp at h
    | cons b s => simp [xorBits, ih s (by simpa using h)]

/-- equal-length bit strings that differ have an XOR pattern with a first one: zeros, a one, a rest -/
theorem xorBits_split (m e : List Bool) (h : m.length = e.length) (hne : m ≠ e) :
    ∃ a b, xorBits m e = List.replicate a false ++ true :: b := by
  induction m generalizing e with
  | nil => cases e with
    | nil => exact absurd rfl hne
    | cons _ _ => simp at h
  | cons x r ih =>
    cases e with
    | nil => simp at h
    | cons y s =>
      by_cases hxy : x = y
      · subst hxy
        have hrs : r ≠ s := fun hh => hne (by rw [hh])
        obtain ⟨a, b, hab⟩ := ih s (by simpa using h) hrs
        refine ⟨a + 1, b, ?_⟩
        simp [xorBits, hab, List.replicate_succ]
      · refine ⟨0, xorBits r s, ?_⟩
        cases x <;> cases y <;> simp_all [xorBits]

/-- the bit-serial register separates any two different bit strings of the same length ≤ 32, from any state -/
theorem feedBits_window_inj (c : BitVec 32) (m e : List Bool) (h : m.length = e.length) (h32 : m.length ≤ 32)
    (heq : feedBits c m = feedBits c e) : m = e := by
  apply Decidable.byContradiction
  intro hne
  obtain ⟨a, b, hab⟩ := xorBits_split m e h hne
  have hx := feedBits_xor c c m e h
  rw [BitVec.xor_self, heq, BitVec.xor_self, hab] at hx
  have hlen := xorBits_length m e h
  rw [hab] at hlen
  simp only [List.length_append, List.length_replicate, List.length_cons] at hlen
  have := burst_nonzero a 0 b (by omega)
  simp only [List.replicate_zero, List.append_nil] at this
  exact this hx

end Astits
