/-
C09 helper: the CRC register update is a BIJECTION of the register for every fixed input (bit, byte, byte string):
the LFSR step is linear with trivial kernel.  Hence two runs that differ in their register at some point and read
the same bytes from there on still differ at the end — nothing that follows a damaged prefix can mask the damage.
-/
import Astits.Proofs.CRCBurst
namespace Astits

theorem crcBit_inj (x y : BitVec 32) (h : crcBit x = crcBit y) : x = y := by
  have h0 : crcBit (x ^^^ y) = 0#32 := by rw [crcBit_xor, h, BitVec.xor_self]
  have hz : x ^^^ y = 0#32 := Decidable.byContradiction fun hne => crcBit_ne_zero' _ hne h0
  exact BitVec.xor_eq_zero_iff.mp hz

theorem feedBit_inj (c d : BitVec 32) (b : Bool) (h : Spec.crcFeedBit c b = Spec.crcFeedBit d b) : c = d := by
  rw [feedBit_eq, feedBit_eq] at h
  exact (BitVec.xor_left_inj (topBit b)).mp (crcBit_inj _ _ h)

theorem feedBits_inj (c d : BitVec 32) (m : List Bool) (h : feedBits c m = feedBits d m) : c = d := by
  induction m generalizing c d with
  | nil => exact h
  | cons a r ih =>
    simp only [feedBits, List.foldl_cons] at h ih
    exact feedBit_inj _ _ a (ih _ _ h)

theorem feedByte_inj (c d : BitVec 32) (b : Nat) (h : Spec.crcFeedByte c b = Spec.crcFeedByte d b) : c = d :=
  feedBits_inj c d (Spec.bitsOfByte b) h

theorem crcFrom_inj (c d : BitVec 32) (bs : Bytes) (h : Spec.crcFrom c bs = Spec.crcFrom d bs) : c = d := by
  induction bs generalizing c d with
  | nil => exact h
  | cons b r ih =>
    simp only [Spec.crcFrom, List.foldl_cons] at h ih
    exact feedByte_inj _ _ b (ih _ _ h)

/-! ### injectivity in the input byte -/

theorem crcBits8_inj (x y : BitVec 32) (h : crcBits8 x = crcBits8 y) : x = y := by
  unfold crcBits8 at h
  exact crcBit_inj _ _ (crcBit_inj _ _ (crcBit_inj _ _ (crcBit_inj _ _ (crcBit_inj _ _ (crcBit_inj _ _
    (crcBit_inj _ _ (crcBit_inj _ _ h)))))))

theorem idx_lt (v : BitVec 32) : (v &&& 0xff#32).toNat < 256 := by
  rw [BitVec.toNat_and]
  exact Nat.lt_of_le_of_lt Nat.and_le_right (by decide)

theorem shl24_inj (i j : BitVec 32) (hi : i.toNat < 256) (hj : j.toNat < 256) (h : i <<< 24 = j <<< 24) : i = j := by
  apply BitVec.eq_of_toNat_eq
  have := congrArg BitVec.toNat h
  simp only [BitVec.toNat_shiftLeft, Nat.shiftLeft_eq] at this
  omega

end Astits
