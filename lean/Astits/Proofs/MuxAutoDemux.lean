/-
C01 support — the mux → demux theorem of `MuxDemux` for histories WITH automatic PID assignment.
-/
import Astits.Proofs.MuxAuto
import Astits.Proofs.MuxDemux
namespace Astits.MuxAutoDemux
open Astits.MuxCounters Astits.MuxTables Astits.MuxDemux Astits.MuxAuto Astits.PESRT

/-- condition on each call of the history, in the state in which it is made: admissible with automatic PIDs
(`StepOK'`); every `WriteData` succeeded; those on `pid` have `GoodData` input -/
def HistOKA (pid : Nat) (m : Mux) (op : Op) : Prop :=
  StepOK' m op ∧ ∀ d, op = .data d → Succeeded m d ∧ (d.pid = pid → GoodData m d)

theorem stepOKA_of_hist (pid : Nat) (m : Mux) (op : Op) (h : PidInv m) (hok : HistOKA pid m op) : StepOKA m op :=
  ⟨hok.1, fun d hd => noBurn_of_noPanic m d h.inv (hok.2 d hd).1.2⟩

/-- **one call of the history, as the demuxer's pool sees it on `pid`** (automatic adds included) -/
theorem op_stream' (pid : Nat) (hp0 : pid ≠ 0) (hp1 : pid ≠ 4096) (m : Mux) (op : Op) (hinv : PidInv m)
    (hok : HistOKA pid m op) (s : List Packet) (hs : ParsesTo (step m op).1 s) :
    s.filter (onPid pid) = (opWrites pid m op).flatMap (·.unit.packets) ∧
    (∀ r, UnitsFrom (stored (step m op).2 pid) r → UnitsFrom (stored m pid) ((opWrites pid m op).map (·.unit) ++ r)) ∧
    (∀ w ∈ opWrites pid m op, C02.unitOnPID pid w.unit ∧ PESHeaderOk w.hdr ∧
      concatPayload w.unit.packets = pesHeaderBytes w.hdr w.data.length ++ w.data) := by
  by_cases ha : ∃ es, op = .add es ∧ es.elementaryPID = 0
  · obtain ⟨es, rfl, h0⟩ := ha
    have hs' : ParsesTo [] s := hs
    rw [ParsesTo.nil_inv hs']
    have hst : stored (step m (.add es)).2 pid = stored m pid := add_auto_stored m es hinv h0 (hok.1.2 h0) pid
    rw [hst]
    exact ⟨rfl, fun r hr => hr, fun w hw => by cases hw⟩
  · have hop : OpOK op := opOK_of_opOK' op hok.1.1 (fun es he h0 => ha ⟨es, he, h0⟩)
    exact op_stream pid hp0 hp1 m op hinv.inv ⟨hop, hok.2⟩ s hs

/-- **the whole history, as the demuxer's pool sees it on `pid`** -/
theorem run_stream' (pid : Nat) (hp0 : pid ≠ 0) (hp1 : pid ≠ 4096) (m : Mux) (ops : List Op) (hinv : PidInv m)
    (hok : RunAll (HistOKA pid) m ops) (s : List Packet) (hs : ParsesTo (run m ops).1 s) :
    s.filter (onPid pid) = (writesOn pid m ops).flatMap (·.unit.packets) ∧
    UnitsFrom (stored m pid) ((writesOn pid m ops).map (·.unit)) ∧
    (∀ w ∈ writesOn pid m ops, C02.unitOnPID pid w.unit ∧ PESHeaderOk w.hdr ∧
      concatPayload w.unit.packets = pesHeaderBytes w.hdr w.data.length ++ w.data) := by
  induction ops generalizing m s with
  | nil =>
    have : s = [] := ParsesTo.nil_inv hs
    subst this
    exact ⟨rfl, trivial, fun w hw => by cases hw⟩
  | cons op ops ih =>
    have hs' : ParsesTo ((step m op).1 ++ (run (step m op).2 ops).1) s := hs
    obtain ⟨s1, s2, rfl, h1, h2⟩ := hs'.append_inv
    obtain ⟨a1, a2, a3⟩ := op_stream' pid hp0 hp1 m op hinv hok.1 s1 h1
    obtain ⟨b1, b2, b3⟩ := ih (step m op).2 (step_pidInv m op hinv hok.1.1) hok.2 s2 h2
    refine ⟨?_, ?_, ?_⟩
    · rw [List.filter_append, a1, b1]; simp [writesOn]
    · have := a2 _ b2
      simpa [writesOn] using this
    · intro w hw
      simp only [writesOn, List.mem_append] at hw
      rcases hw with hw | hw
      · exact a3 w hw
      · exact b3 w hw

/-- **C01, model level, pool + `parseData`, automatic PIDs included** -/
theorem history_delivered' (pm : ProgramMap) (pid : Nat) (hes : ESPid pid pm) (hpmt : pid ≠ 4096)
    (m : Mux) (ops : List Op) (hinv : PidInv m) (hok : RunAll (HistOKA pid) m ops)
    (s : List Packet) (hs : ParsesTo (run m ops).1 s) :
    deliveredOn pm pid s =
      (writesOn pid m ops).map fun w => .ok [pesDelivered pid w.hdr w.data w.unit.first] := by
  have hp0 : pid ≠ 0 := by
    intro h
    have := hes.notEarly
    simp [h] at this
  obtain ⟨r1, r2, r3⟩ := run_stream' pid hp0 hpmt m ops hinv hok s hs
  exact units_delivered pm pid hes s (writesOn pid m ops) r1 (fun w hw => (r3 w hw).1)
    (chainOK_of_unitsFrom [] _ _ (Or.inl rfl) r2) (fun w hw => (r3 w hw).2)

end Astits.MuxAutoDemux
