/-
C03 helper (layer 4): the DVB time parsers and `parseDescriptors` never panic.

Three descriptor constructors read "the rest of the descriptor" with `NextBytes(offsetEnd - offset)` without a guard
(`restTo`): they are panic-free only from an offset that has not passed the descriptor end (and the ISO 639 one
needs a non-empty rest).  `parseDescriptor` establishes exactly that: it dispatches only when `d.Length > 0`,
from the offset right behind the two header bytes.
-/
import Astits.Proofs.NoPanic.Core
import Astits.Model.Desc
namespace Astits

/-! ### dvb.go -/

theorem NP_parseDVBDurationSeconds : NP parseDVBDurationSeconds := by unfold parseDVBDurationSeconds; np_auto
macro_rules | `(tactic| np_leaf) => `(tactic| exact NP_parseDVBDurationSeconds)
theorem NP_parseDVBDurationMinutes : NP parseDVBDurationMinutes := by unfold parseDVBDurationMinutes; np_auto
macro_rules | `(tactic| np_leaf) => `(tactic| exact NP_parseDVBDurationMinutes)
theorem NP_parseDVBTime : NP parseDVBTime := by unfold parseDVBTime; np_auto
macro_rules | `(tactic| np_leaf) => `(tactic| exact NP_parseDVBTime)

/-! ### helpers of descriptor.go -/

theorem NP_loopFuel : NP loopFuel := fun _ h => h
macro_rules | `(tactic| np_leaf) => `(tactic| exact NP_loopFuel)

theorem NP_restIfAny (e : Int) : NP (restIfAny e) := by
  unfold restIfAny
  refine NP.bind NP_offset (fun off => Tr.ite (fun h => NP_nextBytes _ (by omega)) (fun _ => NP.pure _))
macro_rules | `(tactic| np_leaf) => `(tactic| exact NP_restIfAny _)

theorem NP_byteIf (c : Bool) : NP (byteIf c) := by unfold byteIf; np_auto
macro_rules | `(tactic| np_leaf) => `(tactic| exact NP_byteIf _)

/-- the unguarded rest read: panic-free when the offset has not passed the end; at least `k` bytes are returned when
the end is at least `k` ahead -/
theorem Tr_restTo (e : Int) (k : Nat) :
    Tr (fun it => 0 ≤ it.off ∧ it.off + k ≤ e) (restTo e) (fun bs it => Inv it ∧ k ≤ bs.length) := by
  unfold restTo
  refine Tr.bind (B := fun off it => off = it.off ∧ 0 ≤ it.off ∧ it.off + k ≤ e) ?_ (fun off => ?_)
  · exact Tr_offset _ _ (fun it h => ⟨rfl, h⟩)
  · refine Tr_nextBytes _ _ _ (fun it h => ⟨h.2.1, by omega, fun bs hl => ⟨?_, ?_⟩⟩)
    · unfold Inv; simp only; omega
    · omega

/-- FINDING (model level): the unguarded rest read panics when the offset has already passed the descriptor end
(negative `NextBytes` count that passes the bounds test) -/
theorem restTo_panics (e : Int) (it : It) (h : e < it.off) (he : e ≤ it.bs.length) : restTo e it = .panic := by
  unfold restTo
  rw [P.bind_run]
  simp only [It.offset]
  rw [nextBytes_panic_iff]
  omega

/-! ### descriptor constructors that are panic-free from every non-negative offset -/

theorem NP_newDescriptorAVCVideo : NP newDescriptorAVCVideo := by unfold newDescriptorAVCVideo; np_auto
macro_rules | `(tactic| np_leaf) => `(tactic| exact NP_newDescriptorAVCVideo)
theorem NP_newDescriptorDataStreamAlignment : NP newDescriptorDataStreamAlignment := by unfold newDescriptorDataStreamAlignment; np_auto
macro_rules | `(tactic| np_leaf) => `(tactic| exact NP_newDescriptorDataStreamAlignment)
theorem NP_newDescriptorExtendedEventItem : NP newDescriptorExtendedEventItem := by unfold newDescriptorExtendedEventItem; np_auto
macro_rules | `(tactic| np_leaf) => `(tactic| exact NP_newDescriptorExtendedEventItem)
theorem NP_newDescriptorMaximumBitrate : NP newDescriptorMaximumBitrate := by unfold newDescriptorMaximumBitrate; np_auto
macro_rules | `(tactic| np_leaf) => `(tactic| exact NP_newDescriptorMaximumBitrate)
theorem NP_newDescriptorPrivateDataIndicator : NP newDescriptorPrivateDataIndicator := by unfold newDescriptorPrivateDataIndicator; np_auto
macro_rules | `(tactic| np_leaf) => `(tactic| exact NP_newDescriptorPrivateDataIndicator)
theorem NP_newDescriptorPrivateDataSpecifier : NP newDescriptorPrivateDataSpecifier := by unfold newDescriptorPrivateDataSpecifier; np_auto
macro_rules | `(tactic| np_leaf) => `(tactic| exact NP_newDescriptorPrivateDataSpecifier)
theorem NP_newDescriptorService : NP newDescriptorService := by unfold newDescriptorService; np_auto
macro_rules | `(tactic| np_leaf) => `(tactic| exact NP_newDescriptorService)
theorem NP_newDescriptorShortEvent : NP newDescriptorShortEvent := by unfold newDescriptorShortEvent; np_auto
macro_rules | `(tactic| np_leaf) => `(tactic| exact NP_newDescriptorShortEvent)
theorem NP_newDescriptorStreamIdentifier : NP newDescriptorStreamIdentifier := by unfold newDescriptorStreamIdentifier; np_auto
macro_rules | `(tactic| np_leaf) => `(tactic| exact NP_newDescriptorStreamIdentifier)
theorem NP_newDescriptorAC3 (e : Int) : NP (newDescriptorAC3 e) := by unfold newDescriptorAC3; np_auto
macro_rules | `(tactic| np_leaf) => `(tactic| exact NP_newDescriptorAC3 _)
theorem NP_newDescriptorComponent (e : Int) : NP (newDescriptorComponent e) := by unfold newDescriptorComponent; np_auto
macro_rules | `(tactic| np_leaf) => `(tactic| exact NP_newDescriptorComponent _)
theorem NP_newDescriptorEnhancedAC3 (e : Int) : NP (newDescriptorEnhancedAC3 e) := by unfold newDescriptorEnhancedAC3; np_auto
macro_rules | `(tactic| np_leaf) => `(tactic| exact NP_newDescriptorEnhancedAC3 _)
theorem NP_newDescriptorExtensionSupplementaryAudio (e : Int) : NP (newDescriptorExtensionSupplementaryAudio e) := by unfold newDescriptorExtensionSupplementaryAudio; np_auto
macro_rules | `(tactic| np_leaf) => `(tactic| exact NP_newDescriptorExtensionSupplementaryAudio _)
theorem NP_newDescriptorRegistration (e : Int) : NP (newDescriptorRegistration e) := by unfold newDescriptorRegistration; np_auto
macro_rules | `(tactic| np_leaf) => `(tactic| exact NP_newDescriptorRegistration _)
theorem NP_newDescriptorContentLoop (e : Int) (fuel : Nat) : NP (newDescriptorContentLoop e fuel) := by
  induction fuel with
  | zero => unfold newDescriptorContentLoop; exact NP.fail _
  | succ n ih => unfold newDescriptorContentLoop; np_auto
macro_rules | `(tactic| np_leaf) => `(tactic| exact NP_newDescriptorContentLoop _ _)
theorem NP_newDescriptorExtendedEventLoop (e : Int) (fuel : Nat) : NP (newDescriptorExtendedEventLoop e fuel) := by
  induction fuel with
  | zero => unfold newDescriptorExtendedEventLoop; exact NP.fail _
  | succ n ih => unfold newDescriptorExtendedEventLoop; np_auto
macro_rules | `(tactic| np_leaf) => `(tactic| exact NP_newDescriptorExtendedEventLoop _ _)
theorem NP_newDescriptorLocalTimeOffsetLoop (e : Int) (fuel : Nat) : NP (newDescriptorLocalTimeOffsetLoop e fuel) := by
  induction fuel with
  | zero => unfold newDescriptorLocalTimeOffsetLoop; exact NP.fail _
  | succ n ih => unfold newDescriptorLocalTimeOffsetLoop; np_auto
macro_rules | `(tactic| np_leaf) => `(tactic| exact NP_newDescriptorLocalTimeOffsetLoop _ _)
theorem NP_newDescriptorParentalRatingLoop (e : Int) (fuel : Nat) : NP (newDescriptorParentalRatingLoop e fuel) := by
  induction fuel with
  | zero => unfold newDescriptorParentalRatingLoop; exact NP.fail _
  | succ n ih => unfold newDescriptorParentalRatingLoop; np_auto
macro_rules | `(tactic| np_leaf) => `(tactic| exact NP_newDescriptorParentalRatingLoop _ _)
theorem NP_newDescriptorSubtitlingLoop (e : Int) (fuel : Nat) : NP (newDescriptorSubtitlingLoop e fuel) := by
  induction fuel with
  | zero => unfold newDescriptorSubtitlingLoop; exact NP.fail _
  | succ n ih => unfold newDescriptorSubtitlingLoop; np_auto
macro_rules | `(tactic| np_leaf) => `(tactic| exact NP_newDescriptorSubtitlingLoop _ _)
theorem NP_newDescriptorTeletextLoop (e : Int) (fuel : Nat) : NP (newDescriptorTeletextLoop e fuel) := by
  induction fuel with
  | zero => unfold newDescriptorTeletextLoop; exact NP.fail _
  | succ n ih => unfold newDescriptorTeletextLoop; np_auto
macro_rules | `(tactic| np_leaf) => `(tactic| exact NP_newDescriptorTeletextLoop _ _)
theorem NP_newDescriptorVBIDataDescLoop (id : Nat) (e : Int) (fuel : Nat) : NP (newDescriptorVBIDataDescLoop id e fuel) := by
  induction fuel with
  | zero => unfold newDescriptorVBIDataDescLoop; exact NP.fail _
  | succ n ih => unfold newDescriptorVBIDataDescLoop; np_auto
macro_rules | `(tactic| np_leaf) => `(tactic| exact NP_newDescriptorVBIDataDescLoop _ _ _)
theorem NP_newDescriptorVBIDataLoop (e : Int) (fuel : Nat) : NP (newDescriptorVBIDataLoop e fuel) := by
  induction fuel with
  | zero => unfold newDescriptorVBIDataLoop; exact NP.fail _
  | succ n ih => unfold newDescriptorVBIDataLoop; np_auto
macro_rules | `(tactic| np_leaf) => `(tactic| exact NP_newDescriptorVBIDataLoop _ _)
theorem NP_newDescriptorContent (e : Int) : NP (newDescriptorContent e) := by unfold newDescriptorContent; np_auto
macro_rules | `(tactic| np_leaf) => `(tactic| exact NP_newDescriptorContent _)
theorem NP_newDescriptorLocalTimeOffset (e : Int) : NP (newDescriptorLocalTimeOffset e) := by unfold newDescriptorLocalTimeOffset; np_auto
macro_rules | `(tactic| np_leaf) => `(tactic| exact NP_newDescriptorLocalTimeOffset _)
theorem NP_newDescriptorParentalRating (e : Int) : NP (newDescriptorParentalRating e) := by unfold newDescriptorParentalRating; np_auto
macro_rules | `(tactic| np_leaf) => `(tactic| exact NP_newDescriptorParentalRating _)
theorem NP_newDescriptorSubtitling (e : Int) : NP (newDescriptorSubtitling e) := by unfold newDescriptorSubtitling; np_auto
macro_rules | `(tactic| np_leaf) => `(tactic| exact NP_newDescriptorSubtitling _)
theorem NP_newDescriptorTeletext (e : Int) : NP (newDescriptorTeletext e) := by unfold newDescriptorTeletext; np_auto
macro_rules | `(tactic| np_leaf) => `(tactic| exact NP_newDescriptorTeletext _)
theorem NP_newDescriptorVBIData (e : Int) : NP (newDescriptorVBIData e) := by unfold newDescriptorVBIData; np_auto
macro_rules | `(tactic| np_leaf) => `(tactic| exact NP_newDescriptorVBIData _)
theorem NP_newDescriptorExtendedEvent : NP newDescriptorExtendedEvent := by
  unfold newDescriptorExtendedEvent; np_auto
macro_rules | `(tactic| np_leaf) => `(tactic| exact NP_newDescriptorExtendedEvent)
theorem NP_newDescriptorUnknown (tag length : Nat) : NP (newDescriptorUnknown tag length) := by
  unfold newDescriptorUnknown; np_auto
macro_rules | `(tactic| np_leaf) => `(tactic| exact NP_newDescriptorUnknown _ _)
/-! ### the three constructors with an unguarded rest read -/

/-- precondition of the descriptor switch: the offset is inside the (non-empty) descriptor body -/
def InBody (e : Int) (it : It) : Prop := 0 ≤ it.off ∧ it.off < e

theorem Tr_newDescriptorNetworkName (e : Int) :
    Tr (InBody e) (newDescriptorNetworkName e) (fun _ it => Inv it) := by
  unfold newDescriptorNetworkName
  refine Tr.bind (B := fun _ it => Inv it) ?_ (fun _ => NP.pure _)
  exact Tr.weaken (Tr_restTo e 0) (fun it h => ⟨h.1, by have := h.2; omega⟩) (fun _ _ h => h.1)

theorem Tr_newDescriptorISO639LanguageAndAudioType (e : Int) :
    Tr (InBody e) (newDescriptorISO639LanguageAndAudioType e) (fun _ it => Inv it) := by
  unfold newDescriptorISO639LanguageAndAudioType
  refine Tr.bind (B := fun bs it => Inv it ∧ 1 ≤ bs.length) ?_ (fun bs => ?_)
  · exact Tr.weaken (Tr_restTo e 1) (fun it h => ⟨h.1, by have := h.2; omega⟩) (fun _ _ h => h)
  · intro it h
    have hne : ¬ bs.length = 0 := by omega
    rw [if_neg hne]
    exact h.1

theorem Tr_newDescriptorExtension (e : Int) :
    Tr (InBody e) (newDescriptorExtension e) (fun _ it => Inv it) := by
  unfold newDescriptorExtension
  refine Tr.bind (B := fun _ it => 0 ≤ it.off ∧ it.off + (0 : Nat) ≤ e) ?_ (fun tag => ?_)
  · exact Tr_nextByte _ _ (fun it h => ⟨h.1, fun _ => by have := h.1; have := h.2; simp only; omega⟩)
  · refine Tr.ite (fun _ => ?_) (fun _ => ?_)
    · refine Tr.weaken (A := Inv) (B := fun _ it => Inv it) ?_ (fun _ h => h.1) (fun _ _ h => h)
      show NP _
      np_auto
    · refine Tr.bind (B := fun _ it => Inv it) ?_ (fun _ => NP.pure _)
      exact Tr.weaken (Tr_restTo e 0) (fun _ h => h) (fun _ _ h => h.1)

/-! ### `parseDescriptors` -/

theorem Tr_parseDescriptorSwitch (d : Descriptor) (e : Int) :
    Tr (InBody e) (parseDescriptorSwitch d e) (fun _ it => Inv it) := by
  unfold parseDescriptorSwitch
  repeat' (refine Tr.ite (fun _ => ?_) (fun _ => ?_))
  all_goals first
    | exact Tr.bind (B := fun _ it => Inv it) (Tr_newDescriptorNetworkName e) (fun _ => NP.pure _)
    | exact Tr.bind (B := fun _ it => Inv it) (Tr_newDescriptorISO639LanguageAndAudioType e) (fun _ => NP.pure _)
    | exact Tr.bind (B := fun _ it => Inv it) (Tr_newDescriptorExtension e) (fun _ => NP.pure _)
    | (refine Tr.weaken (A := Inv) (B := fun _ it => Inv it) ?_ (fun _ h => h.1) (fun _ _ h => h)
       show NP _
       np_auto)

theorem NP_parseDescriptor : NP parseDescriptor := by
  unfold parseDescriptor
  refine NP.bind (NP_nextBytes 2 (by omega)) (fun bs => ?_)
  refine Tr.ite (fun hlen => ?_) (fun _ => NP.pure _)
  refine Tr.bind (B := fun off it => off = it.off ∧ 0 ≤ it.off) (Tr_offset _ _ (fun it h => ⟨rfl, h⟩)) (fun off => ?_)
  refine Tr.assume (0 ≤ off) (fun it h => by omega) (fun ho => ?_)
  refine Tr.bind (B := fun _ it => Inv it) ?_ (fun d => ?_)
  · refine Tr.ite (fun _ => ?_) (fun _ => ?_)
    · refine Tr.weaken (A := Inv) (B := fun _ it => Inv it) ?_ (fun _ h => h.2) (fun _ _ h => h)
      show NP _
      np_auto
    · refine Tr.weaken (Tr_parseDescriptorSwitch _ _) (fun it h => ?_) (fun _ _ h => h)
      unfold InBody
      simp only at hlen ⊢
      omega
  · show NP _
    np_auto
macro_rules | `(tactic| np_leaf) => `(tactic| exact NP_parseDescriptor)

theorem NP_parseDescriptorsLoop (e : Int) (fuel : Nat) : NP (parseDescriptorsLoop e fuel) := by
  induction fuel with
  | zero => unfold parseDescriptorsLoop; exact NP.fail _
  | succ n ih => unfold parseDescriptorsLoop; np_auto
macro_rules | `(tactic| np_leaf) => `(tactic| exact NP_parseDescriptorsLoop _ _)

/-- **`parseDescriptors` never panics** (from any non-negative offset, on any bytes) and leaves a non-negative offset -/
theorem NP_parseDescriptors : NP parseDescriptors := by unfold parseDescriptors; np_auto
macro_rules | `(tactic| np_leaf) => `(tactic| exact NP_parseDescriptors)


end Astits
