/-
C03 helper (layer 3): `parsePESData` never panics.
-/
import Astits.Proofs.NoPanic.Packet
import Astits.Model.PES
namespace Astits

theorem NP_parseESCR : NP parseESCR := by unfold parseESCR; np_auto
macro_rules | `(tactic| np_leaf) => `(tactic| exact NP_parseESCR)

/-- the payload start computed by `parsePESOptionalHeader` (`offset + header length`) is not negative -/
theorem NPQ_parsePESOptionalHeader : NPQ parsePESOptionalHeader (fun r => 0 ≤ r.2) := by
  unfold parsePESOptionalHeader
  refine NP.bindQ NP_nextByte (fun b => ?_)
  refine NP.bindQ NP_nextByte (fun f => ?_)
  refine NP.bindQ NP_nextByte (fun hl => ?_)
  refine NPQ.bindQ NPQ_offset (fun off ho => ?_)
  np_auto
  all_goals omega

/-- `parsePESHeader`: the data start offset is not negative -/
theorem NPQ_parsePESHeader : NPQ parsePESHeader (fun r => 0 ≤ r.2.1) := by
  unfold parsePESHeader
  refine NP.bindQ NP_nextByte (fun sid => ?_)
  refine NP.bindQ (NP_nextBytes 2 (by omega)) (fun bs => ?_)
  refine NP.bindQ NP_offset (fun off => ?_)
  refine NP.bindQ NP_len (fun l => ?_)
  refine NPQ.ite (fun _ => ?_) (fun _ => ?_)
  · refine NPQ.bindQ NPQ_parsePESOptionalHeader (fun r hr => ?_)
    obtain ⟨oh, ds⟩ := r
    exact NPQ.pure _ hr
  · refine NPQ.bindQ NPQ_offset (fun ds hds => ?_)
    exact NPQ.pure _ hds

theorem NP_parsePESData : NP parsePESData := by
  unfold parsePESData
  refine NP.bind (NP_seek 3 (by omega)) (fun _ => ?_)
  refine NPQ.bind NPQ_parsePESHeader (fun r hr => ?_)
  obtain ⟨h, dataStart, dataEnd⟩ := r
  simp only at hr ⊢
  refine Tr.ite (fun _ => NP.fail _) (fun hlt => ?_)
  show NP _
  np_auto

end Astits
