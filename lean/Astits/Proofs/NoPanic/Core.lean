/-
C03 helper (layer 1): a small Hoare logic for the parser monad `P` whose triples exclude the `.panic` outcome,
and the exact panic conditions of the iterator primitives.

`Tr Pre p Post` : from every iterator state satisfying `Pre`, `p` does not panic, and when it returns a value the
value and the new state satisfy `Post` (errors are allowed).  `NP p` is the common case "non-negative offset in,
no panic, non-negative offset out".
-/
import Astits.Basic
namespace Astits

/-- no-panic Hoare triple on the parser monad -/
def Res.sat {α} (r : Res (α × It)) (Post : α → It → Prop) : Prop :=
  match r with
  | .ok (a, it') => Post a it'
  | .err _ => True
  | .panic => False

@[simp] theorem Res.sat_ok {α} (a : α) (it : It) (Post : α → It → Prop) : (Res.ok (a, it)).sat Post = Post a it := rfl
@[simp] theorem Res.sat_err {α} (e : Err) (Post : α → It → Prop) : (Res.err e : Res (α × It)).sat Post = True := rfl
@[simp] theorem Res.sat_panic {α} (Post : α → It → Prop) : (Res.panic : Res (α × It)).sat Post = False := rfl

def Tr {α} (Pre : It → Prop) (p : P α) (Post : α → It → Prop) : Prop :=
  ∀ it, Pre it → (p it).sat Post

/-- the iterator invariant: the offset is not negative -/
def Inv (it : It) : Prop := 0 ≤ it.off

/-- from a non-negative offset: no panic, the offset stays non-negative, and the value satisfies `Q` -/
def NPQ {α} (p : P α) (Q : α → Prop) : Prop := Tr Inv p (fun a it => Inv it ∧ Q a)

/-- from a non-negative offset: no panic and the offset stays non-negative -/
def NP {α} (p : P α) : Prop := Tr Inv p (fun _ it => Inv it)

/-! ### what a triple says about a run -/

theorem Tr.not_panic {α} {Pre : It → Prop} {p : P α} {Post} (h : Tr Pre p Post) (it : It) (hp : Pre it) :
    p it ≠ .panic := by
  intro e
  have := h it hp
  rw [e] at this
  exact this

theorem Tr.post {α} {Pre : It → Prop} {p : P α} {Post} (h : Tr Pre p Post) (it : It) (hp : Pre it) (a : α) (it' : It)
    (e : p it = .ok (a, it')) : Post a it' := by
  have := h it hp
  rw [e] at this
  exact this

theorem NP.not_panic {α} {p : P α} (h : NP p) (it : It) (hp : 0 ≤ it.off) : p it ≠ .panic :=
  Tr.not_panic h it hp

theorem NP.off_nonneg {α} {p : P α} (h : NP p) (it : It) (hp : 0 ≤ it.off) (a : α) (it' : It)
    (e : p it = .ok (a, it')) : 0 ≤ it'.off :=
  Tr.post h it hp a it' e

/-- the formulation of the task statement -/
theorem NP_iff {α} (p : P α) :
    NP p ↔ ∀ it, 0 ≤ it.off → (p it ≠ .panic ∧ ∀ a it', p it = .ok (a, it') → 0 ≤ it'.off) := by
  constructor
  · intro h it hp
    exact ⟨h.not_panic it hp, fun a it' e => h.off_nonneg it hp a it' e⟩
  · intro h it hp
    obtain ⟨h1, h2⟩ := h it hp
    cases e : p it with
    | ok x => obtain ⟨a, it'⟩ := x; exact h2 a it' e
    | err _ => trivial
    | panic => exact h1 e

theorem P.val_ne_panic {α} {p : P α} {bs : Bytes} {off : Int} (h : p ⟨bs, off⟩ ≠ .panic) :
    p.val bs off ≠ .panic := by
  unfold P.val
  cases e : p ⟨bs, off⟩ with
  | ok x => obtain ⟨a, it'⟩ := x; simp
  | err _ => simp
  | panic => exact absurd e h

theorem P.val_panic_iff {α} (p : P α) (bs : Bytes) (off : Int) :
    p.val bs off = .panic ↔ p ⟨bs, off⟩ = .panic := by
  unfold P.val
  cases e : p ⟨bs, off⟩ with
  | ok x => obtain ⟨a, it'⟩ := x; simp
  | err _ => simp
  | panic => simp

theorem NP.val_ne_panic {α} {p : P α} (h : NP p) (bs : Bytes) : p.val bs ≠ .panic :=
  P.val_ne_panic (h.not_panic ⟨bs, 0⟩ (Int.le_refl 0))

/-! ### structural rules -/

theorem Tr.bind {α β} {A : It → Prop} {B : α → It → Prop} {C : β → It → Prop} {p : P α} {f : α → P β}
    (hp : Tr A p B) (hf : ∀ a, Tr (B a) (f a) C) : Tr A (p >>= f) C := by
  intro it ha
  have h1 := hp it ha
  show ((p >>= f) it).sat C
  rw [P.bind_run]
  cases e : p it with
  | ok x =>
    obtain ⟨a, it'⟩ := x
    rw [e] at h1
    exact hf a it' h1
  | err _ => trivial
  | panic => rw [e] at h1; exact h1

theorem Tr.pure {α} {A : It → Prop} {B : α → It → Prop} (a : α) (h : ∀ it, A it → B a it) :
    Tr A (pure a : P α) B := fun it ha => h it ha

theorem Tr.weaken {α} {A A' : It → Prop} {B B' : α → It → Prop} {p : P α} (h : Tr A p B)
    (hpre : ∀ it, A' it → A it) (hpost : ∀ a it, B a it → B' a it) : Tr A' p B' := by
  intro it ha
  have := h it (hpre it ha)
  cases e : p it with
  | ok x => obtain ⟨a, it'⟩ := x; rw [e] at this; exact hpost a it' this
  | err _ => trivial
  | panic => rw [e] at this; exact this

/-- a state-independent consequence of the precondition may be assumed -/
theorem Tr.assume {α} {A : It → Prop} {B : α → It → Prop} {p : P α} (φ : Prop) (hA : ∀ it, A it → φ)
    (h : φ → Tr A p B) : Tr A p B := fun it ha => h (hA it ha) it ha

theorem Tr.fail {α} {A : It → Prop} {B : α → It → Prop} (e : Err) : Tr A (P.fail e : P α) B := fun _ _ => trivial

theorem Tr.ite {α} {A : It → Prop} {B : α → It → Prop} {c : Prop} [Decidable c] {p q : P α}
    (hp : c → Tr A p B) (hq : ¬ c → Tr A q B) : Tr A (if c then p else q) B := by
  by_cases h : c
  · rw [if_pos h]; exact hp h
  · rw [if_neg h]; exact hq h

theorem NP.bind {α β} {p : P α} {f : α → P β} (hp : NP p) (hf : ∀ a, NP (f a)) : NP (p >>= f) :=
  Tr.bind hp hf

theorem NPQ.bind {α β} {p : P α} {f : α → P β} {Q : α → Prop} (hp : NPQ p Q) (hf : ∀ a, Q a → NP (f a)) :
    NP (p >>= f) :=
  Tr.bind (B := fun a it => Inv it ∧ Q a) hp (fun a it h => hf a h.2 it h.1)

theorem NPQ.bindQ {α β} {p : P α} {f : α → P β} {Q : α → Prop} {R : β → Prop} (hp : NPQ p Q)
    (hf : ∀ a, Q a → NPQ (f a) R) : NPQ (p >>= f) R :=
  Tr.bind (B := fun a it => Inv it ∧ Q a) hp (fun a it h => hf a h.2 it h.1)

theorem NP.bindQ {α β} {p : P α} {f : α → P β} {R : β → Prop} (hp : NP p) (hf : ∀ a, NPQ (f a) R) :
    NPQ (p >>= f) R :=
  Tr.bind hp hf

theorem NP.pure {α} (a : α) : NP (pure a : P α) := Tr.pure a (fun _ h => h)

theorem NPQ.pure {α} {Q : α → Prop} (a : α) (h : Q a) : NPQ (pure a : P α) Q := Tr.pure a (fun _ hi => ⟨hi, h⟩)

theorem NP.fail {α} (e : Err) : NP (P.fail e : P α) := Tr.fail e

theorem NPQ.fail {α} {Q : α → Prop} (e : Err) : NPQ (P.fail e : P α) Q := Tr.fail e

theorem NP.ite {α} {c : Prop} [Decidable c] {p q : P α} (hp : NP p) (hq : NP q) : NP (if c then p else q) :=
  Tr.ite (fun _ => hp) (fun _ => hq)

theorem NPQ.ite {α} {Q : α → Prop} {c : Prop} [Decidable c] {p q : P α} (hp : c → NPQ p Q) (hq : ¬ c → NPQ q Q) :
    NPQ (if c then p else q) Q :=
  Tr.ite hp hq

theorem NPQ.toNP {α} {p : P α} {Q : α → Prop} (h : NPQ p Q) : NP p :=
  Tr.weaken h (fun _ h => h) (fun _ _ h => h.1)

theorem NP.toNPQ {α} {p : P α} (h : NP p) : NPQ p (fun _ => True) :=
  Tr.weaken h (fun _ h => h) (fun _ _ h => ⟨h, trivial⟩)

theorem NPQ.mono {α} {p : P α} {Q R : α → Prop} (h : NPQ p Q) (hqr : ∀ a, Q a → R a) : NPQ p R :=
  Tr.weaken h (fun _ h => h) (fun a _ h => ⟨h.1, hqr a h.2⟩)

/-! ### the iterator primitives: exact panic conditions -/

/-- `NextByte` panics exactly on a negative offset (the bounds test `len < off + 1` passes vacuously there) -/
theorem nextByte_panic_iff (it : It) : It.nextByte it = .panic ↔ it.off < 0 := by
  unfold It.nextByte
  constructor
  · intro h
    split at h
    · cases h
    · split at h
      · assumption
      · cases h
  · intro h
    have : ¬ ((it.bs.length : Int) < it.off + 1) := by omega
    rw [if_neg this, if_pos h]

/-- `NextBytes(n)` panics exactly when the bounds test passes and the offset or the count is negative -/
theorem nextBytes_panic_iff (n : Int) (it : It) :
    It.nextBytes n it = .panic ↔ it.off + n ≤ it.bs.length ∧ (n < 0 ∨ it.off < 0) := by
  unfold It.nextBytes
  constructor
  · intro h
    split at h
    · cases h
    · split at h
      · exact ⟨by omega, by assumption⟩
      · cases h
  · intro ⟨h1, h2⟩
    have : ¬ ((it.bs.length : Int) < it.off + n) := by omega
    rw [if_neg this, if_pos h2]

/-- `Dump` panics exactly on a negative offset of a non-empty... (any slice: `off < len` holds for every negative offset) -/
theorem dump_panic_iff (it : It) : It.dump it = .panic ↔ it.off < 0 := by
  unfold It.dump
  constructor
  · intro h
    split at h
    · cases h
    · split at h
      · assumption
      · cases h
  · intro h
    have : ¬ ¬ (it.off < (it.bs.length : Int)) := by omega
    rw [if_neg this, if_pos h]

theorem seek_ne_panic (n : Int) (it : It) : It.seek n it ≠ .panic := by simp [It.seek]
theorem skip_ne_panic (n : Int) (it : It) : It.skip n it ≠ .panic := by simp [It.skip]
theorem offset_ne_panic (it : It) : It.offset it ≠ .panic := by simp [It.offset]
theorem len_ne_panic (it : It) : It.len it ≠ .panic := by simp [It.len]
theorem hasBytesLeft_ne_panic (it : It) : It.hasBytesLeft it ≠ .panic := by simp [It.hasBytesLeft]

/-! ### the iterator primitives: triples -/

/-- `NextByte` from offset `k ≥ 0`: no panic, the offset becomes `k + 1`, the slice is unchanged -/
theorem Tr_nextByte (A : It → Prop) (B : Nat → It → Prop)
    (h : ∀ it, A it → 0 ≤ it.off ∧ ∀ b, B b ⟨it.bs, it.off + 1⟩) : Tr A It.nextByte B := by
  intro it ha
  obtain ⟨h0, hb⟩ := h it ha
  show (It.nextByte it).sat B
  unfold It.nextByte
  by_cases h1 : (it.bs.length : Int) < it.off + 1
  · rw [if_pos h1]; trivial
  · have h2 : ¬ it.off < 0 := by omega
    rw [if_neg h1, if_neg h2]; exact hb _

theorem nextBytes_length (it : It) (n : Int) (h0 : 0 ≤ it.off) (hn : 0 ≤ n) (hl : ¬ ((it.bs.length : Int) < it.off + n)) :
    ((it.bs.drop it.off.toNat).take n.toNat).length = n.toNat := by
  rw [List.length_take, List.length_drop]
  omega

/-- `NextBytes(n)` with `n ≥ 0` from offset `k ≥ 0`: no panic, exactly `n` bytes, the offset becomes `k + n` -/
theorem Tr_nextBytes (n : Int) (A : It → Prop) (B : Bytes → It → Prop)
    (h : ∀ it, A it → 0 ≤ it.off ∧ 0 ≤ n ∧ ∀ bs : Bytes, bs.length = n.toNat → B bs ⟨it.bs, it.off + n⟩) :
    Tr A (It.nextBytes n) B := by
  intro it ha
  obtain ⟨h0, hn, hb⟩ := h it ha
  show (It.nextBytes n it).sat B
  unfold It.nextBytes
  by_cases h1 : (it.bs.length : Int) < it.off + n
  · rw [if_pos h1]; trivial
  · have h2 : ¬ (n < 0 ∨ it.off < 0) := by omega
    rw [if_neg h1, if_neg h2]; exact hb _ (nextBytes_length it n h0 hn h1)

theorem Tr_seek (n : Int) (A : It → Prop) (B : Unit → It → Prop) (h : ∀ it, A it → B () ⟨it.bs, n⟩) :
    Tr A (It.seek n) B := fun it ha => h it ha

theorem Tr_skip (n : Int) (A : It → Prop) (B : Unit → It → Prop) (h : ∀ it, A it → B () ⟨it.bs, it.off + n⟩) :
    Tr A (It.skip n) B := fun it ha => h it ha

theorem Tr_offset (A : It → Prop) (B : Int → It → Prop) (h : ∀ it, A it → B it.off it) : Tr A It.offset B :=
  fun it ha => h it ha

theorem Tr_len (A : It → Prop) (B : Int → It → Prop) (h : ∀ it, A it → B it.bs.length it) : Tr A It.len B :=
  fun it ha => h it ha

theorem Tr_hasBytesLeft (A : It → Prop) (B : Bool → It → Prop)
    (h : ∀ it, A it → B (decide (it.off < it.bs.length)) it) : Tr A It.hasBytesLeft B :=
  fun it ha => h it ha

theorem Tr_dump (A : It → Prop) (B : Bytes → It → Prop)
    (h : ∀ it, A it → 0 ≤ it.off ∧ B [] it ∧ ∀ bs, B bs ⟨it.bs, it.bs.length⟩) : Tr A It.dump B := by
  intro it ha
  obtain ⟨h0, h1, h2⟩ := h it ha
  show (It.dump it).sat B
  unfold It.dump
  by_cases h3 : ¬ (it.off < (it.bs.length : Int))
  · rw [if_pos h3]; exact h1
  · have h4 : ¬ it.off < 0 := by omega
    rw [if_neg h3, if_neg h4]; exact h2 _

/-! ### the invariant `0 ≤ off` through every primitive -/

theorem NP_nextByte : NP It.nextByte :=
  Tr_nextByte _ _ (fun it h => ⟨h, fun _ => by unfold Inv at *; simp only; omega⟩)

theorem NPQ_nextBytes (n : Int) (hn : 0 ≤ n) : NPQ (It.nextBytes n) (fun bs => bs.length = n.toNat) :=
  Tr_nextBytes n _ _ (fun it h => ⟨h, hn, fun _ hl => ⟨by unfold Inv at *; simp only; omega, hl⟩⟩)

theorem NP_nextBytes (n : Int) (hn : 0 ≤ n) : NP (It.nextBytes n) := (NPQ_nextBytes n hn).toNP

theorem NP_nextBytes_nat (n : Nat) : NP (It.nextBytes (n : Int)) := NP_nextBytes _ (Int.natCast_nonneg n)

theorem NP_seek (n : Int) (hn : 0 ≤ n) : NP (It.seek n) := Tr_seek n _ _ (fun _ _ => hn)

theorem NP_skip (n : Int) (hn : 0 ≤ n) : NP (It.skip n) :=
  Tr_skip n _ _ (fun it h => by unfold Inv at *; simp only; omega)

theorem NP_skip_nat (n : Nat) : NP (It.skip (n : Int)) := NP_skip _ (Int.natCast_nonneg n)

theorem NPQ_offset : NPQ It.offset (fun o => 0 ≤ o) := Tr_offset _ _ (fun _ h => ⟨h, h⟩)
theorem NP_offset : NP It.offset := NPQ_offset.toNP

theorem NPQ_len : NPQ It.len (fun l => 0 ≤ l) := Tr_len _ _ (fun _ h => ⟨h, Int.natCast_nonneg _⟩)
theorem NP_len : NP It.len := NPQ_len.toNP

theorem NP_hasBytesLeft : NP It.hasBytesLeft := Tr_hasBytesLeft _ _ (fun _ h => h)

theorem NP_dump : NP It.dump :=
  Tr_dump _ _ (fun it h => ⟨h, h, fun _ => by unfold Inv; simp only; omega⟩)

/-- reading a byte and stepping back over it (`b, _ := i.NextByte(); i.Skip(-1)`) keeps the offset non-negative -/
theorem NP_peek {β} {f : Nat → P β} (hf : ∀ b, NP (f b)) :
    NP (It.nextByte >>= fun b => It.skip (-1) >>= fun _ => f b) := by
  refine Tr.bind (B := fun _ it => 1 ≤ it.off) ?_ (fun b => Tr.bind (B := fun _ it => Inv it) ?_ (fun _ => hf b))
  · exact Tr_nextByte _ _ (fun it h => ⟨h, fun _ => by unfold Inv at h; simp only; omega⟩)
  · exact Tr_skip _ _ _ (fun it h => by unfold Inv; simp only; omega)

theorem NP_optP {α} {c : Bool} {p : P α} (hp : NP p) : NP (optP c p) := by
  unfold optP
  cases c
  · exact NP.pure _
  · exact NP.bind hp (fun _ => NP.pure _)

/-- `optP` returns a value exactly when the flag is set -/
theorem NPQ_optP {α} {c : Bool} {p : P α} (hp : NP p) : NPQ (optP c p) (fun o => o.isSome = c) := by
  unfold optP
  cases c
  · exact NPQ.pure _ rfl
  · exact NP.bindQ hp (fun _ => NPQ.pure _ rfl)

/-! ### a tactic that discharges `NP` goals of straight-line parsers

`np_leaf` is extended by `macro_rules` with one alternative per proved parser. -/

syntax "np_leaf" : tactic
macro_rules | `(tactic| np_leaf) => `(tactic| exact NP_nextByte)
macro_rules | `(tactic| np_leaf) => `(tactic| exact NP_nextBytes_nat _)
macro_rules | `(tactic| np_leaf) => `(tactic| (apply NP_nextBytes; omega))
macro_rules | `(tactic| np_leaf) => `(tactic| exact NP_offset)
macro_rules | `(tactic| np_leaf) => `(tactic| exact NP_len)
macro_rules | `(tactic| np_leaf) => `(tactic| exact NP_hasBytesLeft)
macro_rules | `(tactic| np_leaf) => `(tactic| exact NP_dump)
macro_rules | `(tactic| np_leaf) => `(tactic| exact NP_skip_nat _)
macro_rules | `(tactic| np_leaf) => `(tactic| (apply NP_skip; omega))
macro_rules | `(tactic| np_leaf) => `(tactic| (apply NP_seek; omega))
macro_rules | `(tactic| np_leaf) => `(tactic| exact NP.fail _)
macro_rules | `(tactic| np_leaf) => `(tactic| exact NP.pure _)
macro_rules | `(tactic| np_leaf) => `(tactic| assumption)

/-- one structural step -/
syntax "np_step" : tactic
macro_rules | `(tactic| np_step) => `(tactic| first
  | (with_reducible np_leaf)
  | (with_reducible refine NP_peek (fun _ => ?_))
  | (with_reducible refine NP.bind ?_ (fun _ => ?_))
  | (with_reducible refine NP.ite ?_ ?_)
  | (with_reducible refine NP_optP ?_)
  | (with_reducible refine NPQ.pure _ ?_)
  | (with_reducible refine NPQ.fail _)
  | (with_reducible refine NP.bindQ ?_ (fun _ => ?_))
  | (with_reducible refine NPQ.ite (fun _ => ?_) (fun _ => ?_))
  | (dsimp only)
  | (split))

macro "np_auto" : tactic => `(tactic| repeat' np_step)

end Astits
