/-
C03 helper (layer 6): `parseData`, `isPSIComplete`, the packet buffer and the demuxer step functions never return a
panic outcome, for every reader content and every demuxer state whose packet sizes are supported (0 = auto-detect,
or at least 187 — the documented range is "188 or more"; 187 is the exact bound of the model).
-/
import Astits.Proofs.NoPanic.PES
import Astits.Proofs.NoPanic.PSI
import Astits.Model.Demux
namespace Astits

/-! ### data.go -/

/-- **`parseData` never panics**, whatever the packets, the custom parser kind and the program map -/
theorem parseData_ne_panic (ps : List Packet) (prs : ParserKind) (pm : ProgramMap) : parseData ps prs pm ≠ .panic := by
  have h1 := NP_parsePSIData.val_ne_panic (concatPayload ps)
  have h2 := NP_parsePESData.val_ne_panic (concatPayload ps)
  unfold parseData
  cases prs <;> simp only [ne_eq, reduceCtorEq, not_false_eq_true]
  all_goals
    split
    · simp
    · split
      · split <;> simp_all
      · split
        · split <;> simp_all
        · simp

/-! ### packet_pool.go: the completeness probe -/

theorem NP_psiCompleteLoop (fuel : Nat) : NP (psiCompleteLoop fuel) := by
  induction fuel with
  | zero => unfold psiCompleteLoop; exact NP.pure _
  | succ n ih => unfold psiCompleteLoop; np_auto

/-- the parser `isPSIComplete` runs on the concatenated payload -/
def psiCompleteParser (fuel : Nat) : P Bool := do
  let b ← It.nextByte
  It.skip b
  let more ← It.hasBytesLeft
  if !more then pure false
  else psiCompleteLoop fuel

theorem isPSICompleteBytes_eq (payload : Bytes) :
    isPSICompleteBytes payload =
      (match (psiCompleteParser (payload.length + 1)).val payload with
       | .ok b => b
       | _ => false) := rfl

/-- the completeness probe never panics (so mapping "any failure" to `false` in `isPSICompleteBytes` hides no panic) -/
theorem psiCompleteParser_ne_panic (payload : Bytes) (fuel : Nat) : (psiCompleteParser fuel).val payload ≠ .panic := by
  have : NP (psiCompleteParser fuel) := by
    have := NP_psiCompleteLoop fuel
    unfold psiCompleteParser; np_auto
  exact this.val_ne_panic payload

/-! ### the reader and the packet buffer -/

/-- a complete `io.ReadFull` returns exactly the requested number of bytes -/
theorem readFull_length (r : Reader) (n : Nat) (bs : Bytes) (r' : Reader) (h : r.readFull n = (bs, none, r')) :
    bs.length = n := by
  unfold Reader.readFull at h
  dsimp only at h
  have hlen : ∀ (h1 : r.data.length - r.pos ≥ n), ((r.data.drop r.pos).take n).length = n := by
    intro h1; rw [List.length_take, List.length_drop]; omega
  split at h
  · split at h
    · cases h
    · split at h
      · rename_i h1
        simp only [Prod.mk.injEq] at h
        rw [← h.1]; exact hlen h1
      · split at h <;> cases h
  · split at h
    · rename_i h1
      simp only [Prod.mk.injEq] at h
      rw [← h.1]; exact hlen h1
    · split at h <;> cases h

theorem findSync_ge (b : Bytes) (size : Nat) (h : findSync b = some size) : 188 ≤ size := by
  unfold findSync at h
  have hm := List.mem_of_mem_head? h
  rw [List.mem_filter] at hm
  have := hm.2
  simp only [Bool.and_eq_true, decide_eq_true_eq] at this
  exact this.1

/-- outcome predicate: not a panic, and a returned size is at least 188 -/
def SizeRes (x : Res Nat) : Prop :=
  match x with
  | .ok s => 188 ≤ s
  | .err _ => True
  | .panic => False

@[simp] theorem SizeRes_ok (s : Nat) : SizeRes (.ok s) = (188 ≤ s) := rfl
@[simp] theorem SizeRes_err (e : Err) : SizeRes (.err e) = True := rfl
@[simp] theorem SizeRes_panic : SizeRes .panic = False := rfl

set_option linter.unusedSimpArgs false in
/-- auto-detection never panics and only ever returns a size of at least 188 -/
theorem autoDetectPacketSize_spec (r : Reader) : SizeRes (autoDetectPacketSize r).1 := by
  unfold autoDetectPacketSize
  dsimp only
  rcases hrf : r.readFull 193 with ⟨bs, e, r'⟩
  cases hk : r.kind <;> cases hf : r.faultActive <;> (try simp only [hrf])
  all_goals (repeat' split)
  all_goals try (simp only [SizeRes_err])
  all_goals (show 188 ≤ _; apply findSync_ge; assumption)

/-! ### demuxer.go -/

/-- a supported packet size: 0 (not set: auto-detect) or at least 187 -/
def SizeOKNat (n : Nat) : Prop := n = 0 ∨ 187 ≤ n

/-- the demuxer state invariant: the explicit packet size option is supported, and the size installed in the packet
buffer (explicit or auto-detected) is at least 187 -/
def Demux.SizeOK (d : Demux) : Prop :=
  SizeOKNat d.optPacketSize ∧ ∀ s, d.packetSize = some s → 187 ≤ s

theorem consultSkipper_fields (d : Demux) (p : Packet) :
    (d.consultSkipper p).2.optPacketSize = d.optPacketSize ∧ (d.consultSkipper p).2.packetSize = d.packetSize := by
  unfold Demux.consultSkipper
  cases d.skipper <;> simp

/-- `parsePacket` on a complete read of a supported size -/
theorem parsePacket_val_ne_panic (bs : Bytes) (size : Nat) (hs : SizeOKNat size) (hl : bs.length = size) :
    (parsePacket none).val bs ≠ .panic := by
  rw [ne_eq, P.val_panic_iff, parsePacket_panic_iff]
  intro ⟨h1, h2⟩
  rcases hs with h0 | h187
  · rw [h0] at hl
    cases bs with
    | nil => cases h1
    | cons _ _ => simp at hl
  · omega

/-- `packetBuffer.next` never panics for a supported packet size, and leaves the size fields alone -/
theorem bufferNext_spec (size : Nat) (hs : SizeOKNat size) (fuel : Nat) (d : Demux) :
    (d.bufferNext size fuel).1 ≠ .panic ∧ (d.bufferNext size fuel).2.optPacketSize = d.optPacketSize ∧
      (d.bufferNext size fuel).2.packetSize = d.packetSize := by
  induction fuel generalizing d with
  | zero => unfold Demux.bufferNext; simp
  | succ n ih =>
    unfold Demux.bufferNext
    rcases hrf : d.r.readFull size with ⟨bs, e, r'⟩
    dsimp only
    cases e with
    | some e => cases e <;> simp
    | none =>
      have hl := readFull_length _ _ _ _ hrf
      have hp := parsePacket_val_ne_panic bs size hs hl
      dsimp only
      cases hpp : (parsePacket none).val bs with
      | panic => exact absurd hpp hp
      | err e => simp
      | ok p =>
        dsimp only
        have hc := consultSkipper_fields { d with r := r' } { p with payload := [] }
        split
        · have := ih ({ d with r := r' }.consultSkipper { p with payload := [] }).2
          rw [hc.1, hc.2] at this
          exact this
        · simp [hc.1, hc.2]

/-- `NextPacket` never panics in a state with supported sizes, and keeps the sizes supported -/
theorem nextPacket_spec (d : Demux) (h : d.SizeOK) : d.nextPacket.1 ≠ .panic ∧ d.nextPacket.2.SizeOK := by
  obtain ⟨ho, hp⟩ := h
  unfold Demux.nextPacket
  cases hps : d.packetSize with
  | some s =>
    dsimp only
    have hs : SizeOKNat s := Or.inr (hp s hps)
    obtain ⟨h1, h2, h3⟩ := bufferNext_spec s hs (d.r.data.length + 2) d
    refine ⟨h1, ?_⟩
    unfold Demux.SizeOK
    rw [h2, h3]
    exact ⟨ho, hp⟩
  | none =>
    dsimp only
    by_cases hz : d.optPacketSize = 0
    · have hc : ¬ (d.optPacketSize ≠ 0) := by simp [hz]
      rw [if_neg hc]
      have ha := autoDetectPacketSize_spec d.r
      rcases had : autoDetectPacketSize d.r with ⟨res, r'⟩
      rw [had] at ha
      cases res with
      | panic => simp at ha
      | err e =>
        dsimp only
        refine ⟨by simp, ?_⟩
        unfold Demux.SizeOK
        dsimp only
        exact ⟨ho, by intro s hh; cases hh⟩
      | ok s =>
        simp only [SizeRes_ok] at ha
        dsimp only
        have hs : SizeOKNat s := Or.inr (by omega)
        obtain ⟨h1, h2, h3⟩ := bufferNext_spec s hs (r'.data.length + 2) { d with r := r', packetSize := some s }
        refine ⟨h1, ?_⟩
        unfold Demux.SizeOK
        rw [h2, h3]
        exact ⟨ho, by intro s' hh; cases hh; omega⟩
    · have hc : d.optPacketSize ≠ 0 := hz
      rw [if_pos hc]
      have hs : SizeOKNat d.optPacketSize := ho
      have h187 : 187 ≤ d.optPacketSize := by rcases ho with h0 | h1; exact absurd h0 hz; exact h1
      obtain ⟨h1, h2, h3⟩ :=
        bufferNext_spec d.optPacketSize hs (d.r.data.length + 2) { d with packetSize := some d.optPacketSize }
      refine ⟨h1, ?_⟩
      unfold Demux.SizeOK
      rw [h2, h3]
      exact ⟨ho, by intro s' hh; cases hh; exact h187⟩

theorem SizeOK_of_fields {d d' : Demux} (h : d.SizeOK) (h1 : d'.optPacketSize = d.optPacketSize)
    (h2 : d'.packetSize = d.packetSize) : d'.SizeOK := by
  unfold Demux.SizeOK at *
  rw [h1, h2]; exact h

theorem updateData_fields (d : Demux) (ds : List DemuxerData) :
    (d.updateData ds).2.optPacketSize = d.optPacketSize ∧ (d.updateData ds).2.packetSize = d.packetSize := by
  unfold Demux.updateData
  cases ds <;> simp

theorem logParser_fields (d : Demux) (ps : List Packet) :
    (d.logParser ps).optPacketSize = d.optPacketSize ∧ (d.logParser ps).packetSize = d.packetSize := by
  unfold Demux.logParser
  split <;> simp

/-- the EOF drain of `NextData` never panics and keeps the sizes supported -/
theorem drain_spec (fuel : Nat) (d : Demux) (h : d.SizeOK) : (d.drain fuel).1 ≠ .panic ∧ (d.drain fuel).2.SizeOK := by
  induction fuel generalizing d with
  | zero => unfold Demux.drain; exact ⟨by simp, h⟩
  | succ n ih =>
    unfold Demux.drain
    rcases hpd : poolDump d.pool with ⟨ps, pool'⟩
    dsimp only
    split
    · exact ⟨by simp, SizeOK_of_fields h rfl rfl⟩
    · have hl := logParser_fields { d with pool := pool' } ps
      have hok : ({ d with pool := pool' }.logParser ps).SizeOK := SizeOK_of_fields h hl.1 hl.2
      have hpd := parseData_ne_panic ps ({ d with pool := pool' }.logParser ps).parser
        ({ d with pool := pool' }.logParser ps).programMap
      split
      · rename_i ds _
        have hu := updateData_fields ({ d with pool := pool' }.logParser ps) ds
        have hok2 := SizeOK_of_fields hok hu.1 hu.2
        split
        · exact ⟨by simp, hok2⟩
        · exact ih _ hok2
      · exact ih _ hok
      · rename_i hpanic; exact absurd hpanic hpd

/-- the packet loop of `NextData` never panics and keeps the sizes supported -/
theorem dataLoop_spec (fuel : Nat) (d : Demux) (h : d.SizeOK) :
    (d.dataLoop fuel).1 ≠ .panic ∧ (d.dataLoop fuel).2.SizeOK := by
  induction fuel generalizing d with
  | zero => unfold Demux.dataLoop; exact ⟨by simp, h⟩
  | succ n ih =>
    unfold Demux.dataLoop
    obtain ⟨hnp, hnok⟩ := nextPacket_spec d h
    rcases hn : d.nextPacket with ⟨rp, d1⟩
    rw [hn] at hnp hnok
    dsimp only at hnp hnok ⊢
    split
    · exact drain_spec _ _ hnok
    · exact ⟨by simp, hnok⟩
    · exact absurd rfl hnp
    · rename_i p
      rcases hpa : poolAdd d1.programMap d1.pool p with ⟨ps, pool'⟩
      dsimp only
      have hok1 : ({ d1 with pool := pool' } : Demux).SizeOK := SizeOK_of_fields hnok rfl rfl
      split
      · exact ih _ hok1
      · have hl := logParser_fields { d1 with pool := pool' } ps
        have hok : ({ d1 with pool := pool' }.logParser ps).SizeOK := SizeOK_of_fields hok1 hl.1 hl.2
        have hpd := parseData_ne_panic ps ({ d1 with pool := pool' }.logParser ps).parser
          ({ d1 with pool := pool' }.logParser ps).programMap
        split
        · exact ⟨by simp, hok⟩
        · rename_i hpanic; exact absurd hpanic hpd
        · rename_i ds _
          have hu := updateData_fields ({ d1 with pool := pool' }.logParser ps) ds
          have hok2 := SizeOK_of_fields hok hu.1 hu.2
          split
          · exact ⟨by simp, hok2⟩
          · exact ih _ hok2

/-- `NextData` never panics in a state with supported sizes, and keeps the sizes supported -/
theorem nextData_spec (d : Demux) (h : d.SizeOK) : d.nextData.1 ≠ .panic ∧ d.nextData.2.SizeOK := by
  unfold Demux.nextData
  split
  · exact ⟨by simp, SizeOK_of_fields h rfl rfl⟩
  · exact dataLoop_spec _ d h

/-- `Rewind` resets the packet buffer; the explicit size option is kept -/
theorem rewind_spec (d : Demux) (h : d.SizeOK) : d.rewind.2.SizeOK := by
  unfold Demux.rewind
  dsimp only
  split
  · exact ⟨h.1, by intro s hh; cases hh⟩
  · exact ⟨h.1, by intro s hh; cases hh⟩

/-! ### the excluded configuration does panic -/

/-- FINDING (model level, confirmed on the implementation): with an explicit packet size `1 ≤ n ≤ 186`, the first
`NextPacket` on a fault-free reader holding at least `n` bytes that start with the sync byte panics -/
theorem nextPacket_panics_below_187 (d : Demux) (n : Nat) (tl : Bytes) (hps : d.packetSize = none)
    (ho : d.optPacketSize = n) (h0 : 0 < n) (hn : n < 187) (hf : d.r.faultAt = none) (hpos : d.r.pos = 0)
    (hdata : d.r.data = syncByte :: tl) (hlen : n ≤ tl.length + 1) : d.nextPacket.1 = .panic := by
  have hne : d.optPacketSize ≠ 0 := by omega
  have hfa : d.r.faultActive = none := by unfold Reader.faultActive; rw [hf]; split <;> rfl
  have hrf : d.r.readFull n = ((d.r.data.drop d.r.pos).take n, none, { d.r with pos := d.r.pos + n }) := by
    unfold Reader.readFull
    have : d.r.data.length - d.r.pos ≥ n := by rw [hdata, hpos]; simp only [List.length_cons]; omega
    simp only [hfa, this, if_true]
  have htake : (d.r.data.drop d.r.pos).take n = syncByte :: tl.take (n - 1) := by
    rw [hdata, hpos]
    obtain ⟨m, rfl⟩ : ∃ m, n = m + 1 := ⟨n - 1, by omega⟩
    simp
  have hpanic : (parsePacket none).val (syncByte :: tl.take (n - 1)) = .panic := by
    rw [P.val_panic_iff, parsePacket_panic_iff]
    refine ⟨rfl, ?_⟩
    simp only [List.length_cons, List.length_take]
    omega
  unfold Demux.nextPacket
  simp only [hps, hne, ne_eq, not_false_eq_true, if_true]
  unfold Demux.bufferNext
  simp only [ho, hrf, htake, hpanic]

/-! ### call sequences from an initial state -/

/-- a freshly constructed demuxer (`NewDemuxer` with any options): no packet buffer yet -/
theorem SizeOK_init (d : Demux) (hp : d.packetSize = none) (ho : d.optPacketSize = 0 ∨ 187 ≤ d.optPacketSize) :
    d.SizeOK := ⟨ho, by intro s hh; rw [hp] at hh; cases hh⟩

/-- the public calls of the demuxer -/
inductive DemuxCall where
  | nextPacket | nextData | rewind
  deriving Repr, DecidableEq

/-- one call: did it panic, and the state afterwards -/
def Demux.call (d : Demux) : DemuxCall → Bool × Demux
  | .nextPacket => (d.nextPacket.1.isPanic, d.nextPacket.2)
  | .nextData => (d.nextData.1.isPanic, d.nextData.2)
  | .rewind => (false, d.rewind.2)

/-- does any call of the sequence panic? -/
def Demux.anyPanic (d : Demux) : List DemuxCall → Bool
  | [] => false
  | c :: cs => (d.call c).1 || (d.call c).2.anyPanic cs

theorem isPanic_false_of_ne {α} {x : Res α} (h : x ≠ .panic) : x.isPanic = false := by
  cases x <;> first | rfl | exact absurd rfl h

theorem call_spec (d : Demux) (h : d.SizeOK) (c : DemuxCall) : (d.call c).1 = false ∧ (d.call c).2.SizeOK := by
  cases c with
  | nextPacket => exact ⟨isPanic_false_of_ne (nextPacket_spec d h).1, (nextPacket_spec d h).2⟩
  | nextData => exact ⟨isPanic_false_of_ne (nextData_spec d h).1, (nextData_spec d h).2⟩
  | rewind => exact ⟨rfl, rewind_spec d h⟩

theorem anyPanic_false (d : Demux) (h : d.SizeOK) (cs : List DemuxCall) : d.anyPanic cs = false := by
  induction cs generalizing d with
  | nil => rfl
  | cons c cs ih =>
    unfold Demux.anyPanic
    rw [(call_spec d h c).1, ih _ (call_spec d h c).2]
    rfl

end Astits
