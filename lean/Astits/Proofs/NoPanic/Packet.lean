/-
C03 helper (layer 2): `parsePacket` and the adaptation-field parsers never panic — except `parsePacket` on a
sync-byte-led slice shorter than 187 bytes, whose exact panic condition is proved here.
-/
import Astits.Proofs.NoPanic.Core
import Astits.Model.Packet
namespace Astits

theorem NP_parsePacketHeader : NP parsePacketHeader := by unfold parsePacketHeader; np_auto
macro_rules | `(tactic| np_leaf) => `(tactic| exact NP_parsePacketHeader)

theorem NP_parsePCR : NP parsePCR := by unfold parsePCR; np_auto
macro_rules | `(tactic| np_leaf) => `(tactic| exact NP_parsePCR)

theorem NP_parsePTSOrDTS : NP parsePTSOrDTS := by unfold parsePTSOrDTS; np_auto
macro_rules | `(tactic| np_leaf) => `(tactic| exact NP_parsePTSOrDTS)

theorem NP_parseAFExtension : NP parseAFExtension := by unfold parseAFExtension; np_auto
macro_rules | `(tactic| np_leaf) => `(tactic| exact NP_parseAFExtension)

theorem NP_parsePacketAdaptationField : NP parsePacketAdaptationField := by
  unfold parsePacketAdaptationField; np_auto
macro_rules | `(tactic| np_leaf) => `(tactic| exact NP_parsePacketAdaptationField)

/-- the parsed `adaptation_field_length` is a byte value: not negative -/
theorem NPQ_parsePacketAdaptationField : NPQ parsePacketAdaptationField (fun a => 0 ≤ a.length) := by
  unfold parsePacketAdaptationField; np_auto
  all_goals exact Int.natCast_nonneg _
theorem payloadOffset_nonneg (o : Int) (h : PacketHeader) (af : Option PacketAdaptationField) (ho : 0 ≤ o)
    (haf : ∀ a, af = some a → 0 ≤ a.length) : 0 ≤ payloadOffset o h af := by
  unfold payloadOffset
  cases af with
  | none => simp only; split <;> omega
  | some a => have := haf a rfl; simp only; split <;> omega

/-- `parsePacket` on a slice of at least 187 bytes (every packet buffer of a supported packet size) -/
theorem Tr_parsePacket (skip : Option (Packet → Bool)) :
    Tr (fun it => 0 ≤ it.off ∧ 187 ≤ it.bs.length) (parsePacket skip) (fun _ it => Inv it) := by
  unfold parsePacket
  refine Tr.bind (B := fun _ it => 187 ≤ it.bs.length) ?_ (fun b => ?_)
  · exact Tr_nextByte _ _ (fun it h => ⟨h.1, fun _ => h.2⟩)
  refine Tr.ite (fun _ => Tr.fail _) (fun _ => ?_)
  refine Tr.bind (B := fun l it => 187 ≤ l) ?_ (fun l => ?_)
  · exact Tr_len _ _ (fun it h => by omega)
  refine Tr.bind (B := fun _ it => Inv it) ?_ (fun _ => ?_)
  · exact Tr_seek _ _ _ (fun it h => by unfold Inv; simp only [mpegTsPacketSize]; omega)
  show NP _
  refine NPQ.bind NPQ_offset (fun offsetStart ho => ?_)
  refine NP.bind NP_parsePacketHeader (fun h => ?_)
  refine NPQ.bind (Q := fun af => ∀ a, af = some a → 0 ≤ a.length) ?_ (fun af haf => ?_)
  · refine NPQ.ite (fun _ => ?_) (fun _ => NPQ.pure _ (fun _ e => by cases e))
    refine NPQ.bindQ NPQ_parsePacketAdaptationField (fun a ha => NPQ.pure _ ?_)
    intro a' e; cases e; exact ha
  have := payloadOffset_nonneg offsetStart h af ho haf
  np_auto

/-- FINDING (model level): a slice that starts with the sync byte and is shorter than 187 bytes makes
`parsePacket` seek to the negative offset `len - 187`; the following `NextBytes(3)` passes its bounds test
and slices at a negative index: a Go run-time panic. -/
theorem parsePacket_short_panics (skip : Option (Packet → Bool)) (tl : Bytes) (h : tl.length + 1 < 187) :
    parsePacket skip ⟨syncByte :: tl, 0⟩ = .panic := by
  have e1 : It.nextByte ⟨syncByte :: tl, 0⟩ = .ok (syncByte, ⟨syncByte :: tl, 1⟩) := by
    unfold It.nextByte
    have : ¬ (((syncByte :: tl).length : Int) < 0 + 1) := by simp only [List.length_cons]; omega
    simp only [this, if_false]
    rfl
  have e2 : It.nextBytes 3 ⟨syncByte :: tl, ((syncByte :: tl).length : Int) - mpegTsPacketSize + 1⟩ = .panic := by
    rw [nextBytes_panic_iff]
    simp only [List.length_cons, mpegTsPacketSize]
    omega
  unfold parsePacket
  rw [P.bind_run, e1]
  simp only [ne_eq, not_true_eq_false, if_false]
  rw [P.bind_run]; simp only [It.len]
  rw [P.bind_run]; simp only [It.seek]
  rw [P.bind_run]; simp only [It.offset]
  rw [P.bind_run]; unfold parsePacketHeader
  rw [P.bind_run, e2]

theorem parsePacket_nil (skip : Option (Packet → Bool)) : parsePacket skip ⟨[], 0⟩ = .err .other := by
  unfold parsePacket
  rw [P.bind_run]
  rfl

theorem parsePacket_no_sync (skip : Option (Packet → Bool)) (b : Nat) (tl : Bytes) (hb : b ≠ syncByte) :
    parsePacket skip ⟨b :: tl, 0⟩ = .err .sync := by
  have e1 : It.nextByte ⟨b :: tl, 0⟩ = .ok (b, ⟨b :: tl, 1⟩) := by
    unfold It.nextByte
    have : ¬ (((b :: tl).length : Int) < 0 + 1) := by simp only [List.length_cons]; omega
    simp only [this, if_false]
    rfl
  unfold parsePacket
  rw [P.bind_run, e1]
  simp only [ne_eq, hb, not_false_eq_true, if_true]
  rfl

/-- the exact panic condition of `parsePacket` on a fresh iterator (the way `packetBuffer.next` calls it) -/
theorem parsePacket_panic_iff (skip : Option (Packet → Bool)) (bs : Bytes) :
    parsePacket skip ⟨bs, 0⟩ = .panic ↔ bs.head? = some syncByte ∧ bs.length < 187 := by
  constructor
  · intro h
    by_cases hl : 187 ≤ bs.length
    · exact absurd h ((Tr_parsePacket skip).not_panic ⟨bs, 0⟩ ⟨Int.le_refl 0, hl⟩)
    · cases bs with
      | nil => rw [parsePacket_nil] at h; cases h
      | cons b tl =>
        by_cases hb : b = syncByte
        · subst hb; exact ⟨rfl, by omega⟩
        · rw [parsePacket_no_sync skip b tl hb] at h; cases h
  · intro ⟨h1, h2⟩
    cases bs with
    | nil => cases h1
    | cons b tl =>
      simp only [List.head?_cons, Option.some.injEq] at h1
      subst h1
      exact parsePacket_short_panics skip tl (by simpa using h2)

end Astits
