/-
C03 helper (layer 5): `parsePSIData` never panics: the seeks computed from `section_length` stay non-negative, the
counts of the CRC reads are non-negative, and the syntax header is present exactly for the table ids whose section
parser dereferences it.
-/
import Astits.Proofs.NoPanic.Desc
import Astits.Model.PSI
namespace Astits

theorem NP_fuelOf : NP fuelOf := fun _ h => h
macro_rules | `(tactic| np_leaf) => `(tactic| exact NP_fuelOf)

/-- the generic `for i.Offset() < end` loop preserves panic freedom of its body -/
theorem NP_loopUntil {α} (fuel : Nat) (e : Int) (body : P α) (hb : NP body) : NP (loopUntil fuel e body) := by
  induction fuel with
  | zero => unfold loopUntil; exact NP.fail _
  | succ n ih => unfold loopUntil; np_auto
macro_rules | `(tactic| np_step) => `(tactic| with_reducible refine NP_loopUntil _ _ _ ?_)

theorem NP_parsePATSection (e : Int) (x : Nat) : NP (parsePATSection e x) := by unfold parsePATSection; np_auto
theorem NP_parsePMTSection (e : Int) (x : Nat) : NP (parsePMTSection e x) := by unfold parsePMTSection; np_auto
theorem NP_parseSDTSection (e : Int) (x : Nat) : NP (parseSDTSection e x) := by unfold parseSDTSection; np_auto
theorem NP_parseNITSection (x : Nat) : NP (parseNITSection x) := by unfold parseNITSection; np_auto
theorem NP_parseEITSection (e : Int) (x : Nat) : NP (parseEITSection e x) := by unfold parseEITSection; np_auto
theorem NP_parseTOTSection : NP parseTOTSection := by unfold parseTOTSection; np_auto
theorem NP_parsePSISectionSyntaxHeader : NP parsePSISectionSyntaxHeader := by
  unfold parsePSISectionSyntaxHeader; np_auto
macro_rules | `(tactic| np_leaf) => `(tactic| exact NP_parsePATSection _ _)
macro_rules | `(tactic| np_leaf) => `(tactic| exact NP_parsePMTSection _ _)
macro_rules | `(tactic| np_leaf) => `(tactic| exact NP_parseSDTSection _ _)
macro_rules | `(tactic| np_leaf) => `(tactic| exact NP_parseNITSection _)
macro_rules | `(tactic| np_leaf) => `(tactic| exact NP_parseEITSection _ _)
macro_rules | `(tactic| np_leaf) => `(tactic| exact NP_parseTOTSection)
macro_rules | `(tactic| np_leaf) => `(tactic| exact NP_parsePSISectionSyntaxHeader)
/-- the table ids whose section parser reads the syntax header are exactly those that have one -/
theorem needsHeader_eq (t : Nat) :
    (t == 0x40 || t == 0x41 || t == 0 || t == 2 || t == 0x42 || t == 0x46 || isEIT t) = hasPSISyntaxHeader t := by
  unfold hasPSISyntaxHeader
  cases (t == 0x40) <;> cases (t == 0x41) <;> cases (t == 0) <;> cases (t == 2) <;> cases (t == 0x42) <;>
    cases (t == 0x46) <;> cases (isEIT t) <;> rfl

/-- FINDING-shaped fact (model level): without a syntax header the PAT/PMT/SDT/NIT/EIT branch is a nil dereference -/
theorem parsePSISectionSyntaxData_panics (t : Nat) (e : Int) (it : It) (h : hasPSISyntaxHeader t = true) :
    parsePSISectionSyntaxData t none e it = .panic := by
  unfold parsePSISectionSyntaxData
  have hc : ((t == 0x40 || t == 0x41 || t == 0 || t == 2 || t == 0x42 || t == 0x46 || isEIT t)
      && (none : Option PSISectionSyntaxHeader).isNone) = true := by
    rw [needsHeader_eq, h]; rfl
  simp only [hc, ↓reduceIte]

/-- `parsePSISectionSyntaxData` is panic-free when the syntax header has been parsed for the ids that have one -/
theorem NP_parsePSISectionSyntaxData (t : Nat) (sh : Option PSISectionSyntaxHeader) (e : Int)
    (h : sh.isSome = hasPSISyntaxHeader t) : NP (parsePSISectionSyntaxData t sh e) := by
  unfold parsePSISectionSyntaxData
  have hc : ((t == 0x40 || t == 0x41 || t == 0 || t == 2 || t == 0x42 || t == 0x46 || isEIT t) && sh.isNone) = false := by
    rw [needsHeader_eq, ← h]
    cases sh <;> rfl
  dsimp only
  simp only [hc, Bool.false_eq_true, ↓reduceIte]
  np_auto

/-- `parsePSISection`: the offsets it seeks to (`offsetSectionsEnd`, `offsetStart`, `offsetEnd`) and the count of the
CRC-covered re-read (`offsetSectionsEnd - offsetStart = section_length - 1`) are not negative -/
theorem NP_parsePSISection : NP parsePSISection := by
  unfold parsePSISection
  refine Tr.bind (B := fun o it => o = it.off ∧ 0 ≤ it.off) (Tr_offset _ _ (fun it h => ⟨rfl, h⟩)) (fun s => ?_)
  refine Tr.assume (0 ≤ s) (fun it h => by omega) (fun hs => ?_)
  refine Tr.bind (B := fun _ it => it.off = s + 1) ?_ (fun t => ?_)
  · exact Tr_nextByte _ _ (fun it h => ⟨h.2, fun _ => by simp only; omega⟩)
  refine Tr.ite (fun _ => Tr.pure _ (fun it h => by unfold Inv; omega)) (fun _ => ?_)
  refine Tr.bind (B := fun _ it => it.off = s + 3) ?_ (fun bs => ?_)
  · exact Tr_nextBytes _ _ _ (fun it h => ⟨by omega, by omega, fun _ _ => by simp only; omega⟩)
  dsimp only
  refine Tr.bind (B := fun o it => o = s + 3 ∧ Inv it) (Tr_offset _ _ (fun it h => ⟨h, by unfold Inv; omega⟩)) (fun o => ?_)
  refine Tr.assume (o = s + 3) (fun it h => h.1) (fun ho => ?_)
  refine Tr.weaken (A := Inv) (B := fun _ it => Inv it) ?_ (fun _ h => h.2) (fun _ _ h => h)
  subst ho
  show NP _
  generalize List.getD bs 0 0 % 16 * 256 + List.getD bs 1 0 = sl
  refine Tr.ite (fun hsl => ?_) (fun _ => ?_)
  · refine NPQ.bind (NPQ_optP NP_parsePSISectionSyntaxHeader) (fun sh hsh => ?_)
    refine NP.bind (NP_parsePSISectionSyntaxData t sh _ hsh) (fun d => ?_)
    refine Tr.ite (fun hcrc => ?_) (fun _ => ?_)
    · simp only [hcrc, if_true]
      show NP _
      np_auto
    · show NP _
      np_auto
  · show NP _
    np_auto
macro_rules | `(tactic| np_leaf) => `(tactic| exact NP_parsePSISection)

theorem NP_parsePSISections (fuel : Nat) : NP (parsePSISections fuel) := by
  induction fuel with
  | zero => unfold parsePSISections; exact NP.fail _
  | succ n ih => unfold parsePSISections; np_auto
macro_rules | `(tactic| np_leaf) => `(tactic| exact NP_parsePSISections _)

/-- **`parsePSIData` never panics** (from any non-negative offset, on any bytes) -/
theorem NP_parsePSIData : NP parsePSIData := by unfold parsePSIData; np_auto



end Astits
