/-
C13 helper (SI tables) — from field ranges to the parse theorems: the per-descriptor hypotheses of
`tot/sdt/nit/eit_parse_enc` are discharged for every well-formed descriptor (`C14.DescWF`), for both per-descriptor
encoders (the model writer, which `Spec.sectionEncode` uses, and the reference `Spec.descEncode`).
-/
import Astits.Proofs.SIRT.EIT
import Astits.Proofs.SIRT.SDT
namespace Astits.SIRT
open Astits Astits.PacketRT Astits.DescRT

/-- what the table theorems need from a per-descriptor encoder -/
structure EncWF (enc : Descriptor → Bytes) : Prop where
  pos : EncPos enc
  rt : ∀ x, C14.DescWF x → EncRT enc x
  len : ∀ x, C14.DescWF x → (enc x).length = 2 + calcDescriptorLength x

theorem encWF_writer : EncWF writeDescriptor :=
  ⟨encPos_writer, fun x h => (C14.desc_ok_wf x h).rt, fun x h => (C14.desc_ok_wf x h).len⟩

/-- reference and library emit the same NUMBER of bytes for every well-formed descriptor (AC-3 included) -/
theorem descEncode_length_wf (x : Descriptor) (h : C14.DescWF x) : (Spec.descEncode x).length = (writeDescriptor x).length := by
  cases h with
  | user tag u ht hu => rw [spec_eq_writer_user_defined tag u ht hu]
  | typed _ h =>
    by_cases hac3 : x.tag = descriptorTagAC3
    · cases h with
      | ac3 y wf =>
        have hl := (C14.desc_ok_typed _ (.ac3 y wf)).len
        have hf := wf.fits
        have hc : calcDescriptorLength (ofAC3 y) = DescLen.ac3Size y := by
          have : calcDescriptorLength (ofAC3 y) = calcDescriptorAC3Length y := by
            simp [calcDescriptorLength, ofAC3, nilOr, isUserDefinedTag, descriptorTagAC3]
          rw [this, DescLen.ac3_calc]; omega
        have hb := ac3Body_spec_length y
        rw [hl, hc, descEncode_ac3 y wf]
        simp only [List.length_append, List.length_cons, List.length_nil]
        omega
      | unknown y wf =>
        have hk := wf.notKnown
        simp only [knownDescriptorTags, List.mem_cons, not_or] at hk
        exact absurd hac3 hk.1
      | _ => exact absurd hac3 (by intro h; cases h)
    · rw [spec_eq_writer_typed x h hac3]

theorem encWF_spec : EncWF Spec.descEncode :=
  ⟨encPos_spec, fun x h => specDescOk_wf x h, fun x h => by rw [descEncode_length_wf x h]; exact (C14.desc_ok_wf x h).len⟩

theorem flatten_length_sum {α} (f : α → Bytes) (g : α → Nat) (l : List α) (h : ∀ a ∈ l, (f a).length = g a) :
    (l.map f).flatten.length = (l.map g).sum := by
  induction l with
  | nil => rfl
  | cons a r ih =>
    simp only [List.map_cons, List.flatten_cons, List.length_append, List.sum_cons, h a (by simp),
      ih (fun x hx => h x (by simp [hx]))]

theorem descsE_length {enc : Descriptor → Bytes} (E : EncWF enc) (ds : List Descriptor) (h : ∀ x ∈ ds, C14.DescWF x) :
    (descsE enc ds).length = descriptorsSize ds := by
  induction ds with
  | nil => rfl
  | cons d r ih =>
    simp only [descsE, List.map_cons, List.flatten_cons, List.length_append, descriptorsSize, E.len d (h d (by simp))]
    have := ih (fun x hx => h x (by simp [hx]))
    simp only [descsE] at this
    rw [this]

/-! ### TOT -/

structure TOTWF (d : TOTData) : Prop where
  /-- MJD 15079 (1900-03-01 00:00:00) … 65535 (2038-04-22 23:59:59), as Unix seconds -/
  time : DVBTimeOk d.utcTime
  descs : ∀ x ∈ d.descriptors, C14.DescWF x
  /-- section_length = 5 + 2 + descriptors + 4 fits 12 bits -/
  fits : 11 + descriptorsSize d.descriptors < 4096

theorem TOTWF.ok {enc : Descriptor → Bytes} (E : EncWF enc) {d : TOTData} (h : TOTWF d) : TOTOk enc d :=
  ⟨h.time, fun x hx => E.rt x (h.descs x hx), by rw [descsE_length E _ h.descs]; exact h.fits⟩

/-! ### SDT -/

structure SDTServiceWF (s : SDTDataService) : Prop where
  serviceID : s.serviceID < 65536
  runningStatus : s.runningStatus < 8
  descs : ∀ x ∈ s.descriptors, C14.DescWF x
  fits : descriptorsSize s.descriptors < 4096

/-- number of bytes of an SDT body: original_network_id, reserved byte, 5 bytes per service plus its descriptors -/
def sdtBodySize (d : SDTData) : Nat := 3 + (d.services.map fun s => 5 + descriptorsSize s.descriptors).sum

structure SDTWF (d : SDTData) : Prop where
  originalNetworkID : d.originalNetworkID < 65536
  services : ∀ s ∈ d.services, SDTServiceWF s
  /-- section_length = syntax header 5 + body + CRC 4 fits 12 bits -/
  fits : 9 + sdtBodySize d < 4096

theorem SDTWF.ok {enc : Descriptor → Bytes} (E : EncWF enc) {d : SDTData} (h : SDTWF d) : SDTOk enc d := by
  have hs : ∀ s ∈ d.services, SDTServiceOk enc s := fun s hs =>
    let w := h.services s hs
    ⟨w.serviceID, w.runningStatus, fun x hx => E.rt x (w.descs x hx), by rw [descsE_length E _ w.descs]; exact w.fits⟩
  refine ⟨h.originalNetworkID, hs, ?_⟩
  rw [flatten_length_sum (sdtServiceE enc) (fun s => 5 + descriptorsSize s.descriptors) d.services
    (fun s hs => by rw [sdtServiceE_length, descsE_length E _ (h.services s hs).descs])]
  have := h.fits
  unfold sdtBodySize at this
  omega

/-! ### NIT -/

structure NITTSWF (t : NITDataTransportStream) : Prop where
  transportStreamID : t.transportStreamID < 65536
  originalNetworkID : t.originalNetworkID < 65536
  descs : ∀ x ∈ t.transportDescriptors, C14.DescWF x
  fits : descriptorsSize t.transportDescriptors < 4096

/-- number of bytes of the transport stream loop: 6 bytes per stream plus its descriptors -/
def nitLoopSize (d : NITData) : Nat := (d.transportStreams.map fun t => 6 + descriptorsSize t.transportDescriptors).sum

structure NITWF (d : NITData) : Prop where
  networkDescs : ∀ x ∈ d.networkDescriptors, C14.DescWF x
  streams : ∀ t ∈ d.transportStreams, NITTSWF t
  /-- section_length = syntax header 5 + 2 + network descriptors + 2 + loop + CRC 4 fits 12 bits (hence both 12-bit
  loop lengths do) -/
  fits : 13 + descriptorsSize d.networkDescriptors + nitLoopSize d < 4096

theorem NITWF.ok {enc : Descriptor → Bytes} (E : EncWF enc) {d : NITData} (h : NITWF d) : NITOk enc d := by
  have hs : ∀ t ∈ d.transportStreams, NITTSOk enc t := fun t ht =>
    let w := h.streams t ht
    ⟨w.transportStreamID, w.originalNetworkID, fun x hx => E.rt x (w.descs x hx), by rw [descsE_length E _ w.descs]; exact w.fits⟩
  have hl : (nitTSLoopE enc d).length = nitLoopSize d := by
    unfold nitTSLoopE nitLoopSize
    exact flatten_length_sum (nitTSE enc) (fun t => 6 + descriptorsSize t.transportDescriptors) d.transportStreams
      (fun t ht => by rw [nitTSE_length, descsE_length E _ (h.streams t ht).descs])
  have hn := descsE_length E _ h.networkDescs
  have := h.fits
  exact ⟨fun x hx => E.rt x (h.networkDescs x hx), by omega, hs, by omega, by omega⟩

/-! ### EIT -/

structure EITEventWF (e : EITDataEvent) : Prop where
  eventID : e.eventID < 65536
  /-- MJD 15079 … 65535 -/
  startTime : DVBTimeOk e.startTime
  /-- whole seconds, 0 ≤ d < 160 h (six valid BCD digits below 100 h) -/
  duration : DurationSecondsOk e.duration
  runningStatus : e.runningStatus < 8
  descs : ∀ x ∈ e.descriptors, C14.DescWF x
  fits : descriptorsSize e.descriptors < 4096

/-- number of bytes of an EIT body: 6 bytes, then 12 bytes per event plus its descriptors -/
def eitBodySize (d : EITData) : Nat := 6 + (d.events.map fun e => 12 + descriptorsSize e.descriptors).sum

structure EITWF (d : EITData) : Prop where
  transportStreamID : d.transportStreamID < 65536
  originalNetworkID : d.originalNetworkID < 65536
  segmentLastSectionNumber : d.segmentLastSectionNumber < 256
  lastTableID : d.lastTableID < 256
  events : ∀ e ∈ d.events, EITEventWF e
  /-- section_length = syntax header 5 + body + CRC 4 fits 12 bits -/
  fits : 9 + eitBodySize d < 4096

theorem EITWF.ok {enc : Descriptor → Bytes} (E : EncWF enc) {d : EITData} (h : EITWF d) : EITOk enc d := by
  have hs : ∀ e ∈ d.events, EITEventOk enc e := fun e he =>
    let w := h.events e he
    ⟨w.eventID, w.startTime, w.duration, w.runningStatus, fun x hx => E.rt x (w.descs x hx),
      by rw [descsE_length E _ w.descs]; exact w.fits⟩
  refine ⟨h.transportStreamID, h.originalNetworkID, h.segmentLastSectionNumber, h.lastTableID, hs, ?_⟩
  rw [flatten_length_sum (eitEventE enc) (fun e => 12 + descriptorsSize e.descriptors) d.events
    (fun e he => by rw [eitEventE_length, descsE_length E _ (h.events e he).descs])]
  have := h.fits
  unfold eitBodySize at this
  omega

/-! ### the generators' expectation -/

/-- from a parse theorem about `Spec.sectionEncode (siSection …)` / `delivered` to one about `Gen.mkSection`: bytes and
expected value are the two components of `mkSection` -/
theorem parse_mkSection (ptr stuffing t : Nat) (priv : Bool) (sh : Option PSISectionSyntaxHeader) (d d' : PSISectionSyntaxData)
    (hd : d' = d)
    (h : parsePSIData ⟨Spec.unitEncode ptr [Spec.sectionEncode (siSection t sh.isSome priv sh d)] stuffing, 0⟩ =
      .ok ({ pointerField := (ptr : Int), sections := delivered t sh.isSome priv sh d' (sectionBody t sh d) :: stopSections stuffing },
        ⟨Spec.unitEncode ptr [Spec.sectionEncode (siSection t sh.isSome priv sh d)] stuffing,
          ((1 + ptr + (Spec.sectionEncode (siSection t sh.isSome priv sh d)).length + stopBytes stuffing : Nat) : Int)⟩)) :
    parsePSIData ⟨Spec.unitEncode ptr [(mkSection t priv sh d).2] stuffing, 0⟩ =
      .ok ({ pointerField := (ptr : Int), sections := (mkSection t priv sh d).1 :: stopSections stuffing },
        ⟨Spec.unitEncode ptr [(mkSection t priv sh d).2] stuffing,
          ((1 + ptr + (mkSection t priv sh d).2.length + stopBytes stuffing : Nat) : Int)⟩) := by
  rw [mkSection_eq]
  subst hd
  exact h

end Astits.SIRT
