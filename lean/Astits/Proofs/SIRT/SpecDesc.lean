/-
C13 / C14 helper (T5) — "model writer = independent reference encoder", kind by kind:
`Spec.descEncode d = writeDescriptor d` for every well-formed typed descriptor except AC-3 (where the reference
writes reserved_flags = 0000 as EN 300 468 D.3 prescribes and the library writes 1111: a recorded finding); for AC-3
the parse of the reference bytes is proved directly.  Hence `SpecDescOk d` for every `C14.DescWF d`.
-/
import Astits.Proofs.SIRT.Core
import Astits.Props.C14
import Astits.Proofs.SIRT.TOT
namespace Astits.SIRT
open Astits Astits.PacketRT Astits.DescRT

/-! ### byte-aligned concatenation of field lists -/

theorem packBits_append (n : Nat) : ∀ xs ys : List Bool, xs.length = 8 * n →
    Spec.packBits (xs ++ ys) = Spec.packBits xs ++ Spec.packBits ys := by
  induction n with
  | zero =>
    intro xs ys h
    have : xs = [] := List.eq_nil_of_length_eq_zero (by omega)
    subst this
    simp [Spec.packBits]
  | succ n ih =>
    intro xs ys h
    match xs, h with
    | b7 :: b6 :: b5 :: b4 :: b3 :: b2 :: b1 :: b0 :: r, h =>
      have hr : r.length = 8 * n := by simp only [List.length_cons] at h; omega
      simp only [List.cons_append]
      rw [Spec.packBits, Spec.packBits, ih r ys hr]
      rfl

theorem enc_append (a b : List (Nat × Nat)) (h : fieldsWidth (swapFields a) % 8 = 0) :
    Spec.enc (a ++ b) = Spec.enc a ++ Spec.enc b := by
  unfold Spec.enc
  rw [List.map_append, List.flatten_append]
  have hl := fieldBits_length a
  have h8 : (fieldBits a).length = 8 * (fieldsWidth (swapFields a) / 8) := by omega
  exact packBits_append (fieldsWidth (swapFields a) / 8) _ _ h8

theorem enc_nil : Spec.enc [] = [] := rfl

theorem enc_u8 (v : Nat) : Spec.enc [(8, v)] = wU8 v := by
  rw [enc_eq_packFields _ (by fw)]
  simp [swapFields, packFields, fieldsWidth, fieldsValue, beBytes, wU8]

theorem enc_u8_u8 (a b : Nat) : Spec.enc [(8, a), (8, b)] = wU8 a ++ wU8 b := by
  have := enc_append [(8, a)] [(8, b)] (by fw)
  simp only [List.cons_append, List.nil_append] at this
  rw [this, enc_u8, enc_u8]

theorem enc_u32 (v : Nat) : Spec.enc [(32, v)] = wU32 v := by
  rw [enc_eq_packFields _ (by fw)]
  simp [swapFields, packFields, fieldsWidth, fieldsValue, wU32]

theorem enc_u16 (v : Nat) : Spec.enc [(16, v)] = wU16 v := by
  rw [enc_eq_packFields _ (by fw)]
  simp [swapFields, packFields, fieldsWidth, fieldsValue, wU16]

/-- `enc (x :: rest) = enc [x] ++ enc rest` for a one-byte field -/
theorem enc_cons8 (v : Nat) (r : List (Nat × Nat)) : Spec.enc ((8, v) :: r) = wU8 v ++ Spec.enc r := by
  have := enc_append [(8, v)] r (by fw)
  simp only [List.cons_append, List.nil_append] at this
  rw [this, enc_u8]

/-! ### the frame: tag, length, body -/

/-- the reference encoder and the writer agree on a descriptor as soon as they agree on its body and the body has the
announced length (`C14.BodyFits`) -/
theorem spec_eq_writer_core (d : Descriptor) (hbody : Spec.descBodyEncode d = descriptorBody d) (hfit : C14.BodyFits d) :
    Spec.descEncode d = writeDescriptor d := by
  unfold C14.BodyFits at hfit
  unfold Spec.descEncode writeDescriptor
  simp only
  rw [enc_u8_u8, hbody, hfit]
  by_cases hz : calcDescriptorLength d = 0
  · have : descriptorBody d = [] := List.eq_nil_of_length_eq_zero (by omega)
    simp [hz, this]
  · simp [hz]

/-- evaluates the tag `switch` of `Spec.descBodyEncode` and of `descriptorBody` for a literal tag -/
macro "body_simp" : tactic =>
  `(tactic| simp [Spec.descBodyEncode, descriptorBody, Spec.optBody, nilBody, isUserDefinedTag, descriptorTagAC3, descriptorTagAVCVideo,
    descriptorTagComponent, descriptorTagContent,
    descriptorTagDataStreamAlignment, descriptorTagEnhancedAC3, descriptorTagExtendedEvent, descriptorTagExtension,
    descriptorTagISO639LanguageAndAudioType, descriptorTagLocalTimeOffset, descriptorTagMaximumBitrate,
    descriptorTagNetworkName, descriptorTagParentalRating, descriptorTagPrivateDataIndicator,
    descriptorTagPrivateDataSpecifier, descriptorTagRegistration, descriptorTagService, descriptorTagShortEvent,
    descriptorTagStreamIdentifier, descriptorTagSubtitling, descriptorTagTeletext, descriptorTagVBIData,
    descriptorTagVBITeletext])

/-! ### fixed-size kinds -/

theorem spec_eq_writer_stream_identifier (x : DescriptorStreamIdentifier) :
    Spec.descEncode (ofStreamIdentifier x) = writeDescriptor (ofStreamIdentifier x) := by
  refine spec_eq_writer_core _ ?_ (C14.body_fits_stream_identifier _ x rfl rfl)
  have : Spec.streamIdentifierBody x = writeDescriptorStreamIdentifier x := enc_u8 _
  simp only [ofStreamIdentifier]
  body_simp
  exact this

theorem spec_eq_writer_data_stream_alignment (x : DescriptorDataStreamAlignment) :
    Spec.descEncode (ofDataStreamAlignment x) = writeDescriptor (ofDataStreamAlignment x) := by
  refine spec_eq_writer_core _ ?_ (C14.body_fits_data_stream_alignment _ x rfl rfl)
  have : Spec.dataStreamAlignmentBody x = writeDescriptorDataStreamAlignment x := enc_u8 _
  simp only [ofDataStreamAlignment]
  body_simp
  exact this

theorem spec_eq_writer_private_data_indicator (x : DescriptorPrivateDataIndicator) :
    Spec.descEncode (ofPrivateDataIndicator x) = writeDescriptor (ofPrivateDataIndicator x) := by
  refine spec_eq_writer_core _ ?_ (C14.body_fits_private_data_indicator _ x rfl rfl)
  have : Spec.privateDataIndicatorBody x = writeDescriptorPrivateDataIndicator x := enc_u32 _
  simp only [ofPrivateDataIndicator]
  body_simp
  exact this

theorem spec_eq_writer_private_data_specifier (x : DescriptorPrivateDataSpecifier) :
    Spec.descEncode (ofPrivateDataSpecifier x) = writeDescriptor (ofPrivateDataSpecifier x) := by
  refine spec_eq_writer_core _ ?_ (C14.body_fits_private_data_specifier _ x rfl rfl)
  have : Spec.privateDataSpecifierBody x = writeDescriptorPrivateDataSpecifier x := enc_u32 _
  simp only [ofPrivateDataSpecifier]
  body_simp
  exact this

/-- the field list of `packFields` behind `Spec.enc`, for literal lists -/
theorem enc_pf (fs : List (Nat × Nat)) (h : fieldsWidth (swapFields fs) % 8 = 0) (gs : List (Nat × Nat))
    (hg : packFields (swapFields fs) = packFields gs) : Spec.enc fs = packFields gs := by
  rw [enc_eq_packFields fs h, hg]

theorem maximumBitrateBody_eq (x : DescriptorMaximumBitrate) : Spec.maximumBitrateBody x = writeDescriptorMaximumBitrate x := by
  unfold Spec.maximumBitrateBody writeDescriptorMaximumBitrate
  refine enc_pf _ (by fw) _ ?_
  simp [swapFields, Spec.ones, packFields, fieldsWidth, fieldsValue]

theorem spec_eq_writer_maximum_bitrate (x : DescriptorMaximumBitrate) :
    Spec.descEncode (ofMaximumBitrate x) = writeDescriptor (ofMaximumBitrate x) := by
  refine spec_eq_writer_core _ ?_ (C14.body_fits_maximum_bitrate _ x rfl rfl)
  simp only [ofMaximumBitrate]
  body_simp
  exact maximumBitrateBody_eq x

theorem avcVideoBody_eq (x : DescriptorAVCVideo) : Spec.avcVideoBody x = writeDescriptorAVCVideo x := by
  unfold Spec.avcVideoBody writeDescriptorAVCVideo
  rw [enc_cons8]
  have h1 := enc_append [Spec.bit x.constraintSet0Flag, Spec.bit x.constraintSet1Flag, Spec.bit x.constraintSet2Flag, (5, x.compatibleFlags)]
    [(8, x.levelIDC), Spec.bit x.avcStillPresent, Spec.bit x.avc24HourPictureFlag, Spec.ones 6] (by fw)
  simp only [List.cons_append, List.nil_append] at h1
  rw [h1, enc_cons8]
  have h2 : Spec.enc [Spec.bit x.constraintSet0Flag, Spec.bit x.constraintSet1Flag, Spec.bit x.constraintSet2Flag, (5, x.compatibleFlags)]
      = packFields [(b2n x.constraintSet0Flag, 1), (b2n x.constraintSet1Flag, 1), (b2n x.constraintSet2Flag, 1), (x.compatibleFlags, 5)] := by
    refine enc_pf _ (by fw) _ ?_
    cases x.constraintSet0Flag <;> cases x.constraintSet1Flag <;> cases x.constraintSet2Flag <;> rfl
  have h3 : Spec.enc [Spec.bit x.avcStillPresent, Spec.bit x.avc24HourPictureFlag, Spec.ones 6]
      = packFields [(b2n x.avcStillPresent, 1), (b2n x.avc24HourPictureFlag, 1), (0xff, 6)] := by
    refine enc_pf _ (by fw) _ ?_
    cases x.avcStillPresent <;> cases x.avc24HourPictureFlag <;> rfl
  rw [h2, h3]
  simp only [List.append_assoc]

theorem spec_eq_writer_avc_video (x : DescriptorAVCVideo) :
    Spec.descEncode (ofAVCVideo x) = writeDescriptor (ofAVCVideo x) := by
  refine spec_eq_writer_core _ ?_ (C14.body_fits_avc_video _ x rfl rfl)
  simp only [ofAVCVideo]
  body_simp
  exact avcVideoBody_eq x

theorem iso639Body_eq (x : DescriptorISO639LanguageAndAudioType) (wf : ISO639WF x) :
    Spec.iso639Body x = writeDescriptorISO639LanguageAndAudioType x := by
  unfold Spec.iso639Body writeDescriptorISO639LanguageAndAudioType
  rw [enc_u8, wBytesN_exact _ _ _ wf.language]

theorem spec_eq_writer_iso639_language_and_audio_type (x : DescriptorISO639LanguageAndAudioType) (wf : ISO639WF x) :
    Spec.descEncode (ofISO639 x) = writeDescriptor (ofISO639 x) := by
  refine spec_eq_writer_core _ ?_ (C14.body_fits_iso639_language_and_audio_type _ x rfl rfl)
  simp only [ofISO639]
  body_simp
  exact iso639Body_eq x wf

theorem spec_eq_writer_network_name (x : DescriptorNetworkName) (wf : NetworkNameWF x) :
    Spec.descEncode (ofNetworkName x) = writeDescriptor (ofNetworkName x) := by
  refine spec_eq_writer_core _ ?_ (C14.body_fits_network_name _ x rfl rfl wf.fits)
  simp only [ofNetworkName]
  body_simp
  rfl

theorem registrationBody_eq (x : DescriptorRegistration) : Spec.registrationBody x = writeDescriptorRegistration x := by
  unfold Spec.registrationBody writeDescriptorRegistration
  rw [enc_u32]

theorem spec_eq_writer_registration (x : DescriptorRegistration) (wf : RegistrationWF x) :
    Spec.descEncode (ofRegistration x) = writeDescriptor (ofRegistration x) := by
  refine spec_eq_writer_core _ ?_ (C14.body_fits_registration _ x rfl rfl wf.fits)
  simp only [ofRegistration]
  body_simp
  exact registrationBody_eq x

theorem serviceBody_eq (x : DescriptorService) : Spec.serviceBody x = writeDescriptorService x := by
  unfold Spec.serviceBody writeDescriptorService
  rw [enc_u8_u8, enc_u8]

theorem spec_eq_writer_service (x : DescriptorService) (wf : ServiceWF x) :
    Spec.descEncode (ofService x) = writeDescriptor (ofService x) := by
  refine spec_eq_writer_core _ ?_ (C14.body_fits_service _ x rfl rfl wf.fits)
  simp only [ofService]
  body_simp
  exact serviceBody_eq x

theorem shortEventBody_eq (x : DescriptorShortEvent) (wf : ShortEventWF x) : Spec.shortEventBody x = writeDescriptorShortEvent x := by
  unfold Spec.shortEventBody writeDescriptorShortEvent
  rw [enc_u8, enc_u8, wBytesN_exact _ _ _ wf.language]

theorem spec_eq_writer_short_event (x : DescriptorShortEvent) (wf : ShortEventWF x) :
    Spec.descEncode (ofShortEvent x) = writeDescriptor (ofShortEvent x) := by
  refine spec_eq_writer_core _ ?_ (C14.body_fits_short_event _ x rfl rfl wf.fits)
  simp only [ofShortEvent]
  body_simp
  exact shortEventBody_eq x wf

theorem nibbles_enc (hi lo : Nat) : Spec.enc [(4, hi), (4, lo)] = packFields [(hi, 4), (lo, 4)] :=
  enc_pf _ (by fw) _ rfl

theorem componentBody_eq (x : DescriptorComponent) (wf : ComponentWF x) : Spec.componentBody x = writeDescriptorComponent x := by
  unfold Spec.componentBody writeDescriptorComponent
  have h1 := enc_append [(4, x.streamContentExt), (4, x.streamContent)] [(8, x.componentType), (8, x.componentTag)] (by fw)
  simp only [List.cons_append, List.nil_append] at h1
  rw [h1, nibbles_enc, enc_u8_u8, wBytesN_exact _ _ _ wf.language]
  simp only [List.append_assoc]

theorem spec_eq_writer_component (x : DescriptorComponent) (wf : ComponentWF x) :
    Spec.descEncode (ofComponent x) = writeDescriptor (ofComponent x) := by
  refine spec_eq_writer_core _ ?_ (C14.body_fits_component _ x rfl rfl wf.fits)
  simp only [ofComponent]
  body_simp
  exact componentBody_eq x wf

/-! ### list kinds -/

theorem flatten_map_congr {α} (f g : α → Bytes) (l : List α) (h : ∀ a ∈ l, f a = g a) :
    (l.map f).flatten = (l.map g).flatten := by
  rw [List.map_congr_left h]

theorem contentBody_eq (x : DescriptorContent) : Spec.contentBody x = writeDescriptorContent x := by
  unfold Spec.contentBody writeDescriptorContent
  rw [contentItems_eq]
  apply flatten_map_congr
  intro a _
  unfold Spec.contentItem contentItemBytes
  have h1 := enc_append [(4, a.contentNibbleLevel1), (4, a.contentNibbleLevel2)] [(8, a.userByte)] (by fw)
  simp only [List.cons_append, List.nil_append] at h1
  rw [h1, nibbles_enc, enc_u8]

theorem spec_eq_writer_content (x : DescriptorContent) (wf : ContentWF x) :
    Spec.descEncode (ofContent x) = writeDescriptor (ofContent x) := by
  refine spec_eq_writer_core _ ?_ (C14.body_fits_content _ x rfl rfl wf.fits)
  simp only [ofContent]
  body_simp
  exact contentBody_eq x

theorem parentalRatingBody_eq (x : DescriptorParentalRating) (wf : ParentalRatingWF x) :
    Spec.parentalRatingBody x = writeDescriptorParentalRating x := by
  unfold Spec.parentalRatingBody writeDescriptorParentalRating
  rw [parentalRatingItems_eq]
  apply flatten_map_congr
  intro a ha
  unfold Spec.parentalRatingItem parentalRatingItemBytes
  rw [enc_u8, wBytesN_exact _ _ _ (wf.items a ha).countryCode]

theorem spec_eq_writer_parental_rating (x : DescriptorParentalRating) (wf : ParentalRatingWF x) :
    Spec.descEncode (ofParentalRating x) = writeDescriptor (ofParentalRating x) := by
  refine spec_eq_writer_core _ ?_ (C14.body_fits_parental_rating _ x rfl rfl wf.fits)
  simp only [ofParentalRating]
  body_simp
  exact parentalRatingBody_eq x wf

theorem subtitlingBody_eq (x : DescriptorSubtitling) (wf : SubtitlingWF x) :
    Spec.subtitlingBody x = writeDescriptorSubtitling x := by
  unfold Spec.subtitlingBody writeDescriptorSubtitling
  rw [subtitlingItems_eq]
  apply flatten_map_congr
  intro a ha
  unfold Spec.subtitlingItem subtitlingItemBytes
  rw [enc_cons8]
  have h1 := enc_append [(16, a.compositionPageID)] [(16, a.ancillaryPageID)] (by fw)
  simp only [List.cons_append, List.nil_append] at h1
  rw [h1, enc_u16, enc_u16, wBytesN_exact _ _ _ (wf.items a ha).language]
  simp only [List.append_assoc]

theorem spec_eq_writer_subtitling (x : DescriptorSubtitling) (wf : SubtitlingWF x) :
    Spec.descEncode (ofSubtitling x) = writeDescriptor (ofSubtitling x) := by
  refine spec_eq_writer_core _ ?_ (C14.body_fits_subtitling _ x rfl rfl wf.fits)
  simp only [ofSubtitling]
  body_simp
  exact subtitlingBody_eq x wf

theorem teletextBody_eq (x : DescriptorTeletext) (wf : TeletextWF x) :
    Spec.teletextBody x = writeDescriptorTeletext x := by
  unfold Spec.teletextBody writeDescriptorTeletext
  rw [teletextItems_eq]
  apply flatten_map_congr
  intro a ha
  unfold Spec.teletextItem teletextItemBytes
  rw [wBytesN_exact _ _ _ (wf.items a ha).language]
  congr 1
  exact enc_pf _ (by fw) _ rfl

theorem spec_eq_writer_teletext (x : DescriptorTeletext) (wf : TeletextWF x) :
    Spec.descEncode (ofTeletext x) = writeDescriptor (ofTeletext x) := by
  refine spec_eq_writer_core _ ?_ (C14.body_fits_teletext _ x rfl rfl wf.fits)
  simp only [ofTeletext]
  body_simp
  exact teletextBody_eq x wf

theorem spec_eq_writer_vbi_teletext (x : DescriptorTeletext) (wf : TeletextWF x) :
    Spec.descEncode (ofVBITeletext x) = writeDescriptor (ofVBITeletext x) := by
  refine spec_eq_writer_core _ ?_ (C14.body_fits_vbi_teletext _ x rfl rfl wf.fits)
  simp only [ofVBITeletext]
  body_simp
  exact teletextBody_eq x wf

/-! ### local time offset -/

/-- four BCD digits hh mm of the reference = the two bytes of `writeDVBDurationMinutes`, for 0 ≤ d < 160 h -/
theorem bcdHM_eq (ns : Int) (h : DurationMinutesOk ns) : Spec.enc (Spec.bcdHoursMinutes ns) = writeDVBDurationMinutes ns := by
  obtain ⟨h0, h1, _⟩ := h
  obtain ⟨n, hn⟩ : ∃ n : Nat, ns = (n : Int) := ⟨ns.toNat, by omega⟩
  subst hn
  unfold Spec.bcdHoursMinutes writeDVBDurationMinutes
  rw [enc_eq_packFields _ (by fw)]
  simp only [swapFields, List.map, packFields, fieldsWidth, fieldsValue, beBytes, dvbDurationByteRepresentation, Int.toNat_natCast]
  simp only [Nat.reducePow, Nat.pow_zero, Nat.div_one, Nat.pow_one]
  have e1 : ((n : Int) / 3600000000000).toNat = n / 3600000000000 := by omega
  have e2 : ((n : Int) / 60000000000 % 60).toNat = n / 60000000000 % 60 := by omega
  rw [e1, e2]
  have e3 : n / 3600000000000 = n / 60000000000 / 60 := by rw [Nat.div_div_eq_div_mul]
  have hq : n / 60000000000 < 9600 := by omega
  rw [e3]
  generalize n / 60000000000 = q at hq ⊢
  have hH : q / 60 < 160 := by omega
  have hM : q % 60 < 60 := by omega
  generalize q / 60 = H at hH ⊢
  generalize q % 60 = M at hM ⊢
  have a1 : H % 256 = H := by omega
  have hA : H / 10 < 16 := by omega
  have hB : H % 10 < 10 := by omega
  have hC : M / 10 < 6 := by omega
  have hD : M % 10 < 10 := by omega
  rw [a1]
  generalize H / 10 = A at hA ⊢
  generalize H % 10 = B at hB ⊢
  generalize M / 10 = C at hC ⊢
  generalize M % 10 = D at hD ⊢
  simp only [List.cons.injEq, and_true]
  constructor <;> omega

theorem utcTimeBytes_eq (t : Int) (h : DVBTimeOk t) : Spec.utcTimeBytes t = writeDVBTime t := by
  rw [← utcBytes_eq t h]
  unfold Spec.utcTimeBytes Spec.utcBytes
  rw [Int.fdiv_eq_ediv_of_nonneg _ (by decide), Int.fmod_eq_emod_of_nonneg _ (by decide)]

theorem localTimeOffsetBody_eq (x : DescriptorLocalTimeOffset) (wf : LocalTimeOffsetWF x) :
    Spec.localTimeOffsetBody x = writeDescriptorLocalTimeOffset x := by
  unfold Spec.localTimeOffsetBody writeDescriptorLocalTimeOffset
  rw [localTimeOffsetItems_eq]
  apply flatten_map_congr
  intro a ha
  have ok := wf.items a ha
  unfold Spec.localTimeOffsetItem localTimeOffsetItemBytes
  have h1 := enc_append [(6, a.countryRegionID), Spec.ones 1, Spec.bit a.localTimeOffsetPolarity] (Spec.bcdHoursMinutes a.localTimeOffset) (by fw)
  rw [h1, bcdHM_eq _ ok.localTimeOffset, bcdHM_eq _ ok.nextTimeOffset, utcTimeBytes_eq _ ok.timeOfChange,
    wBytesN_exact _ _ _ ok.countryCode]
  have h2 : Spec.enc [(6, a.countryRegionID), Spec.ones 1, Spec.bit a.localTimeOffsetPolarity]
      = packFields [(a.countryRegionID, 6), (0xff, 1), (b2n a.localTimeOffsetPolarity, 1)] := by
    refine enc_pf _ (by fw) _ ?_
    cases a.localTimeOffsetPolarity <;> simp [swapFields, Spec.ones, Spec.bit, packFields, fieldsWidth, fieldsValue, b2n]
  rw [h2]
  simp only [List.append_assoc]

theorem spec_eq_writer_local_time_offset (x : DescriptorLocalTimeOffset) (wf : LocalTimeOffsetWF x) :
    Spec.descEncode (ofLocalTimeOffset x) = writeDescriptor (ofLocalTimeOffset x) := by
  refine spec_eq_writer_core _ ?_ (C14.body_fits_local_time_offset _ x rfl rfl wf.fits)
  simp only [ofLocalTimeOffset]
  body_simp
  exact localTimeOffsetBody_eq x wf

/-! ### nested kinds -/

theorem wU8_mod (v : Nat) : wU8 (v % 256) = wU8 v := by simp [wU8]

theorem extendedEventItems_spec (l : List DescriptorExtendedEventItem) :
    (l.map Spec.extendedEventItem).flatten = writeDescriptorExtendedEventItems l := by
  rw [extendedEventItems_eq]
  apply flatten_map_congr
  intro a _
  unfold Spec.extendedEventItem extendedEventItemBytes
  rw [enc_u8, enc_u8]

theorem extendedEventBody_eq (x : DescriptorExtendedEvent) (wf : ExtendedEventWF x) :
    Spec.extendedEventBody x = writeDescriptorExtendedEvent x := by
  unfold Spec.extendedEventBody writeDescriptorExtendedEvent
  simp only
  rw [extendedEventItems_spec, DescLen.extendedEventItems_length, DescLen.extendedEvent_calc_items, wU8_mod,
    nibbles_enc, enc_u8, enc_u8, wBytesN_exact _ _ _ wf.language]

theorem spec_eq_writer_extended_event (x : DescriptorExtendedEvent) (wf : ExtendedEventWF x) :
    Spec.descEncode (ofExtendedEvent x) = writeDescriptor (ofExtendedEvent x) := by
  refine spec_eq_writer_core _ ?_ (C14.body_fits_extended_event _ x rfl rfl wf.fits)
  simp only [ofExtendedEvent]
  body_simp
  exact extendedEventBody_eq x wf

theorem vbiLines_spec (l : List DescriptorVBIDataDescriptor) :
    (l.map Spec.vbiLine).flatten = writeDescriptorVBIDataDescriptors l := by
  rw [vbiDescs_eq]
  apply flatten_map_congr
  intro a _
  unfold Spec.vbiLine vbiDescBytes
  refine enc_pf _ (by fw) _ ?_
  cases a.fieldParity <;> simp [swapFields, Spec.ones, Spec.bit, packFields, fieldsWidth, fieldsValue, b2n]

theorem vbiService_spec (s : DescriptorVBIDataService) : Spec.vbiService s = vbiServiceBytes s := by
  unfold Spec.vbiService vbiServiceBytes
  simp only
  rw [enc_cons8]
  by_cases hk : isKnownVBIDataServiceID s.dataServiceID = true
  · have hk' : s.dataServiceID = 1 ∨ s.dataServiceID = 2 ∨ s.dataServiceID = 4 ∨ s.dataServiceID = 5 ∨ s.dataServiceID = 6 ∨ s.dataServiceID = 7 := by
      simp [isKnownVBIDataServiceID] at hk; omega
    simp only [hk, hk', if_true]
    rw [vbiLines_spec, DescLen.vbiDataDescriptors_length, enc_u8, List.append_assoc]
  · have hk' : ¬ (s.dataServiceID = 1 ∨ s.dataServiceID = 2 ∨ s.dataServiceID = 4 ∨ s.dataServiceID = 5 ∨ s.dataServiceID = 6 ∨ s.dataServiceID = 7) := by
      simp [isKnownVBIDataServiceID] at hk; omega
    simp only [hk, hk', if_false]
    have e1 : Spec.enc [Spec.ones 8] = [0xff] := by decide
    rw [e1, enc_u8]
    rfl

theorem vbiDataBody_eq (x : DescriptorVBIData) : Spec.vbiDataBody x = writeDescriptorVBIData x := by
  unfold Spec.vbiDataBody writeDescriptorVBIData
  rw [vbiServices_eq]
  apply flatten_map_congr
  intro a _
  exact vbiService_spec a

theorem spec_eq_writer_vbi_data (x : DescriptorVBIData) (wf : VBIDataWF x) :
    Spec.descEncode (ofVBIData x) = writeDescriptor (ofVBIData x) := by
  refine spec_eq_writer_core _ ?_ (C14.body_fits_vbi_data _ x rfl rfl wf.fits)
  simp only [ofVBIData]
  body_simp
  exact vbiDataBody_eq x

/-! ### kinds with a flags byte -/

theorem swapFields_nil : swapFields [] = [] := rfl
theorem swapFields_cons (w v : Nat) (r : List (Nat × Nat)) : swapFields ((w, v) :: r) = (v, w) :: swapFields r := rfl
theorem swapFields_bit (b : Bool) (r : List (Nat × Nat)) : swapFields (Spec.bit b :: r) = (b2n b, 1) :: swapFields r := by
  cases b <;> rfl

theorem enc_opt_append (c : Bool) (v : Nat) (r : List (Nat × Nat)) :
    Spec.enc ((if c = true then [(8, v)] else []) ++ r) = (if c = true then wU8 v else []) ++ Spec.enc r := by
  cases c
  · simp
  · simp [enc_cons8]

theorem enc_opt (c : Bool) (v : Nat) : Spec.enc (if c = true then [(8, v)] else []) = (if c = true then wU8 v else []) := by
  cases c
  · simp [enc_nil]
  · simp [enc_u8]

theorem enhancedAC3Body_eq (x : DescriptorEnhancedAC3) : Spec.enhancedAC3Body x = writeDescriptorEnhancedAC3 x := by
  unfold Spec.enhancedAC3Body writeDescriptorEnhancedAC3
  simp only [List.append_assoc]
  rw [enc_append [Spec.bit x.hasComponentType, Spec.bit x.hasBSID, Spec.bit x.hasMainID, Spec.bit x.hasASVC, Spec.bit x.mixInfoExists,
        Spec.bit x.hasSubStream1, Spec.bit x.hasSubStream2, Spec.bit x.hasSubStream3] _ (by fw),
    enc_opt_append, enc_opt_append, enc_opt_append, enc_opt_append, enc_opt_append, enc_opt_append, enc_opt]
  have hflags : Spec.enc [Spec.bit x.hasComponentType, Spec.bit x.hasBSID, Spec.bit x.hasMainID, Spec.bit x.hasASVC, Spec.bit x.mixInfoExists,
        Spec.bit x.hasSubStream1, Spec.bit x.hasSubStream2, Spec.bit x.hasSubStream3]
      = packFields [(b2n x.hasComponentType, 1), (b2n x.hasBSID, 1), (b2n x.hasMainID, 1), (b2n x.hasASVC, 1),
          (b2n x.mixInfoExists, 1), (b2n x.hasSubStream1, 1), (b2n x.hasSubStream2, 1), (b2n x.hasSubStream3, 1)] := by
    refine enc_pf _ (by fw) _ ?_
    simp only [swapFields_bit, swapFields_nil]
  rw [hflags]
  simp only [List.append_assoc]

theorem spec_eq_writer_enhanced_ac3 (x : DescriptorEnhancedAC3) (wf : EnhancedAC3WF x) :
    Spec.descEncode (ofEnhancedAC3 x) = writeDescriptor (ofEnhancedAC3 x) := by
  refine spec_eq_writer_core _ ?_ (C14.body_fits_enhanced_ac3 _ x rfl rfl (by have := wf.fits; unfold DescLen.enhancedAC3Size at this; omega))
  simp only [ofEnhancedAC3]
  body_simp
  exact enhancedAC3Body_eq x

theorem supplementaryAudioBody_eq (s : DescriptorExtensionSupplementaryAudio) (wf : SupplementaryAudioWF s) :
    Spec.supplementaryAudioBody s = writeDescriptorExtensionSupplementaryAudio s := by
  unfold Spec.supplementaryAudioBody writeDescriptorExtensionSupplementaryAudio
  have h1 : Spec.enc [Spec.bit s.mixType, (5, s.editorialClassification), Spec.ones 1, Spec.bit s.hasLanguageCode]
      = packFields [(b2n s.mixType, 1), (s.editorialClassification, 5), (1, 1), (b2n s.hasLanguageCode, 1)] := by
    refine enc_pf _ (by fw) _ ?_
    simp only [swapFields_bit, swapFields_cons, swapFields_nil, Spec.ones]
  have h2 : (if s.hasLanguageCode = true then s.languageCode else []) = (if s.hasLanguageCode = true then wBytesN s.languageCode 3 0 else []) := by
    cases h : s.hasLanguageCode
    · simp
    · simp only [if_true]; exact (wBytesN_exact _ _ _ (wf.language h)).symm
  rw [h1, h2]

theorem extensionBody_eq (x : DescriptorExtension) (wf : ExtensionWF x) : Spec.extensionBody x = writeDescriptorExtension x := by
  cases wf with
  | supplementaryAudio s wf fits =>
    unfold Spec.extensionBody writeDescriptorExtension
    simp only [descriptorTagExtensionSupplementaryAudio, if_true]
    rw [enc_u8, supplementaryAudioBody_eq s wf]
  | unknown tag b ht h256 fits =>
    unfold Spec.extensionBody writeDescriptorExtension
    have ht' : ¬ (tag = 6) := ht
    simp only [descriptorTagExtensionSupplementaryAudio, ht', if_false, Option.getD_some]
    rw [enc_u8]

theorem spec_eq_writer_extension (x : DescriptorExtension) (wf : ExtensionWF x) :
    Spec.descEncode (ofExtension x) = writeDescriptor (ofExtension x) := by
  refine spec_eq_writer_core _ ?_ (C14.body_fits_extension _ x rfl rfl (extension_fits x wf).1)
  simp only [ofExtension]
  body_simp
  exact extensionBody_eq x wf

/-! ### unknown tags and user-defined descriptors -/

theorem spec_eq_writer_unknown (x : DescriptorUnknown) (wf : UnknownWF x) :
    Spec.descEncode (ofUnknown x) = writeDescriptor (ofUnknown x) := by
  have hk := wf.notKnown
  have hu := wf.notUser
  refine spec_eq_writer_core _ ?_ (C14.body_fits_unknown _ x hu hk rfl wf.fits)
  simp only [knownDescriptorTags, List.mem_cons, List.not_mem_nil, or_false, not_or] at hk
  obtain ⟨h1, h2, h3, h4, h5, h6, h7, h8, h9, h10, h11, h12, h13, h14, h15, h16, h17, h18, h19, h20, h21, h22, h23⟩ := hk
  have hu' : ¬ (0x80 ≤ x.tag ∧ x.tag ≤ 0xfe) := by simp [isUserDefinedTag] at hu; omega
  simp only [descriptorTagAC3, descriptorTagAVCVideo, descriptorTagComponent, descriptorTagContent,
    descriptorTagDataStreamAlignment, descriptorTagEnhancedAC3, descriptorTagExtendedEvent, descriptorTagExtension,
    descriptorTagISO639LanguageAndAudioType, descriptorTagLocalTimeOffset, descriptorTagMaximumBitrate,
    descriptorTagNetworkName, descriptorTagParentalRating, descriptorTagPrivateDataIndicator,
    descriptorTagPrivateDataSpecifier, descriptorTagRegistration, descriptorTagService, descriptorTagShortEvent,
    descriptorTagStreamIdentifier, descriptorTagSubtitling, descriptorTagTeletext, descriptorTagVBIData,
    descriptorTagVBITeletext] at h1 h2 h3 h4 h5 h6 h7 h8 h9 h10 h11 h12 h13 h14 h15 h16 h17 h18 h19 h20 h21 h22 h23
  simp [Spec.descBodyEncode, descriptorBody, Spec.optBody, nilBody, ofUnknown, descriptorTagAC3, descriptorTagAVCVideo,
    descriptorTagComponent, descriptorTagContent,
    descriptorTagDataStreamAlignment, descriptorTagEnhancedAC3, descriptorTagExtendedEvent, descriptorTagExtension,
    descriptorTagISO639LanguageAndAudioType, descriptorTagLocalTimeOffset, descriptorTagMaximumBitrate,
    descriptorTagNetworkName, descriptorTagParentalRating, descriptorTagPrivateDataIndicator,
    descriptorTagPrivateDataSpecifier, descriptorTagRegistration, descriptorTagService, descriptorTagShortEvent,
    descriptorTagStreamIdentifier, descriptorTagSubtitling, descriptorTagTeletext, descriptorTagVBIData,
    descriptorTagVBITeletext, writeDescriptorUnknown, *]

theorem spec_eq_writer_user_defined (tag : Nat) (u : Bytes) (ht : isUserDefinedTag tag = true) (hu : u.length < 256) :
    Spec.descEncode (PSIRT.userDescriptor tag u) = writeDescriptor (PSIRT.userDescriptor tag u) := by
  refine spec_eq_writer_core _ ?_ (C14.body_fits_user_defined _ ht hu)
  have ht' : 0x80 ≤ tag ∧ tag ≤ 0xfe := by simp [isUserDefinedTag] at ht; omega
  simp [Spec.descBodyEncode, descriptorBody, PSIRT.userDescriptor, ht, ht', writeDescriptorUserDefined]

/-! ### AC-3: the one kind where reference and library differ (reserved_flags 0000 vs 1111) -/

theorem seek_at (pre : Bytes) (e : Int) (he : e = (pre.length : Int)) : ParsesAt pre (It.seek e) [] () := by
  intro post
  subst he
  simp [It.seek]

/-- `parseDescriptor` on any bytes of the shape tag, length, body, given the `switch` on the body -/
theorem frame_bytes (d' : Descriptor) (tag : Nat) (body : Bytes) (hu : isUserDefinedTag tag = false)
    (hpos : 0 < body.length)
    (hsw : ∀ pre : Bytes, ParsesAt pre
      (parseDescriptorSwitch { length := body.length, tag := tag } ((pre.length : Int) + (body.length : Int))) body d')
    (pre : Bytes) : ParsesAt pre parseDescriptor ([tag, body.length] ++ body) d' := by
  unfold parseDescriptor
  refine ParsesAt.bind (nextBytes_at pre [tag, body.length] 2 rfl) ?_
  simp only [List.getD_cons_zero, List.getD_cons_succ]
  have hp : body.length > 0 := hpos
  simp only [hp, if_true, hu, Bool.false_eq_true, if_false]
  refine ParsesAt.bind_first (offset_at _) ?_
  refine ParsesAt.bind_last (hsw _) ?_
  refine ParsesAt.bind_first (seek_at _ _ ?_) (ParsesAt.pure _ _)
  simp only [List.length_append, Int.natCast_add]

/-- the flags byte of the reference: four flags, reserved_flags = 0000 -/
def ac3ByteS (x : DescriptorAC3) : Nat :=
  (((b2n x.hasComponentType * 2 + b2n x.hasBSID) * 2 + b2n x.hasMainID) * 2 + b2n x.hasASVC) * 16

/-- what follows the flags byte: the same bytes in the reference and in the library -/
def ac3Tail (x : DescriptorAC3) : Bytes :=
  (if x.hasComponentType = true then wU8 x.componentType else []) ++ ((if x.hasBSID = true then wU8 x.bsid else [])
    ++ ((if x.hasMainID = true then wU8 x.mainID else []) ++ ((if x.hasASVC = true then wU8 x.asvc else []) ++ x.additionalInfo)))

theorem ac3Body_spec (x : DescriptorAC3) : Spec.ac3Body x = [ac3ByteS x] ++ ac3Tail x := by
  unfold Spec.ac3Body ac3Tail
  simp only [List.append_assoc]
  rw [enc_append [Spec.bit x.hasComponentType, Spec.bit x.hasBSID, Spec.bit x.hasMainID, Spec.bit x.hasASVC, (4, 0)] _ (by fw),
    enc_opt_append, enc_opt_append, enc_opt_append, enc_opt]
  have hflags : Spec.enc [Spec.bit x.hasComponentType, Spec.bit x.hasBSID, Spec.bit x.hasMainID, Spec.bit x.hasASVC, (4, 0)]
      = [ac3ByteS x] := by
    rw [enc_eq_packFields _ (by fw)]
    simp only [swapFields_bit, swapFields_cons, swapFields_nil]
    have h1 := b2n_le x.hasComponentType
    have h2 := b2n_le x.hasBSID
    have h3 := b2n_le x.hasMainID
    have h4 := b2n_le x.hasASVC
    simp only [packFields, fieldsWidth, fieldsValue, beBytes, Nat.reducePow, ac3ByteS]
    congr 1; omega
  rw [hflags]
  simp only [List.append_assoc]

theorem ac3Body_writer (x : DescriptorAC3) : writeDescriptorAC3 x = [ac3Byte x] ++ ac3Tail x := by
  unfold writeDescriptorAC3 ac3Tail
  rw [ac3_bytes]
  simp only [List.append_assoc]

theorem ac3Body_spec_length (x : DescriptorAC3) : (Spec.ac3Body x).length = DescLen.ac3Size x := by
  rw [← DescLen.ac3_length, ac3Body_spec, ac3Body_writer]; simp

theorem ac3S_decode (x : DescriptorAC3) :
    (ac3ByteS x / 128 % 2 = 1) = (x.hasComponentType = true) ∧ (ac3ByteS x / 64 % 2 = 1) = (x.hasBSID = true) ∧
    (ac3ByteS x / 32 % 2 = 1) = (x.hasMainID = true) ∧ (ac3ByteS x / 16 % 2 = 1) = (x.hasASVC = true) := by
  have h1 := b2n_le x.hasComponentType
  have h2 := b2n_le x.hasBSID
  have h3 := b2n_le x.hasMainID
  have h4 := b2n_le x.hasASVC
  rw [← b2n_eq_one, ← b2n_eq_one, ← b2n_eq_one, ← b2n_eq_one]
  unfold ac3ByteS
  refine ⟨?_, ?_, ?_, ?_⟩ <;> (apply congrArg (· = 1); omega)

/-- the AC-3 body parser on the REFERENCE bytes: the reserved bits are not looked at -/
theorem ac3_body_spec (x : DescriptorAC3) (wf : AC3WF x) (pre : Bytes) :
    ParsesAt pre (newDescriptorAC3 ((pre.length : Int) + ((Spec.ac3Body x).length : Nat))) (Spec.ac3Body x) x := by
  unfold newDescriptorAC3
  rw [ac3Body_spec]
  unfold ac3Tail
  obtain ⟨d1, d2, d3, d4⟩ := ac3S_decode x
  refine ParsesAt.bind (nextByte_at _ _) ?_
  simp only [d1, d2, d3, d4, Bool.decide_eq_true]
  refine ParsesAt.bind (optByte_at _ _ _ wf.componentType) ?_
  refine ParsesAt.bind (optByte_at _ _ _ wf.bsid) ?_
  refine ParsesAt.bind (optByte_at _ _ _ wf.mainID) ?_
  refine ParsesAt.bind (optByte_at _ _ _ wf.asvc) ?_
  refine ParsesAt.bind_last (restIfAny_at _ _ _ ?_) (ParsesAt.pure _ _)
  simp only [List.length_append, List.length_cons, List.length_nil, Int.natCast_add]
  omega

theorem descEncode_ac3 (x : DescriptorAC3) (wf : AC3WF x) :
    Spec.descEncode (ofAC3 x) = [0x6a, (Spec.ac3Body x).length] ++ Spec.ac3Body x := by
  have hb : Spec.descBodyEncode (ofAC3 x) = Spec.ac3Body x := by
    simp only [ofAC3]
    body_simp
  have hl := ac3Body_spec_length x
  have hf := wf.fits
  unfold Spec.descEncode
  simp only
  rw [hb, enc_u8_u8]
  simp [wU8, ofAC3, descriptorTagAC3, hl, Nat.mod_eq_of_lt hf]

/-- **AC-3**: the reference bytes (reserved_flags = 0000) are parsed back to the descriptor -/
theorem specDescOk_ac3 (x : DescriptorAC3) (wf : AC3WF x) : SpecDescOk (ofAC3 x) := by
  have hl := ac3Body_spec_length x
  have hf := wf.fits
  have hp : 0 < DescLen.ac3Size x := by unfold DescLen.ac3Size; omega
  have hcalc : calcDescriptorAC3Length x = (Spec.ac3Body x).length := by
    rw [hl, DescLen.ac3_calc]; omega
  apply ParsesAt.to_at
  intro pre
  rw [descEncode_ac3 x wf]
  refine frame_bytes _ 0x6a (Spec.ac3Body x) (by decide) (by omega) ?_ pre
  intro pre
  have hb := ac3_body_spec x wf pre
  switch_simp
  refine ParsesAt.congr_val (ParsesAt.bind_last hb (ParsesAt.pure _ _)) ?_
  simp only [ofAC3, descriptorTagAC3, hcalc]

/-- the recorded finding, as a theorem: in the flags byte of EVERY well-formed AC-3 descriptor the reference writes
reserved_flags = 0000 (EN 300 468 D.3) and the library writes 1111; everything else is byte for byte the same -/
theorem ac3_reserved_flags (x : DescriptorAC3) (wf : AC3WF x) :
    (Spec.descEncode (ofAC3 x)).getD 2 0 % 16 = 0 ∧ (writeDescriptor (ofAC3 x)).getD 2 0 % 16 = 15 ∧
    (Spec.descEncode (ofAC3 x)).take 2 = (writeDescriptor (ofAC3 x)).take 2 ∧
    (Spec.descEncode (ofAC3 x)).getD 2 0 / 16 = (writeDescriptor (ofAC3 x)).getD 2 0 / 16 ∧
    (Spec.descEncode (ofAC3 x)).drop 3 = (writeDescriptor (ofAC3 x)).drop 3 := by
  have hl := ac3Body_spec_length x
  have hf := wf.fits
  have hp : 0 < DescLen.ac3Size x := by unfold DescLen.ac3Size; omega
  have hw : writeDescriptor (ofAC3 x) = [0x6a, DescLen.ac3Size x] ++ writeDescriptorAC3 x := by
    have hc : calcDescriptorLength (ofAC3 x) = DescLen.ac3Size x := by
      have : calcDescriptorLength (ofAC3 x) = calcDescriptorAC3Length x := by
        simp [calcDescriptorLength, ofAC3, nilOr, isUserDefinedTag, descriptorTagAC3]
      rw [this, DescLen.ac3_calc]; omega
    have hb : descriptorBody (ofAC3 x) = writeDescriptorAC3 x := by
      simp [descriptorBody, ofAC3, nilBody, isUserDefinedTag, descriptorTagAC3]
    unfold writeDescriptor
    simp only [hc, hb]
    have : ¬ (DescLen.ac3Size x = 0) := by omega
    simp [this, wU8, ofAC3, descriptorTagAC3, Nat.mod_eq_of_lt hf]
  rw [descEncode_ac3 x wf, hw, hl, ac3Body_spec, ac3Body_writer]
  have h1 := b2n_le x.hasComponentType
  have h2 := b2n_le x.hasBSID
  have h3 := b2n_le x.hasMainID
  have h4 := b2n_le x.hasASVC
  simp only [List.cons_append, List.nil_append, List.getD_cons_zero, List.getD_cons_succ, List.take, List.drop, ac3ByteS, ac3Byte]
  refine ⟨by omega, by omega, trivial, by omega, trivial⟩

/-! ### summary -/

/-- **model writer = independent reference encoder** for every well-formed typed descriptor that is not AC-3 -/
theorem spec_eq_writer_typed (d : Descriptor) (h : C14.TypedWF d) (hac3 : d.tag ≠ descriptorTagAC3) :
    Spec.descEncode d = writeDescriptor d := by
  cases h with
  | ac3 x wf => exact absurd rfl hac3
  | avc_video x wf => exact spec_eq_writer_avc_video x
  | component x wf => exact spec_eq_writer_component x wf
  | content x wf => exact spec_eq_writer_content x wf
  | data_stream_alignment x wf => exact spec_eq_writer_data_stream_alignment x
  | enhanced_ac3 x wf => exact spec_eq_writer_enhanced_ac3 x wf
  | extended_event x wf => exact spec_eq_writer_extended_event x wf
  | extension x wf => exact spec_eq_writer_extension x wf
  | iso639_language_and_audio_type x wf => exact spec_eq_writer_iso639_language_and_audio_type x wf
  | local_time_offset x wf => exact spec_eq_writer_local_time_offset x wf
  | maximum_bitrate x wf => exact spec_eq_writer_maximum_bitrate x
  | network_name x wf => exact spec_eq_writer_network_name x wf
  | parental_rating x wf => exact spec_eq_writer_parental_rating x wf
  | private_data_indicator x wf => exact spec_eq_writer_private_data_indicator x
  | private_data_specifier x wf => exact spec_eq_writer_private_data_specifier x
  | registration x wf => exact spec_eq_writer_registration x wf
  | service x wf => exact spec_eq_writer_service x wf
  | short_event x wf => exact spec_eq_writer_short_event x wf
  | stream_identifier x wf => exact spec_eq_writer_stream_identifier x
  | subtitling x wf => exact spec_eq_writer_subtitling x wf
  | teletext x wf => exact spec_eq_writer_teletext x wf
  | vbi_data x wf => exact spec_eq_writer_vbi_data x wf
  | vbi_teletext x wf => exact spec_eq_writer_vbi_teletext x wf
  | unknown x wf => exact spec_eq_writer_unknown x wf

theorem specDescOk_of_eq (d : Descriptor) (he : Spec.descEncode d = writeDescriptor d) (rt : PSIRT.DescRT d) : SpecDescOk d := by
  unfold SpecDescOk EncRT
  rw [he]
  exact rt

/-- `SpecDescOk` for every well-formed typed descriptor: by the equality above, and directly for AC-3 -/
theorem specDescOk_typed (d : Descriptor) (h : C14.TypedWF d) : SpecDescOk d := by
  by_cases hac3 : d.tag = descriptorTagAC3
  · cases h with
    | ac3 x wf => exact specDescOk_ac3 x wf
    | unknown x wf =>
      have hk := wf.notKnown
      simp only [knownDescriptorTags, List.mem_cons, not_or] at hk
      exact absurd hac3 hk.1
    | _ => exact absurd hac3 (by intro h; cases h)
  · exact specDescOk_of_eq d (spec_eq_writer_typed d h hac3) (C14.desc_rt_typed d h)

/-- **T5**: every well-formed descriptor (typed or user-defined) satisfies the hypothesis about the reference bytes -/
theorem specDescOk_wf (d : Descriptor) (h : C14.DescWF d) : SpecDescOk d := by
  cases h with
  | typed _ h => exact specDescOk_typed d h
  | user tag u ht hu =>
    exact specDescOk_of_eq _ (spec_eq_writer_user_defined tag u ht hu) (PSIRT.userDescriptor_ok tag u ht hu).rt

end Astits.SIRT
