/-
C13 helper (SI tables) — machinery shared by the TOT / SDT / NIT / EIT theorems: the two position calculi
(`PSIRT.It.At`, `PacketRT.ParsesAt`) are interchangeable; `loopUntil` in `ParsesAt` form; descriptor loops for an
arbitrary per-descriptor encoder `enc` (the model writer `writeDescriptor` or the reference `Spec.descEncode`);
one section with CRC_32 (with or without syntax header); the section loop of `parsePSIData` over a whole PSI unit:
pointer_field, filler, sections, trailing 0xFF stuffing.
-/
import Astits.Proofs.SIRT.Enc
import Astits.Proofs.DescRT.Core
import Astits.Spec.PSI
import Astits.Spec.Desc
namespace Astits.SIRT
open Astits Astits.PacketRT Astits.DescRT

/-- widths of a literal field list add up to whole bytes -/
macro "fw" : tactic => `(tactic| simp [swapFields, fieldsWidth, Spec.bit, Spec.ones])

/-! ### the two calculi -/

theorem ParsesAt.of_at {α} {p : P α} {xs : Bytes} {a : α}
    (h : ∀ (bs : Bytes) (off : Int) (r : Bytes), PSIRT.It.At ⟨bs, off⟩ (xs ++ r) →
      p ⟨bs, off⟩ = .ok (a, ⟨bs, off + ((xs.length : Nat) : Int)⟩)) (pre : Bytes) : ParsesAt pre p xs a := by
  intro post
  exact h _ _ post ⟨pre, rfl, rfl⟩

theorem ParsesAt.to_at {α} {p : P α} {xs : Bytes} {a : α} (h : ∀ pre, ParsesAt pre p xs a)
    (bs : Bytes) (off : Int) (r : Bytes) (hat : PSIRT.It.At ⟨bs, off⟩ (xs ++ r)) :
    p ⟨bs, off⟩ = .ok (a, ⟨bs, off + ((xs.length : Nat) : Int)⟩) := by
  obtain ⟨pre, hb, ho⟩ := hat
  simp only at hb ho
  subst hb ho
  exact h pre r

/-- the same for a parser that is given an absolute offset computed from its start -/
theorem ParsesAt.to_at_off {α} {p : Int → P α} {xs : Bytes} {a : α} (h : ∀ pre : Bytes, ParsesAt pre (p (pre.length : Int)) xs a)
    (bs : Bytes) (off : Int) (r : Bytes) (hat : PSIRT.It.At ⟨bs, off⟩ (xs ++ r)) :
    p off ⟨bs, off⟩ = .ok (a, ⟨bs, off + ((xs.length : Nat) : Int)⟩) := by
  obtain ⟨pre, hb, ho⟩ := hat
  simp only at hb ho
  subst hb ho
  exact h pre r

/-- `b ← NextByte(); Skip(-1)`: peek at the next byte -/
theorem peek_bind {β} (pre : Bytes) (c : Nat) (xs : Bytes) (k : Nat → P β) (b : β)
    (h : ParsesAt pre (k c) (c :: xs) b) :
    ParsesAt pre (It.nextByte >>= fun c => It.skip (-1) >>= fun _ => k c) (c :: xs) b := by
  intro post
  have e1 := nextByte_at pre c (xs ++ post)
  simp only [List.cons_append, List.nil_append, List.length_cons, List.length_nil] at e1
  rw [P.bind_run]
  simp only [List.cons_append]
  rw [e1]
  simp only [P.bind_run, It.skip]
  have e3 : (pre.length : Int) + ((0 + 1 : Nat) : Int) + -1 = pre.length := by omega
  rw [e3]
  exact h post

/-- `Skip(n)` over `n` bytes -/
theorem skip_at (pre xs : Bytes) (n : Int) (hn : n = xs.length) : ParsesAt pre (It.skip n) xs () := by
  intro post
  subst hn
  rfl

/-! ### `loopUntil` -/

theorem loopUntil_nil {α} (body : P α) (pre : Bytes) (e : Int) (f : Nat) (h : ¬ ((pre.length : Int) < e)) :
    ParsesAt pre (loopUntil (f + 1) e body) [] [] := by
  rw [loopUntil]
  refine ParsesAt.bind_first (offset_at pre) ?_
  simp only [h, if_false]
  exact ParsesAt.pure _ _

theorem loopUntil_step {α} (body : P α) (pre : Bytes) (e : Int) (f : Nat) (a : α) (xs : Bytes) (rest : List α) (rb : Bytes)
    (hlt : (pre.length : Int) < e) (ha : ParsesAt pre body xs a) (h : ParsesAt (pre ++ xs) (loopUntil f e body) rb rest) :
    ParsesAt pre (loopUntil (f + 1) e body) (xs ++ rb) (a :: rest) := by
  rw [loopUntil]
  refine ParsesAt.bind_first (offset_at pre) ?_
  simp only [hlt, if_true]
  refine ParsesAt.bind ha ?_
  exact ParsesAt.bind_last h (ParsesAt.pure _ _)

theorem loopUntil_at {α} (body : P α) (enc : α → Bytes) (ok : α → Prop)
    (hbody : ∀ a, ok a → ∀ pre, ParsesAt pre body (enc a) a) (hpos : ∀ a, ok a → 0 < (enc a).length)
    (as : List α) (pre : Bytes) (e : Int) (fuel : Nat) (hok : ∀ a ∈ as, ok a) (hf : as.length < fuel)
    (he : e = (pre.length : Int) + (((as.map enc).flatten.length : Nat) : Int)) :
    ParsesAt pre (loopUntil fuel e body) (as.map enc).flatten as :=
  loop_at (fun e f => loopUntil f e body) enc ok (fun pre e f h => loopUntil_nil body pre e f h)
    (fun pre e f a rest rb oka hlt h => loopUntil_step body pre e f a (enc a) rest rb hlt (hbody a oka pre) h)
    hpos as pre e fuel hok hf he

/-- `fuel ← fuelOf; xs ← loopUntil fuel e body; k xs` -/
theorem fueled_loopUntil_bind {α β} (body : P α) (enc : α → Bytes) (ok : α → Prop)
    (hbody : ∀ a, ok a → ∀ pre, ParsesAt pre body (enc a) a) (hpos : ∀ a, ok a → 0 < (enc a).length)
    (as : List α) (pre : Bytes) (e : Int) (hok : ∀ a ∈ as, ok a)
    (he : e = (pre.length : Int) + (((as.map enc).flatten.length : Nat) : Int))
    (k : List α → P β) (ys : Bytes) (b : β) (hk : ParsesAt (pre ++ (as.map enc).flatten) (k as) ys b) :
    ParsesAt pre (fuelOf >>= fun fuel => loopUntil fuel e body >>= k) ((as.map enc).flatten ++ ys) b :=
  fueled_loop_bind (fun e f => loopUntil f e body) enc ok (fun pre e f h => loopUntil_nil body pre e f h)
    (fun pre e f a rest rb oka hlt h => loopUntil_step body pre e f a (enc a) rest rb hlt (hbody a oka pre) h)
    hpos as pre e hok he k ys b hk

/-! ### descriptor loops for an arbitrary per-descriptor encoder -/

/-- round trip for one descriptor through the encoder `enc`: wherever `enc d` stands, `parseDescriptor` returns `d`
and stops right after it.  `PSIRT.DescRT d` is `EncRT writeDescriptor d` -/
def EncRT (enc : Descriptor → Bytes) (d : Descriptor) : Prop :=
  ∀ (bs : Bytes) (off : Int) (r : Bytes), PSIRT.It.At ⟨bs, off⟩ (enc d ++ r) →
    parseDescriptor ⟨bs, off⟩ = .ok (d, ⟨bs, off + (((enc d).length : Nat) : Int)⟩)

theorem descRT_eq_encRT (d : Descriptor) : PSIRT.DescRT d = EncRT writeDescriptor d := rfl

/-- the per-descriptor hypothesis about the REFERENCE encoder's bytes -/
def SpecDescOk (d : Descriptor) : Prop := EncRT Spec.descEncode d

theorem EncRT.at {enc : Descriptor → Bytes} {d : Descriptor} (h : EncRT enc d) (pre : Bytes) :
    ParsesAt pre parseDescriptor (enc d) d := ParsesAt.of_at h pre

/-- an encoder never emits an empty descriptor (tag and length are always there) -/
def EncPos (enc : Descriptor → Bytes) : Prop := ∀ d, 0 < (enc d).length

theorem encPos_writer : EncPos writeDescriptor := by
  intro d; simp [writeDescriptor, wU8]

theorem encPos_spec : EncPos Spec.descEncode := by
  intro d
  unfold Spec.descEncode
  simp only [List.length_append]
  rw [enc_length _ (by fw)]
  simp only [swapFields, List.map, fieldsWidth]
  omega

/-- the descriptors of a loop, one after the other -/
def descsE (enc : Descriptor → Bytes) (ds : List Descriptor) : Bytes := (ds.map enc).flatten

theorem descsE_writer (ds : List Descriptor) : descsE writeDescriptor ds = writeDescriptors ds :=
  (PSIRT.writeDescriptors_eq ds).symm

/-- `parseDescriptors` in front of a 12-bit length (whatever the four bits above it) and the encoded descriptors -/
theorem parseDescriptors_enc (enc : Descriptor → Bytes) (hpos : EncPos enc) (ds : List Descriptor)
    (h : ∀ d ∈ ds, EncRT enc d) (x y : Nat) (hxy : (x % 16) * 256 + y = (descsE enc ds).length) (pre : Bytes) :
    ParsesAt pre parseDescriptors (x :: y :: descsE enc ds) ds := by
  unfold parseDescriptors
  have hs : x :: y :: descsE enc ds = [x, y] ++ descsE enc ds := rfl
  rw [hs]
  refine ParsesAt.bind (nextBytes_at pre [x, y] 2 rfl) ?_
  simp only [List.getD_cons_zero, List.getD_cons_succ, hxy]
  by_cases hz : (descsE enc ds).length > 0
  · simp only [hz, if_true]
    refine ParsesAt.bind_first (offset_at _) ?_
    apply fuel_at
    intro fuel hf
    rw [PSIRT.parseDescriptorsLoop_eq]
    have hle := PSIRT.length_le_flatten enc ds (fun d _ => hpos d)
    exact loopUntil_at parseDescriptor enc (EncRT enc) (fun d hd pre => hd.at pre) (fun d _ => hpos d) ds _ _ fuel h
      (by unfold descsE at hf; omega) rfl
  · have hz0 : (descsE enc ds).length = 0 := by omega
    have hnil : ds = [] := by
      cases ds with
      | nil => rfl
      | cons d r =>
        have := hpos d
        simp only [descsE, List.map_cons, List.flatten_cons, List.length_append] at hz0
        omega
    subst hnil
    simp only [descsE, List.map_nil, List.flatten_nil, List.length_nil, gt_iff_lt, Nat.lt_irrefl, if_false]
    exact ParsesAt.pure _ _

/-- two bytes of a 4-bit field and a 12-bit length -/
theorem nibble_len_bytes (hi len : Nat) (hh : hi < 16) (hl : len < 4096) :
    Spec.enc [(4, hi), (12, len)] = [hi * 16 + len / 256, len % 256] := by
  rw [enc_eq_packFields _ (by fw)]
  simp only [swapFields, List.map, packFields, fieldsWidth, fieldsValue, beBytes]
  simp only [Nat.reducePow, Nat.pow_zero, Nat.div_one, Nat.pow_one]
  simp only [List.cons.injEq, and_true]
  constructor <;> omega

/-- reserved(4) length(12) descriptors, for the encoder `enc` -/
def descLoopE (enc : Descriptor → Bytes) (ds : List Descriptor) : Bytes :=
  Spec.enc [(4, 15), (12, (descsE enc ds).length)] ++ descsE enc ds

theorem descLoopE_writer (ds : List Descriptor) : descLoopE writeDescriptor ds = Spec.descLoop ds := by
  unfold descLoopE Spec.descLoop
  rw [descsE_writer]

theorem descLoopE_spec (ds : List Descriptor) : descLoopE Spec.descEncode ds = Spec.descLoopEncode ds := rfl

theorem descLoopE_length (enc : Descriptor → Bytes) (ds : List Descriptor) :
    (descLoopE enc ds).length = 2 + (descsE enc ds).length := by
  unfold descLoopE
  rw [List.length_append, enc_length _ (by fw)]
  simp [swapFields, fieldsWidth]

theorem descLoopE_at (enc : Descriptor → Bytes) (hpos : EncPos enc) (ds : List Descriptor)
    (h : ∀ d ∈ ds, EncRT enc d) (hfit : (descsE enc ds).length < 4096) (pre : Bytes) :
    ParsesAt pre parseDescriptors (descLoopE enc ds) ds := by
  unfold descLoopE
  rw [nibble_len_bytes 15 _ (by decide) hfit]
  exact parseDescriptors_enc enc hpos ds h _ _ (by omega) pre

/-! ### one section with CRC_32 -/

/-- a section with CRC_32, with (`sh = some _`, `shb` its five bytes) or without (`sh = none`, `shb = []`) syntax
header: the three header bytes, `shb`, the table body, the checksum of everything before it -/
theorem parsePSISection_crc (bs : Bytes) (off : Int) (t x y : Nat) (sh : Option PSISectionSyntaxHeader) (shb body post : Bytes)
    (d : PSISectionSyntaxData) (j : It)
    (hat : PSIRT.It.At ⟨bs, off⟩ (([t, x, y] ++ shb ++ body) ++ be32 (computeCRC32 ([t, x, y] ++ shb ++ body)) ++ post))
    (hstop : shouldStopPSIParsing t = false) (hcrc : hasCRC32 t = true)
    (hsl : (x % 16) * 256 + y = shb.length + body.length + 4)
    (hsh : optP (hasPSISyntaxHeader t) parsePSISectionSyntaxHeader ⟨bs, off + 3⟩ = .ok (sh, ⟨bs, off + 3 + (shb.length : Nat)⟩))
    (hdata : parsePSISectionSyntaxData t sh (off + 3 + ((x % 16) * 256 + y : Nat) - 4) ⟨bs, off + 3 + (shb.length : Nat)⟩ = .ok (d, j))
    (hj : j.bs = bs) :
    parsePSISection ⟨bs, off⟩ =
      .ok ((({ crc32 := (computeCRC32 ([t, x, y] ++ shb ++ body)).toNat, header := some (PSIRT.parsedSectionHeader t x y),
               syn := some { data := some d, header := sh } } : PSISection), false),
       ⟨bs, off + 3 + ((x % 16) * 256 + y : Nat)⟩) := by
  unfold parsePSISection
  rw [PSIRT.P.bind_of_ok (PSIRT.offset_run _)]
  have h1 := PSIRT.nextByte_at bs off t _ (by simpa using hat)
  rw [PSIRT.P.bind_of_ok h1]
  simp only [hstop, Bool.false_eq_true, if_false]
  have a1 : PSIRT.It.At ⟨bs, off + 1⟩ ([x, y] ++ (shb ++ body ++ be32 (computeCRC32 ([t, x, y] ++ shb ++ body)) ++ post)) := by
    have := PSIRT.It.At.advance (xs := [t]) (r := [x, y] ++ (shb ++ body ++ be32 (computeCRC32 ([t, x, y] ++ shb ++ body)) ++ post))
      (by simpa using hat) 1 (by simp)
    exact this
  have h2 := PSIRT.nextBytes_at bs (off + 1) [x, y] _ 2 (by simp) a1
  rw [PSIRT.P.bind_of_ok h2, PSIRT.P.bind_of_ok (PSIRT.offset_run _)]
  simp only [List.getD_cons_zero, List.getD_cons_succ, hcrc, if_true]
  have hpos : x % 16 * 256 + y > 0 := by omega
  simp only [hpos, if_true]
  have e12 : off + 1 + 2 = off + 3 := by omega
  simp only [e12]
  rw [PSIRT.P.bind_of_ok hsh, PSIRT.P.bind_of_ok hdata, PSIRT.P.bind_of_ok (PSIRT.seek_run _ _)]
  have a2 : PSIRT.It.At ⟨bs, off + 3 + ↑(x % 16 * 256 + y) - 4⟩ (be32 (computeCRC32 ([t, x, y] ++ shb ++ body)) ++ post) := by
    have := PSIRT.It.At.advance (xs := [t, x, y] ++ shb ++ body) (by simpa using hat) (3 + ↑(x % 16 * 256 + y) - 4)
      (by simp [hsl]; omega)
    have e : off + (3 + ((x % 16 * 256 + y : Nat) : Int) - 4) = off + 3 + ↑(x % 16 * 256 + y) - 4 := by omega
    rw [e] at this
    exact this
  have h3 := PSIRT.nextBytes_at bs _ _ _ 4 (by simp [PSIRT.be32_length]) a2
  simp only [hj]
  rw [PSIRT.P.bind_of_ok h3, PSIRT.P.bind_of_ok (PSIRT.seek_run _ _)]
  have h4 := PSIRT.nextBytes_at bs off ([t, x, y] ++ shb ++ body) (be32 (computeCRC32 ([t, x, y] ++ shb ++ body)) ++ post) (off + 3 + ↑(x % 16 * 256 + y) - 4 - off)
    (by simp [hsl]; omega) (by simpa using hat)
  show (It.nextBytes _ >>= _) (⟨bs, off⟩ : It) = _
  rw [PSIRT.P.bind_of_ok h4]
  simp only [PSIRT.beNat_be32, ne_eq, not_true, if_false]
  rw [PSIRT.P.bind_of_ok (PSIRT.seek_run _ _)]
  rfl

/-! ### the section loop over a whole unit -/

/-- what `parsePSISection` returns for a stuffing byte: table id 0xff, and the loop stops -/
def stopSection : PSISection := { header := some { tableID := 0xff, tableType := "Null" } }

theorem parsePSISection_stuffing (bs : Bytes) (off : Int) (r : Bytes) (hat : PSIRT.It.At ⟨bs, off⟩ (0xff :: r)) :
    parsePSISection ⟨bs, off⟩ = .ok ((stopSection, true), ⟨bs, off + 1⟩) := by
  unfold parsePSISection
  rw [PSIRT.P.bind_of_ok (PSIRT.offset_run _)]
  rw [PSIRT.P.bind_of_ok (PSIRT.nextByte_at bs off 0xff _ hat)]
  have hs : shouldStopPSIParsing 0xff = true := by decide
  have ht : tableType 0xff = "Null" := by decide
  simp only [hs, if_true, ht]
  rfl

/-- `bytes` parse as the section `s` wherever they stand, and the loop goes on after them -/
def SecAt (p : Bytes × PSISection) : Prop :=
  0 < p.1.length ∧ ∀ (bs : Bytes) (off : Int) (r : Bytes), PSIRT.It.At ⟨bs, off⟩ (p.1 ++ r) →
    parsePSISection ⟨bs, off⟩ = .ok ((p.2, false), ⟨bs, off + ((p.1.length : Nat) : Int)⟩)

/-- the sections the loop appends after the real ones: none without stuffing, the "Null" section of the first
stuffing byte otherwise -/
def stopSections (stuffing : Nat) : List PSISection := if stuffing = 0 then [] else [stopSection]

def stopBytes (stuffing : Nat) : Nat := if stuffing = 0 then 0 else 1

theorem parsePSISections_unit (secs : List (Bytes × PSISection)) (h : ∀ p ∈ secs, SecAt p) (stuffing : Nat) :
    ∀ (fuel : Nat) (bs : Bytes) (off : Int), secs.length + 1 < fuel →
      PSIRT.It.At ⟨bs, off⟩ ((secs.map (·.1)).flatten ++ List.replicate stuffing 0xff) →
      parsePSISections fuel ⟨bs, off⟩ = .ok (secs.map (·.2) ++ stopSections stuffing,
        ⟨bs, off + (((secs.map (·.1)).flatten.length : Nat) : Int) + ((stopBytes stuffing : Nat) : Int)⟩) := by
  induction secs with
  | nil =>
    intro fuel bs off hf hat
    cases fuel with
    | zero => simp at hf
    | succ f =>
      unfold parsePSISections
      rw [PSIRT.P.bind_of_ok (PSIRT.hasBytesLeft_run _)]
      have hl := PSIRT.It.At.len hat
      simp only [List.map_nil, List.flatten_nil, List.nil_append, List.length_replicate, List.length_nil] at hl hat ⊢
      cases stuffing with
      | zero =>
        have hn : ¬ (off < (bs.length : Int)) := by omega
        simp only [hn, decide_false, Bool.false_eq_true, if_false, P.pure_run, stopSections, stopBytes, if_true]
        congr 2
        simp
      | succ n =>
        have hn : off < (bs.length : Int) := by omega
        simp only [hn, decide_true, if_true]
        rw [PSIRT.P.bind_of_ok (parsePSISection_stuffing bs off (List.replicate n 0xff) (by simpa [List.replicate_succ] using hat))]
        simp [stopSections, stopBytes]
  | cons p secs ih =>
    intro fuel bs off hf hat
    obtain ⟨hpos, hp⟩ := h p (by simp)
    cases fuel with
    | zero => simp at hf
    | succ f =>
      unfold parsePSISections
      rw [PSIRT.P.bind_of_ok (PSIRT.hasBytesLeft_run _)]
      have hat' : PSIRT.It.At ⟨bs, off⟩ (p.1 ++ ((secs.map (·.1)).flatten ++ List.replicate stuffing 0xff)) := by
        simpa using hat
      have hl := PSIRT.It.At.len hat'
      simp only [List.length_append] at hl
      have hn : off < (bs.length : Int) := by omega
      simp only [hn, decide_true, if_true]
      rw [PSIRT.P.bind_of_ok (hp bs off _ hat')]
      simp only [Bool.false_eq_true, if_false]
      have hat2 := PSIRT.It.At.advance hat' (p.1.length : Nat) rfl
      rw [PSIRT.P.bind_of_ok (ih (fun q hq => h q (by simp [hq])) f bs _ (by simp at hf; omega) hat2)]
      simp only [P.pure_run, List.map_cons, List.flatten_cons, List.length_append, List.cons_append]
      congr 2
      simp only [It.mk.injEq, true_and]
      omega

/-- **a whole PSI unit**: pointer_field `ptr`, `ptr` filler bytes, sections that each parse wherever they stand,
any number of trailing 0xFF bytes -/
theorem parsePSIData_unit (ptr stuffing : Nat) (secs : List (Bytes × PSISection)) (h : ∀ p ∈ secs, SecAt p) :
    parsePSIData ⟨Spec.unitEncode ptr (secs.map (·.1)) stuffing, 0⟩ =
      .ok ({ pointerField := (ptr : Int), sections := secs.map (·.2) ++ stopSections stuffing },
        ⟨Spec.unitEncode ptr (secs.map (·.1)) stuffing,
          ((1 + ptr + (secs.map (·.1)).flatten.length + stopBytes stuffing : Nat) : Int)⟩) := by
  unfold parsePSIData Spec.unitEncode
  generalize hB : (secs.map (·.1)).flatten = body
  have a0 : PSIRT.It.At ⟨[ptr] ++ List.replicate ptr 0 ++ body ++ List.replicate stuffing 0xff, 0⟩
      (ptr :: (List.replicate ptr 0 ++ body ++ List.replicate stuffing 0xff)) := ⟨[], by simp, rfl⟩
  rw [PSIRT.P.bind_of_ok (PSIRT.nextByte_at _ _ _ _ a0)]
  have hs : ∀ bs : Bytes, It.skip (ptr : Int) ⟨bs, 0 + 1⟩ = .ok ((), ⟨bs, 0 + 1 + (ptr : Int)⟩) := fun _ => rfl
  rw [PSIRT.P.bind_of_ok (hs _)]
  have hf : ∀ (bs : Bytes) (o : Int), fuelOf ⟨bs, o⟩ = .ok (bs.length + 1, ⟨bs, o⟩) := fun _ _ => rfl
  rw [PSIRT.P.bind_of_ok (hf _ _)]
  have a1 : PSIRT.It.At ⟨[ptr] ++ List.replicate ptr 0 ++ body ++ List.replicate stuffing 0xff, 0 + 1 + (ptr : Int)⟩
      (body ++ List.replicate stuffing 0xff) :=
    ⟨[ptr] ++ List.replicate ptr 0, by simp, by simp; omega⟩
  have hle := PSIRT.length_le_flatten (fun p : Bytes × PSISection => p.1) secs (fun p hp => (h p hp).1)
  have hB' : (List.map (fun p : Bytes × PSISection => p.1) secs).flatten = body := hB
  rw [hB'] at hle
  have hps := parsePSISections_unit secs h stuffing
    (([ptr] ++ List.replicate ptr 0 ++ body ++ List.replicate stuffing 0xff).length + 1) _ _ (by simp; omega)
    (by rw [hB]; exact a1)
  rw [hB] at hps
  rw [PSIRT.P.bind_of_ok hps]
  simp only [P.pure_run]
  congr 2
  all_goals (simp only [It.mk.injEq, true_and]; omega)

/-- one section in a unit -/
theorem parsePSIData_single (ptr stuffing : Nat) (bytes : Bytes) (s : PSISection) (h : SecAt (bytes, s)) :
    parsePSIData ⟨Spec.unitEncode ptr [bytes] stuffing, 0⟩ =
      .ok ({ pointerField := (ptr : Int), sections := s :: stopSections stuffing },
        ⟨Spec.unitEncode ptr [bytes] stuffing, ((1 + ptr + bytes.length + stopBytes stuffing : Nat) : Int)⟩) := by
  have := parsePSIData_unit ptr stuffing [(bytes, s)] (by intro p hp; simp at hp; subst hp; exact h)
  simpa only [List.map_cons, List.map_nil, List.flatten_cons, List.flatten_nil, List.append_nil, List.cons_append,
    List.nil_append] using this

end Astits.SIRT
