/-
C13 helper (SI tables) — the independent bit-serial field packer `Spec.enc` and the model's `packFields` (the
`astikit.BitsWriter` model) produce the same bytes for every field list whose widths add up to whole bytes; and the
table-driven checksum equals the bit-serial reference register for EVERY list of naturals (both look at the low
8 bits of each element only), so no byte-range side condition is left for section contents.
-/
import Astits.Spec.Bits
import Astits.Proofs.Layout
import Astits.Props.C10
namespace Astits.SIRT
open Astits

/-! ### `Spec.enc = packFields` -/

/-- value of a bit string, MSB first (`Spec.byteOfBits` for any length) -/
def bitsVal (bs : List Bool) : Nat := bs.foldl (fun acc b => 2 * acc + (if b then 1 else 0)) 0

theorem byteOfBits_eq (bs : List Bool) : Spec.byteOfBits bs = bitsVal bs := rfl

theorem foldl_bits (acc : Nat) (r : List Bool) :
    List.foldl (fun a (b : Bool) => 2 * a + (if b then 1 else 0)) acc r = acc * 2 ^ r.length + bitsVal r := by
  unfold bitsVal
  induction r generalizing acc with
  | nil => simp
  | cons x r ih =>
    simp only [List.foldl_cons, List.length_cons]
    rw [ih (2 * acc + _), ih (2 * 0 + _)]
    simp only [Nat.mul_zero, Nat.zero_add, Nat.pow_succ]
    rw [Nat.add_mul, Nat.add_assoc]
    congr 1
    rw [Nat.mul_comm 2 acc, Nat.mul_assoc, Nat.mul_comm 2]

theorem bitsVal_cons (b : Bool) (r : List Bool) : bitsVal (b :: r) = (if b then 1 else 0) * 2 ^ r.length + bitsVal r := by
  show List.foldl _ _ _ = _
  simp only [List.foldl_cons, Nat.mul_zero, Nat.zero_add]
  exact foldl_bits _ r

theorem bitsVal_append (xs ys : List Bool) : bitsVal (xs ++ ys) = bitsVal xs * 2 ^ ys.length + bitsVal ys := by
  show List.foldl _ _ _ = _
  rw [List.foldl_append]
  exact foldl_bits _ ys

theorem bitsVal_lt (bs : List Bool) : bitsVal bs < 2 ^ bs.length := by
  induction bs with
  | nil => simp [bitsVal]
  | cons b r ih =>
    rw [bitsVal_cons, List.length_cons, Nat.pow_succ]
    have : (if b then 1 else 0) ≤ 1 := by cases b <;> simp
    have h2 : (if b = true then 1 else 0) * 2 ^ r.length ≤ 1 * 2 ^ r.length := Nat.mul_le_mul_right _ this
    omega

theorem bitsOf_length (w v : Nat) : (Spec.bitsOf w v).length = w := by
  induction w with
  | zero => rfl
  | succ w ih => simp [Spec.bitsOf, ih]

theorem bitsVal_bitsOf (w v : Nat) : bitsVal (Spec.bitsOf w v) = v % 2 ^ w := by
  induction w with
  | zero => simp [Spec.bitsOf, bitsVal, Nat.mod_one]
  | succ w ih =>
    rw [Spec.bitsOf, bitsVal_cons, ih, bitsOf_length, Nat.mod_pow_succ]
    have : (if v.testBit w = true then 1 else 0) = v / 2 ^ w % 2 := by
      rw [← Nat.toNat_testBit]; cases v.testBit w <;> rfl
    rw [this, Nat.add_comm, Nat.mul_comm]

/-- `beBytes n` only looks at the low `n` bytes -/
theorem beBytes_add_mul (n a b : Nat) : beBytes n (a * 256 ^ n + b) = beBytes n b := by
  induction n generalizing a with
  | zero => rfl
  | succ n ih =>
    rw [beBytes, beBytes]
    have e : a * 256 ^ (n + 1) + b = (a * 256) * 256 ^ n + b := by rw [Nat.pow_succ, Nat.mul_assoc, Nat.mul_comm (256 ^ n)]
    rw [e, ih (a * 256)]
    congr 1
    have hp : 0 < 256 ^ n := Nat.pow_pos (by decide)
    rw [Nat.add_comm, Nat.add_mul_div_right _ _ hp, Nat.add_mul_mod_self_right]

theorem packBits_eq (n : Nat) : ∀ bs : List Bool, bs.length = 8 * n → Spec.packBits bs = beBytes n (bitsVal bs) := by
  induction n with
  | zero =>
    intro bs h
    have : bs = [] := List.eq_nil_of_length_eq_zero (by omega)
    subst this; rfl
  | succ n ih =>
    intro bs h
    match bs, h with
    | b7 :: b6 :: b5 :: b4 :: b3 :: b2 :: b1 :: b0 :: r, h =>
      have hr : r.length = 8 * n := by simp only [List.length_cons] at h; omega
      rw [Spec.packBits, ih r hr, beBytes]
      have hsplit : b7 :: b6 :: b5 :: b4 :: b3 :: b2 :: b1 :: b0 :: r = [b7, b6, b5, b4, b3, b2, b1, b0] ++ r := rfl
      have hv : bitsVal (b7 :: b6 :: b5 :: b4 :: b3 :: b2 :: b1 :: b0 :: r)
          = bitsVal [b7, b6, b5, b4, b3, b2, b1, b0] * 256 ^ n + bitsVal r := by
        rw [hsplit, bitsVal_append, hr, Nat.pow_mul]
      have hlt : bitsVal r < 256 ^ n := by
        have := bitsVal_lt r
        rw [hr, Nat.pow_mul] at this; exact this
      have h8 : bitsVal [b7, b6, b5, b4, b3, b2, b1, b0] < 256 := by
        have := bitsVal_lt [b7, b6, b5, b4, b3, b2, b1, b0]
        simpa using this
      rw [hv, beBytes_add_mul, byteOfBits_eq]
      congr 1
      have hp : 0 < 256 ^ n := Nat.pow_pos (by decide)
      rw [Nat.add_comm, Nat.add_mul_div_right _ _ hp, Nat.div_eq_of_lt hlt, Nat.zero_add, Nat.mod_eq_of_lt h8]

/-- a field list of `Spec.enc` as one of `packFields`: `(width, value)` ↦ `(value, width)` -/
def swapFields (fs : List (Nat × Nat)) : List (Nat × Nat) := fs.map fun (w, v) => (v, w)

def fieldBits (fs : List (Nat × Nat)) : List Bool := (fs.map fun (w, v) => Spec.bitsOf w v).flatten

theorem fieldBits_length (fs : List (Nat × Nat)) : (fieldBits fs).length = fieldsWidth (swapFields fs) := by
  induction fs with
  | nil => rfl
  | cons f r ih =>
    obtain ⟨w, v⟩ := f
    simp only [fieldBits, swapFields, List.map_cons, List.flatten_cons, List.length_append, bitsOf_length, fieldsWidth] at ih ⊢
    rw [ih]

theorem fieldsValue_eq (fs : List (Nat × Nat)) (acc : Nat) :
    fieldsValue (swapFields fs) acc = acc * 2 ^ (fieldBits fs).length + bitsVal (fieldBits fs) := by
  induction fs generalizing acc with
  | nil => simp [swapFields, fieldsValue, fieldBits, bitsVal]
  | cons f r ih =>
    obtain ⟨w, v⟩ := f
    have hb : fieldBits ((w, v) :: r) = Spec.bitsOf w v ++ fieldBits r := rfl
    have hs : swapFields ((w, v) :: r) = (v, w) :: swapFields r := rfl
    rw [hs, fieldsValue, ih, hb, bitsVal_append, List.length_append, bitsOf_length, bitsVal_bitsOf, Nat.pow_add,
      Nat.add_mul, Nat.mul_assoc, Nat.add_assoc]

/-- **the two packers agree** on every field list that fills whole bytes -/
theorem enc_eq_packFields (fs : List (Nat × Nat)) (h : fieldsWidth (swapFields fs) % 8 = 0) :
    Spec.enc fs = packFields (swapFields fs) := by
  have hl := fieldBits_length fs
  have h8 : (fieldBits fs).length = 8 * (fieldsWidth (swapFields fs) / 8) := by omega
  have := packBits_eq _ (fieldBits fs) h8
  unfold Spec.enc packFields
  show Spec.packBits (fieldBits fs) = _
  rw [this, fieldsValue_eq]
  simp

theorem enc_length (fs : List (Nat × Nat)) (h : fieldsWidth (swapFields fs) % 8 = 0) :
    (Spec.enc fs).length = fieldsWidth (swapFields fs) / 8 := by
  rw [enc_eq_packFields fs h]; unfold packFields; exact beBytes_length _ _

theorem bit_swap (b : Bool) : (fun (p : Nat × Nat) => (p.2, p.1)) (Spec.bit b) = (b2n b, 1) := by
  cases b <;> rfl

/-! ### the checksum on arbitrary naturals -/

theorem crcStep_mod (c : BitVec 32) (b : Nat) : crcStep c b = crcStep c (b % 256) := by
  unfold crcStep
  congr 2
  apply BitVec.eq_of_getLsbD_eq
  intro i hi
  rw [mask8]
  simp only [BitVec.getLsbD_and, BitVec.getLsbD_xor, BitVec.getLsbD_ofNat, Nat.testBit_two_pow_sub_one]
  by_cases h : i < 8
  · have : (b % 256).testBit i = b.testBit i := by
      rw [show (256 : Nat) = 2 ^ 8 from rfl, Nat.testBit_mod_two_pow]; simp [h]
    simp [h, this]
  · simp [h]

theorem feedByte_mod (c : BitVec 32) (b : Nat) : Spec.crcFeedByte c b = Spec.crcFeedByte c (b % 256) := by
  unfold Spec.crcFeedByte Spec.bitsOfByte
  have h : ∀ i, i < 8 → (b % 256).testBit i = b.testBit i := by
    intro i hi
    rw [show (256 : Nat) = 2 ^ 8 from rfl, Nat.testBit_mod_two_pow]; simp [hi]
  rw [h 7 (by decide), h 6 (by decide), h 5 (by decide), h 4 (by decide), h 3 (by decide), h 2 (by decide),
    h 1 (by decide), h 0 (by decide)]

/-- `C10.crc_eq_spec` without the byte-range hypothesis -/
theorem crc_eq_spec_all (bs : Bytes) : computeCRC32 bs = Spec.crc bs := by
  unfold computeCRC32 Spec.crc
  have : ∀ c : BitVec 32, updateCRC32 c bs = Spec.crcFrom c bs := by
    induction bs with
    | nil => intro c; rfl
    | cons b r ih =>
      intro c
      simp only [updateCRC32, Spec.crcFrom, List.foldl_cons] at ih ⊢
      rw [crcStep_mod, feedByte_mod c b, C10.step_eq_spec c (b % 256) (Nat.mod_lt _ (by decide))]
      exact ih _
  exact this _

end Astits.SIRT
