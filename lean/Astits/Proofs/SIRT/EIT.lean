/-
C13 helper (SI tables) — EIT (table ids 0x4e..0x6f): transport stream id, original network id, segment last section
number, last table id, events (event id, start time, duration, running status, free CA mode, descriptor loop);
service id = table_id_extension.
-/
import Astits.Proofs.SIRT.NIT
namespace Astits.SIRT
open Astits Astits.PacketRT Astits.DescRT

/-! ### hh:mm:ss durations -/

/-- a duration the reference encoder writes as three bytes hh mm ss and `parseDVBDurationSeconds` reads back exactly:
whole seconds, 0 ≤ d < 160 h.  Below 100 h all six digits are valid BCD; for 100..159 h the tens digit of the hours is
the non-BCD nibble 0xA..0xF, which the library decodes as 10..15 (the same range as `DescRT.DurationMinutesOk`); at
160 h the reference encoder's first "byte" is 256. -/
def DurationSecondsOk (ns : Int) : Prop := 0 ≤ ns ∧ ns < 576000000000000 ∧ ns % 1000000000 = 0

instance (ns : Int) : Decidable (DurationSecondsOk ns) := by unfold DurationSecondsOk; infer_instance

theorem bcd_seconds (H M S : Nat) (hH : H < 160) (hM : M < 60) (hS : S < 60) :
    durationSecondsOfBytes (Spec.bcd H) (Spec.bcd M) (Spec.bcd S) = ((H * 3600 + M * 60 + S : Nat) : Int) := by
  unfold durationSecondsOfBytes parseDVBDurationByte Spec.bcd
  omega

theorem durationBytes_at (pre : Bytes) (ns : Int) (h : DurationSecondsOk ns) :
    ParsesAt pre parseDVBDurationSeconds (Spec.durationBytes ns) ns := by
  obtain ⟨h0, h1, h2⟩ := h
  obtain ⟨s, hs⟩ : ∃ s : Nat, ns / 1000000000 = (s : Int) := ⟨(ns / 1000000000).toNat, by omega⟩
  have hs' : s < 576000 := by omega
  unfold parseDVBDurationSeconds Spec.durationBytes
  rw [hs]
  simp only [Int.toNat_natCast]
  refine ParsesAt.congr_val (ParsesAt.bind_last (nextBytes_at _ _ 3 rfl) (ParsesAt.pure _ _)) ?_
  simp only [List.getD_cons_zero, List.getD_cons_succ]
  rw [bcd_seconds (s / 3600) (s / 60 % 60) (s % 60) (by omega) (by omega) (by omega)]
  have hsum : s / 3600 * 3600 + s / 60 % 60 * 60 + s % 60 = s := by omega
  rw [hsum]
  omega

theorem durationBytes_length (ns : Int) : (Spec.durationBytes ns).length = 3 := rfl

/-! ### bytes -/

/-- running_status(3) free_CA_mode(1) descriptors_loop_length(12) -/
theorem eit_status_bytes (rs : Nat) (fca : Bool) (len : Nat) (h1 : rs < 8) (h2 : len < 4096) :
    Spec.enc [(3, rs), Spec.bit fca, (12, len)] = [rs * 32 + b2n fca * 16 + len / 256, len % 256] := by
  rw [enc_eq_packFields _ (by fw)]
  simp only [swapFields_cons, swapFields_bit, swapFields_nil]
  have hb := b2n_le fca
  simp only [packFields, fieldsWidth, fieldsValue, beBytes]
  simp only [Nat.reducePow, Nat.pow_zero, Nat.div_one, Nat.pow_one]
  simp only [List.cons.injEq, and_true]
  constructor <;> omega

theorem eit_head_bytes (a b c d : Nat) :
    Spec.enc [(16, a), (16, b), (8, c), (8, d)] = wU16 a ++ (wU16 b ++ (wU8 c ++ wU8 d)) := by
  have h1 := enc_append [(16, a)] [(16, b), (8, c), (8, d)] (by fw)
  have h2 := enc_append [(16, b)] [(8, c), (8, d)] (by fw)
  simp only [List.cons_append, List.nil_append] at h1 h2
  rw [h1, h2, enc_u16, enc_u16, enc_u8_u8]

/-! ### one event -/

structure EITEventOk (enc : Descriptor → Bytes) (e : EITDataEvent) : Prop where
  eventID : e.eventID < 65536
  /-- MJD 15079 (1900-03-01) … 65535 (2038-04-22) -/
  startTime : DVBTimeOk e.startTime
  duration : DurationSecondsOk e.duration
  runningStatus : e.runningStatus < 8
  descs : ∀ x ∈ e.descriptors, EncRT enc x
  fits : (descsE enc e.descriptors).length < 4096

def eitEventParser : P EITDataEvent := do
  let bs ← It.nextBytes 2
  let st ← parseDVBTime
  let du ← parseDVBDurationSeconds
  let c ← It.nextByte
  It.skip (-1)
  let ds ← parseDescriptors
  pure ({ descriptors := ds, duration := du, eventID := u16 bs, hasFreeCSAMode := c / 16 % 2 = 1,
          runningStatus := c / 32, startTime := st } : EITDataEvent)

theorem eitEventE_length (enc : Descriptor → Bytes) (e : EITDataEvent) :
    (eitEventE enc e).length = 12 + (descsE enc e.descriptors).length := by
  unfold eitEventE
  simp only [List.length_append, utcBytes_length, durationBytes_length]
  rw [enc_u16, enc_length _ (by fw)]
  simp [swapFields, fieldsWidth, Spec.bit]

theorem eitEvent_at (enc : Descriptor → Bytes) (hpos : EncPos enc) (e : EITDataEvent) (ok : EITEventOk enc e) (pre : Bytes) :
    ParsesAt pre eitEventParser (eitEventE enc e) e := by
  unfold eitEventParser eitEventE
  rw [enc_u16, eit_status_bytes _ _ _ ok.runningStatus ok.fits]
  simp only [List.append_assoc, List.cons_append, List.nil_append]
  refine ParsesAt.bind (nextBytes_at _ _ 2 rfl) ?_
  refine ParsesAt.bind (utc_at _ _ ok.startTime) ?_
  refine ParsesAt.bind (durationBytes_at _ _ ok.duration) ?_
  refine peek_bind _ _ _ _ _ ?_
  have h4 := ok.runningStatus
  have h6 := ok.fits
  have hb3 := b2n_le e.hasFreeCSAMode
  refine ParsesAt.bind_last (parseDescriptors_enc enc hpos e.descriptors ok.descs _ _ ?_ _) ?_
  · omega
  · refine ParsesAt.congr_val (ParsesAt.pure _ _) ?_
    have e3 : (e.runningStatus * 32 + b2n e.hasFreeCSAMode * 16 + (descsE enc e.descriptors).length / 256) / 16 % 2
        = b2n e.hasFreeCSAMode := by omega
    have e4 : (e.runningStatus * 32 + b2n e.hasFreeCSAMode * 16 + (descsE enc e.descriptors).length / 256) / 32
        = e.runningStatus := by omega
    rw [e3, e4, u16_wU16 _ ok.eventID]
    simp only [decide_b2n]

/-! ### the table body -/

structure EITOk (enc : Descriptor → Bytes) (d : EITData) : Prop where
  transportStreamID : d.transportStreamID < 65536
  originalNetworkID : d.originalNetworkID < 65536
  segmentLastSectionNumber : d.segmentLastSectionNumber < 256
  lastTableID : d.lastTableID < 256
  events : ∀ e ∈ d.events, EITEventOk enc e
  /-- the section fits its 12-bit section_length: syntax header 5 + 6 + events + CRC 4 -/
  fits : 15 + ((d.events.map (eitEventE enc)).flatten).length < 4096

theorem eitBodyE_length (enc : Descriptor → Bytes) (d : EITData) :
    (eitBodyE enc d).length = 6 + ((d.events.map (eitEventE enc)).flatten).length := by
  unfold eitBodyE
  rw [List.length_append, eit_head_bytes]
  simp

theorem parseEITSection_eq (endOff : Int) (ext : Nat) : parseEITSection endOff ext = (do
    let a ← It.nextBytes 2
    let b ← It.nextBytes 2
    let slsn ← It.nextByte
    let ltid ← It.nextByte
    let fuel ← fuelOf
    let es ← loopUntil fuel endOff eitEventParser
    return { events := es, lastTableID := ltid, originalNetworkID := u16 b, segmentLastSectionNumber := slsn,
             serviceID := ext, transportStreamID := u16 a }) := rfl

theorem parseEITSection_at (enc : Descriptor → Bytes) (hpos : EncPos enc) (d : EITData) (ext : Nat) (ok : EITOk enc d) (pre : Bytes) :
    ParsesAt pre (parseEITSection ((pre.length : Int) + (((eitBodyE enc d).length : Nat) : Int)) ext) (eitBodyE enc d)
      { d with serviceID := ext } := by
  rw [parseEITSection_eq, eitBodyE_length]
  unfold eitBodyE
  rw [eit_head_bytes]
  simp only [List.append_assoc]
  refine ParsesAt.bind (nextBytes_at _ _ 2 rfl) ?_
  refine ParsesAt.bind (nextBytes_at _ _ 2 rfl) ?_
  refine ParsesAt.bind (wU8_at _ _ ok.segmentLastSectionNumber) ?_
  refine ParsesAt.bind (wU8_at _ _ ok.lastTableID) ?_
  have hr : (d.events.map (eitEventE enc)).flatten = (d.events.map (eitEventE enc)).flatten ++ [] := by simp
  rw [hr]
  refine fueled_loopUntil_bind eitEventParser (eitEventE enc) (EITEventOk enc)
    (fun e he pre => eitEvent_at enc hpos e he pre) (fun e _ => by rw [eitEventE_length]; omega)
    d.events _ _ ok.events ?_ _ [] _ ?_
  · simp only [List.length_append, DescLen.wU16_length, DescLen.wU8_length, List.append_nil]; omega
  · refine ParsesAt.congr_val (ParsesAt.pure _ _) ?_
    rw [u16_wU16 _ ok.transportStreamID, u16_wU16 _ ok.originalNetworkID]

theorem syntaxData_eit (t : Nat) (ht : 0x4e ≤ t ∧ t ≤ 0x6f) (sh : PSISectionSyntaxHeader) (endOff : Int) (i j : It) (x : EITData)
    (h : parseEITSection endOff sh.tableIDExtension i = .ok (x, j)) :
    parsePSISectionSyntaxData t (some sh) endOff i = .ok ({ eit := some x }, j) := by
  unfold parsePSISectionSyntaxData
  have he : isEIT t = true := by simp [isEIT]; omega
  have n1 : ¬ (t = 0x40 ∨ t = 0x41) := by omega
  have n2 : ¬ (t = 0) := by omega
  have n3 : ¬ (t = 2) := by omega
  have n4 : ¬ (t = 0x42 ∨ t = 0x46) := by omega
  have n5 : ¬ (t = 0x73) := by omega
  simp [he, n1, n2, n3, n4, n5]
  rw [PSIRT.P.bind_of_ok (a := ({} : PSISectionSyntaxData)) (i' := i) rfl]
  rw [PSIRT.P.bind_of_ok h]
  rfl

theorem eit_secAt (enc : Descriptor → Bytes) (hpos : EncPos enc) (t : Nat) (ht : 0x4e ≤ t ∧ t ≤ 0x6f) (ssi priv : Bool)
    (sh : PSISectionSyntaxHeader) (hsh : PSIRT.SyntaxHeaderOk sh) (d : EITData) (ok : EITOk enc d) :
    SecAt (Spec.mkSec t ssi priv (Spec.syntaxHeader sh ++ eitBodyE enc d) true,
      delivered t ssi priv (some sh) { eit := some { d with serviceID := sh.tableIDExtension } }
        (Spec.syntaxHeader sh ++ eitBodyE enc d)) := by
  have h256 : t < 256 := by omega
  have he : isEIT t = true := by simp [isEIT]; omega
  have hstop : shouldStopPSIParsing t = false := by
    have : t ≠ 0xff := by omega
    simp [shouldStopPSIParsing, isUnknownTable, he, this]
  have hcrc : hasCRC32 t = true := by simp [hasCRC32, he]
  have hsyn : hasPSISyntaxHeader t = true := by simp [hasPSISyntaxHeader, he]
  refine mkSec_secAt t ssi priv (some sh) (Spec.syntaxHeader sh) (eitBodyE enc d) _ h256 hstop hcrc
    (by rw [syntaxHeader_length, eitBodyE_length]; have := ok.fits; omega)
    (optHeader_some t hsyn sh hsh) ?_
  intro bs off r hat
  exact syntaxData_eit t ht sh _ _ _ _
    (ParsesAt.to_at_off (p := fun o => parseEITSection (o + (((eitBodyE enc d).length : Nat) : Int)) sh.tableIDExtension)
      (fun pre => parseEITSection_at enc hpos d sh.tableIDExtension ok pre) bs off r hat)

theorem sectionBodyE_eit (enc : Descriptor → Bytes) (t : Nat) (ht : 0x4e ≤ t ∧ t ≤ 0x6f) (sh : PSISectionSyntaxHeader) (d : EITData) :
    sectionBodyE enc t (some sh) { eit := some d } = Spec.syntaxHeader sh ++ eitBodyE enc d := by
  have n1 : ¬ (t = 0x40 ∨ t = 0x41) := by omega
  have n2 : ¬ (t = 0) := by omega
  have n3 : ¬ (t = 2) := by omega
  have n4 : ¬ (t = 0x42 ∨ t = 0x46) := by omega
  simp only [sectionBodyE, n1, n2, n3, n4, ht, if_false, if_true, and_self, Option.getD_some]

/-- EIT, generic in the per-descriptor encoder: the whole PSI unit -/
theorem eit_parse_enc (enc : Descriptor → Bytes) (hpos : EncPos enc) (ptr stuffing : Nat) (t : Nat) (ht : 0x4e ≤ t ∧ t ≤ 0x6f)
    (ssi priv : Bool) (sh : PSISectionSyntaxHeader) (hsh : PSIRT.SyntaxHeaderOk sh) (d : EITData) (ok : EITOk enc d) :
    parsePSIData ⟨Spec.unitEncode ptr [sectionEncodeE enc t ssi priv (some sh) { eit := some d }] stuffing, 0⟩ =
      .ok ({ pointerField := (ptr : Int),
             sections := delivered t ssi priv (some sh) { eit := some { d with serviceID := sh.tableIDExtension } }
               (Spec.syntaxHeader sh ++ eitBodyE enc d) :: stopSections stuffing },
        ⟨Spec.unitEncode ptr [sectionEncodeE enc t ssi priv (some sh) { eit := some d }] stuffing,
          ((1 + ptr + (sectionEncodeE enc t ssi priv (some sh) { eit := some d }).length + stopBytes stuffing : Nat) : Int)⟩) := by
  have h := eit_secAt enc hpos t ht ssi priv sh hsh d ok
  refine parsePSIData_single ptr stuffing _ _ ?_
  unfold sectionEncodeE
  rw [sectionBodyE_eit enc t ht sh d]
  exact h

end Astits.SIRT
