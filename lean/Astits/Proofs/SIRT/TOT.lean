/-
C13 helper (SI tables) — TOT (table id 0x73): UTC time, descriptor loop; no syntax header, CRC_32.
-/
import Astits.Proofs.SIRT.Bodies
import Astits.Proofs.DescRT.Time
namespace Astits.SIRT
open Astits Astits.PacketRT Astits.DescRT

/-! ### the 40-bit UTC time of the reference encoder -/

/-- within MJD 15079..65535 the reference encoder and the model's `writeDVBTime` emit the same five bytes -/
theorem utcBytes_eq (t : Int) (h : DVBTimeOk t) : Spec.utcBytes t = writeDVBTime t := by
  obtain ⟨h0, h1⟩ := h
  obtain ⟨n, en⟩ : ∃ n : Nat, t / 86400 + 40587 - 15079 = (n : Int) := ⟨(t / 86400 + 40587 - 15079).toNat, by omega⟩
  obtain ⟨sec, es⟩ : ∃ sec : Nat, t % 86400 = (sec : Int) := ⟨(t % 86400).toNat, by omega⟩
  have hn : n < 50457 := by omega
  have hs : sec < 86400 := by omega
  have ht : t = (((15079 + n : Nat) : Int) - 40587) * 86400 + (sec : Int) := by omega
  have hw := C15.writeDVBTime_spec n sec hn hs
  rw [← ht] at hw
  rw [hw]
  unfold Spec.utcBytes
  have e1 : (t / 86400 + 40587).toNat = 15079 + n := by omega
  have e2 : (t % 86400).toNat = sec := by omega
  rw [e1, e2]

theorem utc_at (pre : Bytes) (t : Int) (h : DVBTimeOk t) : ParsesAt pre parseDVBTime (Spec.utcBytes t) t := by
  rw [utcBytes_eq t h]; exact dvbTime_at pre t h

theorem utcBytes_length (t : Int) : (Spec.utcBytes t).length = 5 := rfl

/-! ### TOT body -/

theorem totBodyE_length (enc : Descriptor → Bytes) (d : TOTData) :
    (totBodyE enc d).length = 7 + (descsE enc d.descriptors).length := by
  unfold totBodyE
  rw [List.length_append, utcBytes_length, descLoopE_length]; omega

structure TOTOk (enc : Descriptor → Bytes) (d : TOTData) : Prop where
  /-- MJD 15079 (1900-03-01) … 65535 (2038-04-22) -/
  time : DVBTimeOk d.utcTime
  descs : ∀ x ∈ d.descriptors, EncRT enc x
  /-- the section fits its 12-bit section_length: 5 + 2 + descriptors + 4 -/
  fits : 11 + (descsE enc d.descriptors).length < 4096

theorem parseTOTSection_at (enc : Descriptor → Bytes) (hpos : EncPos enc) (d : TOTData) (ok : TOTOk enc d) (pre : Bytes) :
    ParsesAt pre parseTOTSection (totBodyE enc d) d := by
  unfold parseTOTSection totBodyE
  refine ParsesAt.bind (utc_at pre _ ok.time) ?_
  refine ParsesAt.bind_last (descLoopE_at enc hpos d.descriptors ok.descs (by have := ok.fits; omega) _) ?_
  exact ParsesAt.pure _ _

theorem syntaxData_tot (sh : Option PSISectionSyntaxHeader) (endOff : Int) (i j : It) (x : TOTData)
    (h : parseTOTSection i = .ok (x, j)) :
    parsePSISectionSyntaxData 0x73 sh endOff i = .ok ({ tot := some x }, j) := by
  unfold parsePSISectionSyntaxData
  simp [isEIT]
  rw [PSIRT.P.bind_of_ok (a := ({ tot := some x } : PSISectionSyntaxData)) (i' := j) (by rw [PSIRT.P.bind_of_ok h]; rfl)]
  rfl

theorem tot_secAt (enc : Descriptor → Bytes) (hpos : EncPos enc) (ssi priv : Bool) (d : TOTData) (ok : TOTOk enc d) :
    SecAt (Spec.mkSec 0x73 ssi priv (totBodyE enc d) true, delivered 0x73 ssi priv none { tot := some d } (totBodyE enc d)) := by
  have := mkSec_secAt 0x73 ssi priv none [] (totBodyE enc d) { tot := some d } (by decide) (by decide) (by decide)
    (by rw [totBodyE_length]; have := ok.fits; simp only [List.length_nil]; omega)
    (optHeader_none 0x73 (by decide))
    (fun bs off r hat => syntaxData_tot none _ _ _ d
      (ParsesAt.to_at (fun pre => parseTOTSection_at enc hpos d ok pre) bs off r hat))
  simpa using this

/-- TOT, generic in the per-descriptor encoder: the whole PSI unit -/
theorem tot_parse_enc (enc : Descriptor → Bytes) (hpos : EncPos enc) (ptr stuffing : Nat) (ssi priv : Bool) (d : TOTData)
    (ok : TOTOk enc d) :
    parsePSIData ⟨Spec.unitEncode ptr [sectionEncodeE enc 0x73 ssi priv none { tot := some d }] stuffing, 0⟩ =
      .ok ({ pointerField := (ptr : Int),
             sections := delivered 0x73 ssi priv none { tot := some d } (totBodyE enc d) :: stopSections stuffing },
        ⟨Spec.unitEncode ptr [sectionEncodeE enc 0x73 ssi priv none { tot := some d }] stuffing,
          ((1 + ptr + (sectionEncodeE enc 0x73 ssi priv none { tot := some d }).length + stopBytes stuffing : Nat) : Int)⟩) :=
  parsePSIData_single ptr stuffing _ _ (tot_secAt enc hpos ssi priv d ok)

end Astits.SIRT
