/-
C13 helper (SI tables) — one reference-encoded section (`Spec.mkSec … true`) parses to the section value the demuxer
delivers, given that its syntax header bytes and its table body parse; the reference syntax header is the model's.
-/
import Astits.Proofs.SIRT.Core
import Astits.Gen.PSI
namespace Astits.SIRT
open Astits Astits.PacketRT Astits.DescRT

/-- the bytes of a reference-encoded section before its CRC_32 (`body` = syntax header, if any, and table body) -/
def secPre (t : Nat) (ssi priv : Bool) (body : Bytes) : Bytes :=
  Spec.enc [(8, t), Spec.bit ssi, Spec.bit priv, (2, 3), (12, body.length + 4)] ++ body

theorem be32'_eq (c : BitVec 32) : Spec.be32' c.toNat = be32 c := by
  unfold Spec.be32' be32
  rw [enc_eq_packFields _ (by fw)]
  simp only [swapFields, List.map, packFields, fieldsWidth, fieldsValue]
  have := c.isLt
  congr 1
  simp only [Nat.reducePow] at *
  omega

/-- a reference section is `secPre` followed by the MODEL's checksum of `secPre`: the bit-serial reference register and
the table-driven `computeCRC32` agree on every byte string (C10) -/
theorem mkSec_eq (t : Nat) (ssi priv : Bool) (body : Bytes) :
    Spec.mkSec t ssi priv body true = secPre t ssi priv body ++ be32 (computeCRC32 (secPre t ssi priv body)) := by
  unfold Spec.mkSec secPre
  simp only [if_true]
  rw [crc_eq_spec_all, be32'_eq]

theorem secPre_head (t : Nat) (ssi priv : Bool) (body : Bytes) (ht : t < 256) (hfit : body.length + 4 < 4096) :
    ∃ x y, secPre t ssi priv body = [t, x, y] ++ body ∧ (x % 16) * 256 + y = body.length + 4 ∧
      x / 64 % 2 = b2n priv ∧ x / 128 % 2 = b2n ssi := by
  obtain ⟨x, y, hxy, e1, e2, e3⟩ := PSIRT.section_head_bytes t (b2n ssi) (b2n priv) (body.length + 4) ht (b2n_le _) (b2n_le _) hfit
  refine ⟨x, y, ?_, e1, e2, e3⟩
  unfold secPre
  rw [enc_eq_packFields _ (by fw)]
  have : swapFields [(8, t), Spec.bit ssi, Spec.bit priv, (2, 3), (12, body.length + 4)]
      = [(t, 8), (b2n ssi, 1), (b2n priv, 1), (3, 2), (body.length + 4, 12)] := by
    cases ssi <;> cases priv <;> rfl
  rw [this, hxy]

/-- the section value delivered for a reference-encoded section: the fields the parser recomputes are
`sectionLength` (number of bytes after the field), `tableType` (name of the table id) and `crc32` (the reference
CRC_32 of all bytes before it) -/
def deliveredHeader (t : Nat) (ssi priv : Bool) (len : Nat) : PSISectionHeader :=
  { privateBit := priv, sectionLength := len, sectionSyntaxIndicator := ssi, tableID := t, tableType := tableType t }

def delivered (t : Nat) (ssi priv : Bool) (sh : Option PSISectionSyntaxHeader) (d : PSISectionSyntaxData) (body : Bytes) :
    PSISection :=
  { crc32 := (Spec.crc (secPre t ssi priv body)).toNat,
    header := some (deliveredHeader t ssi priv (body.length + 4)),
    syn := some { data := some d, header := sh } }

theorem mkSec_secAt (t : Nat) (ssi priv : Bool) (sh : Option PSISectionSyntaxHeader) (shb body : Bytes)
    (d : PSISectionSyntaxData) (ht : t < 256) (hstop : shouldStopPSIParsing t = false) (hcrc : hasCRC32 t = true)
    (hfit : shb.length + body.length + 4 < 4096)
    (hsh : ∀ (bs : Bytes) (off : Int) (r : Bytes), PSIRT.It.At ⟨bs, off⟩ (shb ++ r) →
      optP (hasPSISyntaxHeader t) parsePSISectionSyntaxHeader ⟨bs, off⟩ = .ok (sh, ⟨bs, off + ((shb.length : Nat) : Int)⟩))
    (hdata : ∀ (bs : Bytes) (off : Int) (r : Bytes), PSIRT.It.At ⟨bs, off⟩ (body ++ r) →
      parsePSISectionSyntaxData t sh (off + ((body.length : Nat) : Int)) ⟨bs, off⟩
        = .ok (d, ⟨bs, off + ((body.length : Nat) : Int)⟩)) :
    SecAt (Spec.mkSec t ssi priv (shb ++ body) true, delivered t ssi priv sh d (shb ++ body)) := by
  rw [mkSec_eq]
  have hl : (shb ++ body).length + 4 < 4096 := by simp only [List.length_append]; omega
  obtain ⟨x, y, hpre, e1, e2, e3⟩ := secPre_head t ssi priv (shb ++ body) ht hl
  simp only [List.length_append] at e1
  refine ⟨by simp [hpre], ?_⟩
  intro bs off post hat
  simp only [delivered]
  rw [← crc_eq_spec_all]
  rw [hpre] at hat ⊢
  have hat' : PSIRT.It.At ⟨bs, off⟩ (([t, x, y] ++ shb ++ body) ++ be32 (computeCRC32 ([t, x, y] ++ shb ++ body)) ++ post) := by
    simpa using hat
  have a3 : PSIRT.It.At ⟨bs, off + 3⟩ (shb ++ (body ++ (be32 (computeCRC32 ([t, x, y] ++ shb ++ body)) ++ post))) :=
    PSIRT.It.At.advance (xs := [t, x, y]) (by simpa using hat') 3 (by simp)
  have hh := hsh bs (off + 3) _ a3
  have a8 := PSIRT.It.At.advance a3 (shb.length : Nat) rfl
  have hd := hdata bs _ _ a8
  have eo : off + 3 + ((shb.length : Nat) : Int) + ((body.length : Nat) : Int) = off + 3 + ((x % 16 * 256 + y : Nat) : Int) - 4 := by
    rw [e1]; omega
  rw [eo] at hd
  have := parsePSISection_crc bs off t x y sh shb body post d _ hat' hstop hcrc (by rw [e1]) hh hd rfl
  have e4 : [t, x, y] ++ (shb ++ body) = [t, x, y] ++ shb ++ body := by simp
  rw [e4, this]
  have hhead : PSIRT.parsedSectionHeader t x y = deliveredHeader t ssi priv (shb.length + body.length + 4) := by
    simp only [PSIRT.parsedSectionHeader, deliveredHeader, e1, e2, e3, decide_b2n]
  rw [hhead]
  congr 2
  · simp only [List.length_append]
  · simp only [It.mk.injEq, true_and, List.length_append, List.length_cons, List.length_nil, PSIRT.be32_length]
    omega

/-! ### the syntax header -/

theorem syntaxHeader_eq (h : PSISectionSyntaxHeader) : Spec.syntaxHeader h = syntaxHeaderBytes h := by
  unfold Spec.syntaxHeader syntaxHeaderBytes
  rw [enc_eq_packFields _ (by fw)]
  cases h.currentNextIndicator <;> rfl

theorem syntaxHeader_length (h : PSISectionSyntaxHeader) : (Spec.syntaxHeader h).length = 5 := by
  rw [syntaxHeader_eq]; simp [syntaxHeaderBytes, packFields, fieldsWidth, beBytes_length]

/-- tables with a syntax header: the five bytes parse to it -/
theorem optHeader_some (t : Nat) (hs : hasPSISyntaxHeader t = true) (sh : PSISectionSyntaxHeader) (ok : PSIRT.SyntaxHeaderOk sh)
    (bs : Bytes) (off : Int) (r : Bytes) (hat : PSIRT.It.At ⟨bs, off⟩ (Spec.syntaxHeader sh ++ r)) :
    optP (hasPSISyntaxHeader t) parsePSISectionSyntaxHeader ⟨bs, off⟩
      = .ok (some sh, ⟨bs, off + (((Spec.syntaxHeader sh).length : Nat) : Int)⟩) := by
  rw [hs, syntaxHeader_length]
  rw [syntaxHeader_eq] at hat
  exact PSIRT.optP_true_of_ok (PSIRT.syntaxHeader_at bs off sh r ok hat)

/-- tables without: nothing is read -/
theorem optHeader_none (t : Nat) (hs : hasPSISyntaxHeader t = false)
    (bs : Bytes) (off : Int) (r : Bytes) (_ : PSIRT.It.At ⟨bs, off⟩ (([] : Bytes) ++ r)) :
    optP (hasPSISyntaxHeader t) parsePSISectionSyntaxHeader ⟨bs, off⟩
      = .ok (none, ⟨bs, off + ((([] : Bytes).length : Nat) : Int)⟩) := by
  rw [hs]
  simp [optP]

/-! ### `Spec.sectionEncode`, and the shape `Gen.mkSection` expects -/

/-- a section value as handed to the reference encoder: the fields it reads are the table id, the two flag bits, the
syntax header and the table data (`sectionLength`, `tableType`, `crc32` are outputs of parsing, not inputs) -/
def siSection (t : Nat) (ssi priv : Bool) (sh : Option PSISectionSyntaxHeader) (d : PSISectionSyntaxData) : PSISection :=
  { header := some { privateBit := priv, sectionSyntaxIndicator := ssi, tableID := t }, syn := some { data := some d, header := sh } }

/-- what `Spec.sectionEncode` puts between section_length and CRC_32 -/
def sectionBody (t : Nat) (sh : Option PSISectionSyntaxHeader) (d : PSISectionSyntaxData) : Bytes :=
  let shb := match sh with | some x => Spec.syntaxHeader x | none => []
  if t = 0 then shb ++ Spec.patBody (d.pat.getD {})
  else if t = 2 then shb ++ Spec.pmtBody (d.pmt.getD {})
  else if t = 0x42 ∨ t = 0x46 then shb ++ Spec.sdtBody (d.sdt.getD {})
  else if t = 0x40 ∨ t = 0x41 then shb ++ Spec.nitBody (d.nit.getD {})
  else if 0x4e ≤ t ∧ t ≤ 0x6f then shb ++ Spec.eitBody (d.eit.getD {})
  else Spec.totBody (d.tot.getD {})

theorem sectionEncode_si (t : Nat) (ssi priv : Bool) (sh : Option PSISectionSyntaxHeader) (d : PSISectionSyntaxData) :
    Spec.sectionEncode (siSection t ssi priv sh d) = Spec.mkSec t ssi priv (sectionBody t sh d) true := rfl

/-- the reference encoder reads nothing else of a section value -/
theorem sectionEncode_norm (crc : Nat) (h : PSISectionHeader) (sh : Option PSISectionSyntaxHeader) (d : PSISectionSyntaxData) :
    Spec.sectionEncode { crc32 := crc, header := some h, syn := some { data := some d, header := sh } }
      = Spec.sectionEncode (siSection h.tableID h.sectionSyntaxIndicator h.privateBit sh d) := rfl

theorem secPre_length (t : Nat) (ssi priv : Bool) (body : Bytes) : (secPre t ssi priv body).length = 3 + body.length := by
  unfold secPre
  rw [List.length_append, enc_length _ (by fw)]
  simp [swapFields, fieldsWidth, Spec.bit]

/-- **the expected value of the generators is `delivered`**: `Gen.mkSection` (which computes `sectionLength` and
`crc32` from the reference bytes) yields exactly the pair (delivered section, reference bytes) -/
theorem mkSection_eq (t : Nat) (priv : Bool) (sh : Option PSISectionSyntaxHeader) (d : PSISectionSyntaxData) :
    mkSection t priv sh d = (delivered t sh.isSome priv sh d (sectionBody t sh d), Spec.sectionEncode (siSection t sh.isSome priv sh d)) := by
  have hb : Spec.sectionEncode (siSection t sh.isSome priv sh d)
      = secPre t sh.isSome priv (sectionBody t sh d) ++ be32 (computeCRC32 (secPre t sh.isSome priv (sectionBody t sh d))) := by
    rw [sectionEncode_si, mkSec_eq]
  have hl := secPre_length t sh.isSome priv (sectionBody t sh d)
  have hs0 : Spec.sectionEncode ({ header := some { privateBit := priv, sectionSyntaxIndicator := sh.isSome, tableID := t, tableType := tableType t }, syn := some { data := some d, header := sh } } : PSISection)
      = Spec.sectionEncode (siSection t sh.isSome priv sh d) := rfl
  unfold mkSection
  simp only [hs0]
  rw [hb]
  unfold delivered deliveredHeader
  generalize secPre t sh.isSome priv (sectionBody t sh d) = pre at *
  have h1 : (pre ++ be32 (computeCRC32 pre)).length - 3 = (sectionBody t sh d).length + 4 := by
    simp [PSIRT.be32_length, hl]; omega
  have h2 : (pre ++ be32 (computeCRC32 pre)).drop ((pre ++ be32 (computeCRC32 pre)).length - 4) = be32 (computeCRC32 pre) := by
    have : (pre ++ be32 (computeCRC32 pre)).length - 4 = pre.length := by simp [PSIRT.be32_length]
    rw [this, List.drop_left]
  rw [h1, h2, PSIRT.beNat_be32, crc_eq_spec_all]

end Astits.SIRT
