/-
C13 helper (SI tables) — SDT (table ids 0x42, 0x46): original network id, services (service id, EIT flags, running
status, free CA mode, descriptor loop); transport stream id = table_id_extension.
-/
import Astits.Proofs.SIRT.Bodies
namespace Astits.SIRT
open Astits Astits.PacketRT Astits.DescRT

/-! ### bytes -/

theorem sdt_head_bytes (onid : Nat) (h : onid < 65536) :
    Spec.enc [(16, onid), (8, 0xff)] = [onid / 256, onid % 256, 0xff] := by
  rw [enc_eq_packFields _ (by fw)]
  simp only [swapFields, List.map, packFields, fieldsWidth, fieldsValue, beBytes]
  simp only [Nat.reducePow, Nat.pow_zero, Nat.div_one, Nat.pow_one]
  simp only [List.cons.injEq, and_true]
  refine ⟨?_, ?_, ?_⟩ <;> omega

/-- third byte of a service entry: reserved(6) EIT_schedule_flag EIT_present_following_flag -/
def sdtFlagByte (s : SDTDataService) : Nat := 252 + 2 * b2n s.hasEITSchedule + b2n s.hasEITPresentFollowing

/-- fourth byte: running_status(3) free_CA_mode(1) and the four high bits of descriptors_loop_length -/
def sdtStatusByte (s : SDTDataService) (len : Nat) : Nat := s.runningStatus * 32 + b2n s.hasFreeCSAMode * 16 + len / 256

theorem sdt_service_bytes (s : SDTDataService) (len : Nat) (h1 : s.serviceID < 65536) (h4 : s.runningStatus < 8) (h6 : len < 4096) :
    Spec.enc [(16, s.serviceID), (6, 0x3f), Spec.bit s.hasEITSchedule, Spec.bit s.hasEITPresentFollowing, (3, s.runningStatus),
       Spec.bit s.hasFreeCSAMode, (12, len)]
      = [s.serviceID / 256, s.serviceID % 256, sdtFlagByte s, sdtStatusByte s len, len % 256] := by
  rw [enc_eq_packFields _ (by fw)]
  have hsw : swapFields [(16, s.serviceID), (6, 0x3f), Spec.bit s.hasEITSchedule, Spec.bit s.hasEITPresentFollowing, (3, s.runningStatus),
       Spec.bit s.hasFreeCSAMode, (12, len)]
      = [(s.serviceID, 16), (0x3f, 6), (b2n s.hasEITSchedule, 1), (b2n s.hasEITPresentFollowing, 1), (s.runningStatus, 3),
         (b2n s.hasFreeCSAMode, 1), (len, 12)] := by
    cases s.hasEITSchedule <;> cases s.hasEITPresentFollowing <;> cases s.hasFreeCSAMode <;> rfl
  rw [hsw]
  have hb1 := b2n_le s.hasEITSchedule
  have hb2 := b2n_le s.hasEITPresentFollowing
  have hb3 := b2n_le s.hasFreeCSAMode
  simp only [packFields, fieldsWidth, fieldsValue, beBytes, sdtFlagByte, sdtStatusByte]
  simp only [Nat.reducePow, Nat.pow_zero, Nat.div_one, Nat.pow_one]
  simp only [List.cons.injEq, and_true]
  refine ⟨?_, ?_, ?_, ?_, ?_⟩ <;> omega

/-! ### one service -/

structure SDTServiceOk (enc : Descriptor → Bytes) (s : SDTDataService) : Prop where
  serviceID : s.serviceID < 65536
  runningStatus : s.runningStatus < 8
  descs : ∀ x ∈ s.descriptors, EncRT enc x
  fits : (descsE enc s.descriptors).length < 4096

def sdtServiceParser : P SDTDataService := do
  let bs ← It.nextBytes 2
  let b ← It.nextByte
  let c ← It.nextByte
  It.skip (-1)
  let ds ← parseDescriptors
  pure ({ descriptors := ds, hasEITPresentFollowing := b % 2 = 1, hasEITSchedule := b / 2 % 2 = 1,
          hasFreeCSAMode := c / 16 % 2 = 1, runningStatus := c / 32, serviceID := u16 bs } : SDTDataService)

theorem sdtServiceE_length (enc : Descriptor → Bytes) (s : SDTDataService) :
    (sdtServiceE enc s).length = 5 + (descsE enc s.descriptors).length := by
  unfold sdtServiceE
  rw [List.length_append, enc_length _ (by fw)]
  simp [swapFields, fieldsWidth, Spec.bit]

theorem sdtService_at (enc : Descriptor → Bytes) (hpos : EncPos enc) (s : SDTDataService) (ok : SDTServiceOk enc s) (pre : Bytes) :
    ParsesAt pre sdtServiceParser (sdtServiceE enc s) s := by
  unfold sdtServiceParser sdtServiceE
  rw [sdt_service_bytes s _ ok.serviceID ok.runningStatus ok.fits]
  have hsplit : [s.serviceID / 256, s.serviceID % 256, sdtFlagByte s, sdtStatusByte s (descsE enc s.descriptors).length,
        (descsE enc s.descriptors).length % 256] ++ descsE enc s.descriptors
      = [s.serviceID / 256, s.serviceID % 256] ++ ([sdtFlagByte s] ++
          (sdtStatusByte s (descsE enc s.descriptors).length :: (descsE enc s.descriptors).length % 256 :: descsE enc s.descriptors)) := rfl
  rw [hsplit]
  refine ParsesAt.bind (nextBytes_at _ _ 2 rfl) ?_
  refine ParsesAt.bind (nextByte_at _ _) ?_
  refine peek_bind _ _ _ _ _ ?_
  have h1 := ok.serviceID
  have h4 := ok.runningStatus
  have h6 := ok.fits
  have hb1 := b2n_le s.hasEITSchedule
  have hb2 := b2n_le s.hasEITPresentFollowing
  have hb3 := b2n_le s.hasFreeCSAMode
  refine ParsesAt.bind_last (parseDescriptors_enc enc hpos s.descriptors ok.descs _ _ ?_ _) ?_
  · unfold sdtStatusByte; omega
  · refine ParsesAt.congr_val (ParsesAt.pure _ _) ?_
    have e1 : sdtFlagByte s % 2 = b2n s.hasEITPresentFollowing := by simp only [sdtFlagByte]; omega
    have e2 : sdtFlagByte s / 2 % 2 = b2n s.hasEITSchedule := by simp only [sdtFlagByte]; omega
    have e3 : sdtStatusByte s (descsE enc s.descriptors).length / 16 % 2 = b2n s.hasFreeCSAMode := by
      simp only [sdtStatusByte]; omega
    have e4 : sdtStatusByte s (descsE enc s.descriptors).length / 32 = s.runningStatus := by simp only [sdtStatusByte]; omega
    have e5 : u16 [s.serviceID / 256, s.serviceID % 256] = s.serviceID := by
      simp only [u16, List.getD_cons_zero, List.getD_cons_succ]; omega
    rw [e1, e2, e3, e4, e5]
    simp only [decide_b2n]

/-! ### the table body -/

structure SDTOk (enc : Descriptor → Bytes) (d : SDTData) : Prop where
  originalNetworkID : d.originalNetworkID < 65536
  services : ∀ s ∈ d.services, SDTServiceOk enc s
  /-- the section fits its 12-bit section_length: syntax header 5 + 3 + services + CRC 4 -/
  fits : 12 + ((d.services.map (sdtServiceE enc)).flatten).length < 4096

theorem sdtBodyE_length (enc : Descriptor → Bytes) (d : SDTData) :
    (sdtBodyE enc d).length = 3 + ((d.services.map (sdtServiceE enc)).flatten).length := by
  unfold sdtBodyE
  rw [List.length_append, enc_length _ (by fw)]
  simp [swapFields, fieldsWidth]

theorem parseSDTSection_eq (e : Int) (ext : Nat) : parseSDTSection e ext = (do
    let bs ← It.nextBytes 2
    let onid := u16 bs
    It.skip 1
    let fuel ← fuelOf
    let ss ← loopUntil fuel e sdtServiceParser
    return { originalNetworkID := onid, services := ss, transportStreamID := ext }) := rfl

theorem parseSDTSection_at (enc : Descriptor → Bytes) (hpos : EncPos enc) (d : SDTData) (ext : Nat) (ok : SDTOk enc d) (pre : Bytes) :
    ParsesAt pre (parseSDTSection ((pre.length : Int) + (((sdtBodyE enc d).length : Nat) : Int)) ext) (sdtBodyE enc d)
      { d with transportStreamID := ext } := by
  rw [parseSDTSection_eq, sdtBodyE_length]
  unfold sdtBodyE
  rw [sdt_head_bytes _ ok.originalNetworkID]
  have hsplit : [d.originalNetworkID / 256, d.originalNetworkID % 256, 0xff] ++ (d.services.map (sdtServiceE enc)).flatten
      = [d.originalNetworkID / 256, d.originalNetworkID % 256] ++ ([0xff] ++ ((d.services.map (sdtServiceE enc)).flatten ++ [])) := by simp
  rw [hsplit]
  refine ParsesAt.bind (nextBytes_at _ _ 2 rfl) ?_
  refine ParsesAt.bind (skip_at _ [0xff] 1 rfl) ?_
  refine fueled_loopUntil_bind sdtServiceParser (sdtServiceE enc) (SDTServiceOk enc)
    (fun s hs pre => sdtService_at enc hpos s hs pre) (fun s _ => by rw [sdtServiceE_length]; omega)
    d.services _ _ ok.services ?_ _ [] _ ?_
  · simp only [List.length_append, List.length_cons, List.length_nil]; omega
  · refine ParsesAt.congr_val (ParsesAt.pure _ _) ?_
    have h := ok.originalNetworkID
    have e5 : u16 [d.originalNetworkID / 256, d.originalNetworkID % 256] = d.originalNetworkID := by
      simp only [u16, List.getD_cons_zero, List.getD_cons_succ]; omega
    rw [e5]

theorem syntaxData_sdt (t : Nat) (ht : t = 0x42 ∨ t = 0x46) (sh : PSISectionSyntaxHeader) (endOff : Int) (i j : It) (x : SDTData)
    (h : parseSDTSection endOff sh.tableIDExtension i = .ok (x, j)) :
    parsePSISectionSyntaxData t (some sh) endOff i = .ok ({ sdt := some x }, j) := by
  unfold parsePSISectionSyntaxData
  rcases ht with rfl | rfl
  · simp [isEIT]
    rw [PSIRT.P.bind_of_ok (a := ({ sdt := some x } : PSISectionSyntaxData)) (i' := j) (by rw [PSIRT.P.bind_of_ok h]; rfl)]
    rfl
  · simp [isEIT]
    rw [PSIRT.P.bind_of_ok (a := ({ sdt := some x } : PSISectionSyntaxData)) (i' := j) (by rw [PSIRT.P.bind_of_ok h]; rfl)]
    rfl

theorem sdt_secAt (enc : Descriptor → Bytes) (hpos : EncPos enc) (t : Nat) (ht : t = 0x42 ∨ t = 0x46) (ssi priv : Bool)
    (sh : PSISectionSyntaxHeader) (hsh : PSIRT.SyntaxHeaderOk sh) (d : SDTData) (ok : SDTOk enc d) :
    SecAt (Spec.mkSec t ssi priv (Spec.syntaxHeader sh ++ sdtBodyE enc d) true,
      delivered t ssi priv (some sh) { sdt := some { d with transportStreamID := sh.tableIDExtension } }
        (Spec.syntaxHeader sh ++ sdtBodyE enc d)) := by
  have h256 : t < 256 := by rcases ht with rfl | rfl <;> decide
  have hstop : shouldStopPSIParsing t = false := by rcases ht with rfl | rfl <;> decide
  have hcrc : hasCRC32 t = true := by rcases ht with rfl | rfl <;> decide
  have hsyn : hasPSISyntaxHeader t = true := by rcases ht with rfl | rfl <;> decide
  refine mkSec_secAt t ssi priv (some sh) (Spec.syntaxHeader sh) (sdtBodyE enc d) _ h256 hstop hcrc
    (by rw [syntaxHeader_length, sdtBodyE_length]; have := ok.fits; omega)
    (optHeader_some t hsyn sh hsh) ?_
  intro bs off r hat
  exact syntaxData_sdt t ht sh _ _ _ _
    (ParsesAt.to_at_off (p := fun o => parseSDTSection (o + (((sdtBodyE enc d).length : Nat) : Int)) sh.tableIDExtension)
      (fun pre => parseSDTSection_at enc hpos d sh.tableIDExtension ok pre) bs off r hat)

theorem sectionBodyE_sdt (enc : Descriptor → Bytes) (t : Nat) (ht : t = 0x42 ∨ t = 0x46) (sh : PSISectionSyntaxHeader) (d : SDTData) :
    sectionBodyE enc t (some sh) { sdt := some d } = Spec.syntaxHeader sh ++ sdtBodyE enc d := by
  rcases ht with rfl | rfl <;> rfl

/-- SDT, generic in the per-descriptor encoder: the whole PSI unit -/
theorem sdt_parse_enc (enc : Descriptor → Bytes) (hpos : EncPos enc) (ptr stuffing : Nat) (t : Nat) (ht : t = 0x42 ∨ t = 0x46)
    (ssi priv : Bool) (sh : PSISectionSyntaxHeader) (hsh : PSIRT.SyntaxHeaderOk sh) (d : SDTData) (ok : SDTOk enc d) :
    parsePSIData ⟨Spec.unitEncode ptr [sectionEncodeE enc t ssi priv (some sh) { sdt := some d }] stuffing, 0⟩ =
      .ok ({ pointerField := (ptr : Int),
             sections := delivered t ssi priv (some sh) { sdt := some { d with transportStreamID := sh.tableIDExtension } }
               (Spec.syntaxHeader sh ++ sdtBodyE enc d) :: stopSections stuffing },
        ⟨Spec.unitEncode ptr [sectionEncodeE enc t ssi priv (some sh) { sdt := some d }] stuffing,
          ((1 + ptr + (sectionEncodeE enc t ssi priv (some sh) { sdt := some d }).length + stopBytes stuffing : Nat) : Int)⟩) := by
  have h := sdt_secAt enc hpos t ht ssi priv sh hsh d ok
  refine parsePSIData_single ptr stuffing _ _ ?_
  unfold sectionEncodeE
  rw [sectionBodyE_sdt enc t ht sh d]
  exact h

end Astits.SIRT
