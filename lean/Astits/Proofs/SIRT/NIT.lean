/-
C13 helper (SI tables) — NIT (table ids 0x40, 0x41): network descriptors, transport stream loop (transport stream
id, original network id, transport descriptors); network id = table_id_extension.
-/
import Astits.Proofs.SIRT.SpecDesc
namespace Astits.SIRT
open Astits Astits.PacketRT Astits.DescRT

theorem enc_u16_u16 (a b : Nat) : Spec.enc [(16, a), (16, b)] = wU16 a ++ wU16 b := by
  have := enc_append [(16, a)] [(16, b)] (by fw)
  simp only [List.cons_append, List.nil_append] at this
  rw [this, enc_u16, enc_u16]

theorem u16_wU16 (v : Nat) (h : v < 65536) : u16 (wU16 v) = v := by
  rw [wU16_bytes v h]
  simp only [u16, List.getD_cons_zero, List.getD_cons_succ]
  omega

/-! ### one transport stream -/

structure NITTSOk (enc : Descriptor → Bytes) (t : NITDataTransportStream) : Prop where
  transportStreamID : t.transportStreamID < 65536
  originalNetworkID : t.originalNetworkID < 65536
  descs : ∀ x ∈ t.transportDescriptors, EncRT enc x
  fits : (descsE enc t.transportDescriptors).length < 4096

def nitTSParser : P NITDataTransportStream := do
  let a ← It.nextBytes 2
  let b ← It.nextBytes 2
  let ds ← parseDescriptors
  pure ({ originalNetworkID := u16 b, transportDescriptors := ds, transportStreamID := u16 a } : NITDataTransportStream)

theorem nitTSE_length (enc : Descriptor → Bytes) (t : NITDataTransportStream) :
    (nitTSE enc t).length = 6 + (descsE enc t.transportDescriptors).length := by
  unfold nitTSE
  rw [List.length_append, enc_u16_u16, descLoopE_length]
  simp; omega

theorem nitTS_at (enc : Descriptor → Bytes) (hpos : EncPos enc) (t : NITDataTransportStream) (ok : NITTSOk enc t) (pre : Bytes) :
    ParsesAt pre nitTSParser (nitTSE enc t) t := by
  unfold nitTSParser nitTSE
  rw [enc_u16_u16, List.append_assoc]
  refine ParsesAt.bind (nextBytes_at _ _ 2 rfl) ?_
  refine ParsesAt.bind (nextBytes_at _ _ 2 rfl) ?_
  refine ParsesAt.bind_last (descLoopE_at enc hpos _ ok.descs ok.fits _) ?_
  refine ParsesAt.congr_val (ParsesAt.pure _ _) ?_
  rw [u16_wU16 _ ok.transportStreamID, u16_wU16 _ ok.originalNetworkID]

/-! ### the table body -/

structure NITOk (enc : Descriptor → Bytes) (d : NITData) : Prop where
  networkDescs : ∀ x ∈ d.networkDescriptors, EncRT enc x
  networkFits : (descsE enc d.networkDescriptors).length < 4096
  streams : ∀ t ∈ d.transportStreams, NITTSOk enc t
  loopFits : (nitTSLoopE enc d).length < 4096
  /-- the section fits its 12-bit section_length: syntax header 5 + 2 + network descriptors + 2 + loop + CRC 4 -/
  fits : 13 + (descsE enc d.networkDescriptors).length + (nitTSLoopE enc d).length < 4096

theorem nitBodyE_length (enc : Descriptor → Bytes) (d : NITData) :
    (nitBodyE enc d).length = 4 + (descsE enc d.networkDescriptors).length + (nitTSLoopE enc d).length := by
  unfold nitBodyE
  rw [List.length_append, List.length_append, descLoopE_length, enc_length _ (by fw)]
  simp [swapFields, fieldsWidth]; omega

theorem parseNITSection_eq (ext : Nat) : parseNITSection ext = (do
    let nd ← parseDescriptors
    let bs ← It.nextBytes 2
    let l := (bs.getD 0 0 % 16) * 256 + bs.getD 1 0
    let off ← It.offset
    let fuel ← fuelOf
    let ts ← loopUntil fuel (off + l) nitTSParser
    return { networkDescriptors := nd, networkID := ext, transportStreams := ts }) := rfl

theorem parseNITSection_at (enc : Descriptor → Bytes) (hpos : EncPos enc) (d : NITData) (ext : Nat) (ok : NITOk enc d) (pre : Bytes) :
    ParsesAt pre (parseNITSection ext) (nitBodyE enc d) { d with networkID := ext } := by
  rw [parseNITSection_eq]
  unfold nitBodyE
  rw [nibble_len_bytes 15 _ (by decide) ok.loopFits, List.append_assoc]
  refine ParsesAt.bind (descLoopE_at enc hpos _ ok.networkDescs ok.networkFits _) ?_
  refine ParsesAt.bind (nextBytes_at _ _ 2 rfl) ?_
  simp only [List.getD_cons_zero, List.getD_cons_succ]
  refine ParsesAt.bind_first (offset_at _) ?_
  have hl := ok.loopFits
  have hr : nitTSLoopE enc d = (d.transportStreams.map (nitTSE enc)).flatten ++ [] := by simp [nitTSLoopE]
  rw [hr]
  refine fueled_loopUntil_bind nitTSParser (nitTSE enc) (NITTSOk enc)
    (fun t ht pre => nitTS_at enc hpos t ht pre) (fun t _ => by rw [nitTSE_length]; omega)
    d.transportStreams _ _ ok.streams ?_ _ [] _ (ParsesAt.pure _ _)
  simp only [List.append_nil]
  unfold nitTSLoopE at hl
  omega

theorem syntaxData_nit (t : Nat) (ht : t = 0x40 ∨ t = 0x41) (sh : PSISectionSyntaxHeader) (endOff : Int) (i j : It) (x : NITData)
    (h : parseNITSection sh.tableIDExtension i = .ok (x, j)) :
    parsePSISectionSyntaxData t (some sh) endOff i = .ok ({ nit := some x }, j) := by
  unfold parsePSISectionSyntaxData
  rcases ht with rfl | rfl
  · simp [isEIT]
    rw [PSIRT.P.bind_of_ok (a := ({ nit := some x } : PSISectionSyntaxData)) (i' := j) (by rw [PSIRT.P.bind_of_ok h]; rfl)]
    rfl
  · simp [isEIT]
    rw [PSIRT.P.bind_of_ok (a := ({ nit := some x } : PSISectionSyntaxData)) (i' := j) (by rw [PSIRT.P.bind_of_ok h]; rfl)]
    rfl

theorem nit_secAt (enc : Descriptor → Bytes) (hpos : EncPos enc) (t : Nat) (ht : t = 0x40 ∨ t = 0x41) (ssi priv : Bool)
    (sh : PSISectionSyntaxHeader) (hsh : PSIRT.SyntaxHeaderOk sh) (d : NITData) (ok : NITOk enc d) :
    SecAt (Spec.mkSec t ssi priv (Spec.syntaxHeader sh ++ nitBodyE enc d) true,
      delivered t ssi priv (some sh) { nit := some { d with networkID := sh.tableIDExtension } }
        (Spec.syntaxHeader sh ++ nitBodyE enc d)) := by
  have h256 : t < 256 := by rcases ht with rfl | rfl <;> decide
  have hstop : shouldStopPSIParsing t = false := by rcases ht with rfl | rfl <;> decide
  have hcrc : hasCRC32 t = true := by rcases ht with rfl | rfl <;> decide
  have hsyn : hasPSISyntaxHeader t = true := by rcases ht with rfl | rfl <;> decide
  refine mkSec_secAt t ssi priv (some sh) (Spec.syntaxHeader sh) (nitBodyE enc d) _ h256 hstop hcrc
    (by rw [syntaxHeader_length, nitBodyE_length]; have := ok.fits; omega)
    (optHeader_some t hsyn sh hsh) ?_
  intro bs off r hat
  exact syntaxData_nit t ht sh _ _ _ _
    (ParsesAt.to_at (fun pre => parseNITSection_at enc hpos d sh.tableIDExtension ok pre) bs off r hat)

theorem sectionBodyE_nit (enc : Descriptor → Bytes) (t : Nat) (ht : t = 0x40 ∨ t = 0x41) (sh : PSISectionSyntaxHeader) (d : NITData) :
    sectionBodyE enc t (some sh) { nit := some d } = Spec.syntaxHeader sh ++ nitBodyE enc d := by
  rcases ht with rfl | rfl <;> rfl

/-- NIT, generic in the per-descriptor encoder: the whole PSI unit -/
theorem nit_parse_enc (enc : Descriptor → Bytes) (hpos : EncPos enc) (ptr stuffing : Nat) (t : Nat) (ht : t = 0x40 ∨ t = 0x41)
    (ssi priv : Bool) (sh : PSISectionSyntaxHeader) (hsh : PSIRT.SyntaxHeaderOk sh) (d : NITData) (ok : NITOk enc d) :
    parsePSIData ⟨Spec.unitEncode ptr [sectionEncodeE enc t ssi priv (some sh) { nit := some d }] stuffing, 0⟩ =
      .ok ({ pointerField := (ptr : Int),
             sections := delivered t ssi priv (some sh) { nit := some { d with networkID := sh.tableIDExtension } }
               (Spec.syntaxHeader sh ++ nitBodyE enc d) :: stopSections stuffing },
        ⟨Spec.unitEncode ptr [sectionEncodeE enc t ssi priv (some sh) { nit := some d }] stuffing,
          ((1 + ptr + (sectionEncodeE enc t ssi priv (some sh) { nit := some d }).length + stopBytes stuffing : Nat) : Int)⟩) := by
  have h := nit_secAt enc hpos t ht ssi priv sh hsh d ok
  refine parsePSIData_single ptr stuffing _ _ ?_
  unfold sectionEncodeE
  rw [sectionBodyE_nit enc t ht sh d]
  exact h

end Astits.SIRT
