/-
C13 helper (SI tables) — the reference table bodies of `Spec/PSI.lean` with the per-descriptor encoder as a parameter.
`Spec.sectionEncode` takes the descriptors' bytes from `writeDescriptors` (their own reference encoding is C14's);
`sectionEncodeE Spec.descEncode` is the fully independent variant: every byte comes from a syntax table of the standards.
-/
import Astits.Proofs.SIRT.Section
namespace Astits.SIRT
open Astits

def totBodyE (enc : Descriptor → Bytes) (d : TOTData) : Bytes := Spec.utcBytes d.utcTime ++ descLoopE enc d.descriptors

def sdtServiceE (enc : Descriptor → Bytes) (s : SDTDataService) : Bytes :=
  Spec.enc [(16, s.serviceID), (6, 0x3f), Spec.bit s.hasEITSchedule, Spec.bit s.hasEITPresentFollowing, (3, s.runningStatus),
       Spec.bit s.hasFreeCSAMode, (12, (descsE enc s.descriptors).length)] ++ descsE enc s.descriptors

def sdtBodyE (enc : Descriptor → Bytes) (d : SDTData) : Bytes :=
  Spec.enc [(16, d.originalNetworkID), (8, 0xff)] ++ (d.services.map (sdtServiceE enc)).flatten

def nitTSE (enc : Descriptor → Bytes) (t : NITDataTransportStream) : Bytes :=
  Spec.enc [(16, t.transportStreamID), (16, t.originalNetworkID)] ++ descLoopE enc t.transportDescriptors

def nitTSLoopE (enc : Descriptor → Bytes) (d : NITData) : Bytes := (d.transportStreams.map (nitTSE enc)).flatten

def nitBodyE (enc : Descriptor → Bytes) (d : NITData) : Bytes :=
  descLoopE enc d.networkDescriptors ++ Spec.enc [(4, 15), (12, (nitTSLoopE enc d).length)] ++ nitTSLoopE enc d

def eitEventE (enc : Descriptor → Bytes) (e : EITDataEvent) : Bytes :=
  Spec.enc [(16, e.eventID)] ++ Spec.utcBytes e.startTime ++ Spec.durationBytes e.duration
    ++ Spec.enc [(3, e.runningStatus), Spec.bit e.hasFreeCSAMode, (12, (descsE enc e.descriptors).length)] ++ descsE enc e.descriptors

def eitBodyE (enc : Descriptor → Bytes) (d : EITData) : Bytes :=
  Spec.enc [(16, d.transportStreamID), (16, d.originalNetworkID), (8, d.segmentLastSectionNumber), (8, d.lastTableID)]
  ++ (d.events.map (eitEventE enc)).flatten

theorem totBody_writer (d : TOTData) : Spec.totBody d = totBodyE writeDescriptor d := by
  unfold Spec.totBody totBodyE; rw [descLoopE_writer]

theorem sdtBody_writer (d : SDTData) : Spec.sdtBody d = sdtBodyE writeDescriptor d := by
  unfold Spec.sdtBody sdtBodyE
  congr 2
  apply List.map_congr_left
  intro s _
  simp only [sdtServiceE, descsE_writer]

theorem nitBody_writer (d : NITData) : Spec.nitBody d = nitBodyE writeDescriptor d := by
  unfold Spec.nitBody nitBodyE nitTSLoopE
  have : (fun t : NITDataTransportStream => Spec.enc [(16, t.transportStreamID), (16, t.originalNetworkID)] ++ Spec.descLoop t.transportDescriptors)
      = nitTSE writeDescriptor := by
    funext t; simp only [nitTSE, descLoopE_writer]
  simp only [this, descLoopE_writer]

theorem eitBody_writer (d : EITData) : Spec.eitBody d = eitBodyE writeDescriptor d := by
  unfold Spec.eitBody eitBodyE
  congr 2
  apply List.map_congr_left
  intro e _
  simp only [eitEventE, descsE_writer]

/-- `sectionBody` for the per-descriptor encoder `enc` (PAT has no descriptors; PMT is covered by the writer round
trip `pmt_roundtrip_typed` and keeps the reference body) -/
def sectionBodyE (enc : Descriptor → Bytes) (t : Nat) (sh : Option PSISectionSyntaxHeader) (d : PSISectionSyntaxData) : Bytes :=
  let shb := match sh with | some x => Spec.syntaxHeader x | none => []
  if t = 0 then shb ++ Spec.patBody (d.pat.getD {})
  else if t = 2 then shb ++ Spec.pmtBody (d.pmt.getD {})
  else if t = 0x42 ∨ t = 0x46 then shb ++ sdtBodyE enc (d.sdt.getD {})
  else if t = 0x40 ∨ t = 0x41 then shb ++ nitBodyE enc (d.nit.getD {})
  else if 0x4e ≤ t ∧ t ≤ 0x6f then shb ++ eitBodyE enc (d.eit.getD {})
  else totBodyE enc (d.tot.getD {})

theorem sectionBodyE_writer (t : Nat) (sh : Option PSISectionSyntaxHeader) (d : PSISectionSyntaxData) :
    sectionBodyE writeDescriptor t sh d = sectionBody t sh d := by
  unfold sectionBodyE sectionBody
  simp only [sdtBody_writer, nitBody_writer, eitBody_writer, totBody_writer]
  rfl

/-- `Spec.sectionEncode` with the descriptors encoded by `enc` -/
def sectionEncodeE (enc : Descriptor → Bytes) (t : Nat) (ssi priv : Bool) (sh : Option PSISectionSyntaxHeader)
    (d : PSISectionSyntaxData) : Bytes :=
  Spec.mkSec t ssi priv (sectionBodyE enc t sh d) true

theorem sectionEncodeE_writer (t : Nat) (ssi priv : Bool) (sh : Option PSISectionSyntaxHeader) (d : PSISectionSyntaxData) :
    sectionEncodeE writeDescriptor t ssi priv sh d = Spec.sectionEncode (siSection t ssi priv sh d) := by
  rw [sectionEncode_si, sectionEncodeE, sectionBodyE_writer]

end Astits.SIRT
