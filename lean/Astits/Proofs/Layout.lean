/-
Bit-layout round trips (C11, C12): pure arithmetic lemmas over literal powers of two, then lifted to the
model's structures.
-/
import Astits.Model.PES
namespace Astits

theorem decide_b2n (b : Bool) : decide (b2n b = 1) = b := by cases b <;> rfl
theorem b2n_mod2 (b : Bool) : b2n b % 2 = b2n b := by cases b <;> rfl

/-- value of the three TS header bytes in terms of the fields -/
theorem hdr_value (tei pusi tp pid tsc af pl cc : Nat) (h1 : tei ≤ 1) (h2 : pusi ≤ 1) (h3 : tp ≤ 1) (h4 : pid < 8192)
    (h5 : tsc < 4) (h6 : af ≤ 1) (h7 : pl ≤ 1) (h8 : cc < 16) :
    let v := (((((((0 * 2 + tei % 2) * 2 + pusi % 2) * 2 + tp % 2) * 8192 + pid % 8192) * 4 + tsc % 4) * 2 + af % 2) * 2 + pl % 2) * 16 + cc % 16
    let b0 := v / 65536 % 256; let b1 := v / 256 % 256; let b2 := v % 256
    b2 % 16 = cc ∧ b2 / 32 % 2 = af ∧ b2 / 16 % 2 = pl ∧ b0 / 64 % 2 = pusi ∧ (b0 % 32) * 256 + b1 = pid ∧
    b0 / 128 % 2 = tei ∧ b0 / 32 % 2 = tp ∧ b2 / 64 % 4 = tsc := by
  intro v b0 b1 b2
  refine ⟨?_, ?_, ?_, ?_, ?_, ?_, ?_, ?_⟩ <;> omega

theorem header_roundtrip (h : PacketHeader) (hpid : h.pid < 8192) (htsc : h.transportScramblingControl < 4)
    (hcc : h.continuityCounter < 16) :
    headerOfBytes ((hdrBytes h).getD 0 0) ((hdrBytes h).getD 1 0) ((hdrBytes h).getD 2 0) = h := by
  obtain ⟨cc, af, pl, pusi, pid, tei, tp, tsc⟩ := h
  simp only at hpid htsc hcc
  have := hdr_value (b2n tei) (b2n pusi) (b2n tp) pid tsc (b2n af) (b2n pl) cc (b2n_le _) (b2n_le _) (b2n_le _) hpid htsc
    (b2n_le _) (b2n_le _) hcc
  simp only [hdrBytes, packFields, fieldsValue, fieldsWidth, beBytes, List.getD_cons_zero, List.getD_cons_succ] at *
  simp only [Nat.reducePow, Nat.reduceAdd, Nat.reduceDiv, Nat.pow_zero, Nat.div_one, Nat.pow_one] at *
  obtain ⟨e1, e2, e3, e4, e5, e6, e7, e8⟩ := this
  unfold headerOfBytes
  simp only [PacketHeader.mk.injEq]
  refine ⟨?_, ?_, ?_, ?_, ?_, ?_, ?_, ?_⟩
  · exact e1
  · rw [e2]; exact decide_b2n af
  · rw [e3]; exact decide_b2n pl
  · rw [e4]; exact decide_b2n pusi
  · exact e5
  · rw [e6]; exact decide_b2n tei
  · rw [e7]; exact decide_b2n tp
  · exact e8

/-! ### big-endian bytes -/

theorem foldl_be (acc : Nat) (r : Bytes) :
    List.foldl (fun a b => a * 256 + b) acc r = acc * 256 ^ r.length + List.foldl (fun a b => a * 256 + b) 0 r := by
  induction r generalizing acc with
  | nil => simp
  | cons x r ih =>
    simp only [List.foldl_cons, List.length_cons]
    rw [ih (acc * 256 + x), ih (0 * 256 + x)]
    simp only [Nat.zero_mul, Nat.zero_add, Nat.pow_succ]
    rw [Nat.add_mul, Nat.mul_assoc, Nat.mul_comm 256 (256 ^ r.length), Nat.add_assoc]

theorem beBytes_length (n v : Nat) : (beBytes n v).length = n := by
  induction n with
  | zero => rfl
  | succ n ih => simp [beBytes, ih]

theorem beNat_cons (x : Nat) (r : Bytes) : beNat (x :: r) = x * 256 ^ r.length + beNat r := by
  unfold beNat
  simp only [List.foldl_cons, Nat.zero_mul, Nat.zero_add]
  exact foldl_be x r

theorem beNat_beBytes (n v : Nat) : beNat (beBytes n v) = v % 256 ^ n := by
  induction n with
  | zero => simp [beBytes, beNat, Nat.mod_one]
  | succ n ih =>
    rw [beBytes, beNat_cons, ih, beBytes_length, Nat.pow_succ, Nat.mod_mul]
    rw [Nat.mul_comm, Nat.add_comm]

/-- PCR: 33-bit base, 6 reserved bits, 9-bit extension — written then parsed gives the value back -/
theorem pcr_value (base ext : Nat) (hb : base < 8589934592) (he : ext < 512) :
    let v := ((0 * 8589934592 + base % 8589934592) * 64 + 63 % 64) * 512 + ext % 512
    v % 281474976710656 / 32768 = base ∧ v % 281474976710656 % 512 = ext := by
  intro v
  constructor <;> omega

theorem lowBits_nat (b n : Nat) : lowBits (b : Int) n = b % 2 ^ n := by
  unfold lowBits
  rw [← Int.natCast_emod]
  exact Int.toNat_natCast _

theorem pcr_roundtrip (base ext : Nat) (hb : base < 8589934592) (he : ext < 512) :
    pcrOfBytes (pcrBytes { base := base, extension := ext }) = { base := base, extension := ext } := by
  unfold pcrOfBytes pcrBytes packFields
  simp only [fieldsWidth, fieldsValue, lowBits_nat]
  rw [beNat_beBytes]
  simp only [Nat.reducePow, Nat.reduceAdd, Nat.reduceDiv]
  congr 1 <;> (apply congrArg; omega)

theorem lowBits_div_nat (b k n : Nat) : lowBits ((b : Int) / (k : Int)) n = b / k % 2 ^ n := by
  rw [← Int.natCast_ediv]; exact lowBits_nat _ _

theorem beBytes5 (v : Nat) : beBytes 5 v = [v / 4294967296 % 256, v / 16777216 % 256, v / 65536 % 256, v / 256 % 256, v % 256] := by
  simp [beBytes]
theorem pts_arith (f h m l V : Nat)
    (hV : V = ((((((0 * 16 + f % 16) * 8 + h % 8) * 2 + 1 % 2) * 32768 + m % 32768) * 2 + 1 % 2) * 32768 + l % 32768) * 2 + 1 % 2)
    (hh : h < 8) (hm : m < 32768) (hl : l < 32768) :
    (V / 4294967296 % 256 / 2 % 8) * 1073741824 + (V / 16777216 % 256) * 4194304 + (V / 65536 % 256 / 2 % 128) * 32768
      + (V / 256 % 256) * 128 + V % 256 / 2 % 128 = h * 1073741824 + m * 32768 + l := by
  omega
def ptsFormula (V : Nat) : Nat :=
  (V / 4294967296 % 256 / 2 % 8) * 1073741824 + (V / 16777216 % 256) * 4194304 + (V / 65536 % 256 / 2 % 128) * 32768
      + (V / 256 % 256) * 128 + V % 256 / 2 % 128
theorem ptsOfBytes_be5 (V : Nat) : ptsOfBytes (beBytes 5 V) = { base := (ptsFormula V : Nat), extension := 0 } := by
  simp [ptsOfBytes, beBytes5, ptsFormula]
def ptsValue (flag base : Nat) : Nat :=
  fieldsValue [(flag, 4), (base / 1073741824 % 8, 3), (1, 1), (base / 32768 % 32768, 15), (1, 1), (base % 32768, 15), (1, 1)] 0
theorem ptsBytes_eq (flag base : Nat) : ptsBytes flag { base := base, extension := 0 } = beBytes 5 (ptsValue flag base) := by
  have k1 : (1073741824 : Int) = ((1073741824 : Nat) : Int) := rfl
  have k2 : (32768 : Int) = ((32768 : Nat) : Int) := rfl
  simp only [ptsBytes, packFields, fieldsWidth, ptsValue, k1, k2, lowBits_div_nat, lowBits_nat]
theorem pts_roundtrip (flag base : Nat) (hb : base < 8589934592) :
    ptsOfBytes (ptsBytes flag { base := base, extension := 0 }) = { base := base, extension := 0 } := by
  rw [ptsBytes_eq, ptsOfBytes_be5]
  have key := pts_arith flag (base / 1073741824 % 8) (base / 32768 % 32768) (base % 32768) (ptsValue flag base)
    (by simp [ptsValue, fieldsValue]) (by omega) (by omega) (by omega)
  have hf : ptsFormula (ptsValue flag base) = base := by unfold ptsFormula; omega
  rw [hf]

theorem beBytes6 (v : Nat) : beBytes 6 v = [v / 1099511627776 % 256, v / 4294967296 % 256, v / 16777216 % 256, v / 65536 % 256, v / 256 % 256, v % 256] := by
  simp [beBytes]
theorem escr_bytes (h m l e V : Nat)
    (hV : V = ((((((((0 * 4 + 3 % 4) * 8 + h % 8) * 2 + 1 % 2) * 32768 + m % 32768) * 2 + 1 % 2) * 32768 + l % 32768) * 2 + 1 % 2) * 512 + e % 512) * 2 + 1 % 2)
    (hh : h < 8) (hm : m < 32768) (hl : l < 32768) (he : e < 512) :
    V / 1099511627776 % 256 = 192 + h * 8 + 4 + m / 8192 ∧ V / 4294967296 % 256 = m / 32 % 256 ∧
    V / 16777216 % 256 = (m % 32) * 8 + 4 + l / 8192 ∧ V / 65536 % 256 = l / 32 % 256 ∧
    V / 256 % 256 = (l % 32) * 8 + 4 + e / 128 ∧ V % 256 = (e % 128) * 2 + 1 := by
  refine ⟨?_, ?_, ?_, ?_, ?_, ?_⟩ <;> omega
def escrFormula (b0 b1 b2 b3 b4 b5 : Nat) : Nat :=
  (b0 / 8 % 8) * 549755813888 + (b0 % 4) * 137438953472 + b1 * 536870912 + (b2 / 8) * 16777216
    + (b2 % 4) * 4194304 + b3 * 16384 + (b4 / 8) * 512 + (b4 % 4) * 128 + b5 / 2
theorem escr_recombine (h m l e : Nat) (hh : h < 8) (hm : m < 32768) (hl : l < 32768) (he : e < 512) :
    escrFormula (192 + h * 8 + 4 + m / 8192) (m / 32 % 256) ((m % 32) * 8 + 4 + l / 8192) (l / 32 % 256)
      ((l % 32) * 8 + 4 + e / 128) ((e % 128) * 2 + 1) = (h * 1073741824 + m * 32768 + l) * 512 + e := by
  unfold escrFormula
  omega
def escrValue (base ext : Nat) : Nat :=
  fieldsValue [(3, 2), (base / 1073741824 % 8, 3), (1, 1), (base / 32768 % 32768, 15), (1, 1), (base % 32768, 15), (1, 1), (ext % 512, 9), (1, 1)] 0
theorem escrBytes_eq (base ext : Nat) : escrBytes { base := base, extension := ext } = beBytes 6 (escrValue base ext) := by
  have k1 : (1073741824 : Int) = ((1073741824 : Nat) : Int) := rfl
  have k2 : (32768 : Int) = ((32768 : Nat) : Int) := rfl
  simp only [escrBytes, packFields, fieldsWidth, escrValue, k1, k2, lowBits_div_nat, lowBits_nat, Nat.reducePow]
theorem escrOfBytes_be6 (V : Nat) : escrOfBytes (beBytes 6 V) =
    { base := (escrFormula (V / 1099511627776 % 256) (V / 4294967296 % 256) (V / 16777216 % 256) (V / 65536 % 256) (V / 256 % 256) (V % 256) / 512 : Nat),
      extension := (escrFormula (V / 1099511627776 % 256) (V / 4294967296 % 256) (V / 16777216 % 256) (V / 65536 % 256) (V / 256 % 256) (V % 256) % 512 : Nat) } := by
  unfold escrOfBytes escrFormula
  simp only [beBytes6, List.getD_cons_zero, List.getD_cons_succ]
theorem escrValue_eq (base ext : Nat) : escrValue base ext =
    ((((((((0 * 4 + 3 % 4) * 8 + base / 1073741824 % 8 % 8) * 2 + 1 % 2) * 32768 + base / 32768 % 32768 % 32768) * 2 + 1 % 2) * 32768 + base % 32768 % 32768) * 2 + 1 % 2) * 512 + ext % 512 % 512) * 2 + 1 % 2 := by
  simp [escrValue, fieldsValue]
theorem escr_roundtrip (base ext : Nat) (hb : base < 8589934592) (he : ext < 512) :
    escrOfBytes (escrBytes { base := base, extension := ext }) = { base := base, extension := ext } := by
  rw [escrBytes_eq, escrOfBytes_be6]
  have hbytes := escr_bytes (base / 1073741824 % 8) (base / 32768 % 32768) (base % 32768) (ext % 512) (escrValue base ext)
    (escrValue_eq base ext) (by omega) (by omega) (by omega) (by omega)
  obtain ⟨e0, e1, e2, e3, e4, e5⟩ := hbytes
  have hr := escr_recombine (base / 1073741824 % 8) (base / 32768 % 32768) (base % 32768) (ext % 512) (by omega) (by omega) (by omega) (by omega)
  rw [e0, e1, e2, e3, e4, e5, hr]
  clear e0 e1 e2 e3 e4 e5 hr
  congr 1 <;> (apply congrArg; omega)

end Astits
