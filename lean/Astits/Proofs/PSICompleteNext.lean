/-
C02 (PSI side), lifting to `Demux.nextData`: a group of a table PID that the accumulator flushes at its last
packet is returned by the `NextData` call that reads that packet — the reader stands right after it.
-/
import Astits.Proofs.PSIComplete
import Astits.Proofs.MuxDemuxNext
namespace Astits.PSIComplete
open MuxDemux

/-- `nextPacket_cons` with the reader position exposed -/
theorem nextPacket_cons_pos (d : Demux) (c : Bytes) (rest : List Bytes) (p : Packet) (h : Rep d (c :: rest))
    (hp : (parsePacket none).val c = .ok p) :
    ∃ d', d.nextPacket = (.ok p, d') ∧ Rep d' rest ∧ SameData d d' ∧ d'.r.data = d.r.data ∧ d'.r.pos = d.r.pos + 188 := by
  have hc := h.len c (by simp)
  have hd : d.r.data.drop d.r.pos = c ++ rest.flatten := by rw [h.data]; rfl
  have hdrop : d.r.data.drop (d.r.pos + 188) = rest.flatten := by
    rw [← List.drop_drop, hd, ← hc, List.drop_left']
    rfl
  rcases h.size with hs | ⟨hs, ho⟩
  · rw [nextPacket_some d hs, bufferNext_chunk d _ c rest.flatten p h.fault hd hc h.skipper hp]
    exact ⟨_, rfl, ⟨hdrop, fun x hx => h.len x (by simp [hx]), h.fault, h.skipper, h.parser, Or.inl hs⟩, ⟨rfl, rfl, rfl⟩, rfl, rfl⟩
  · rw [nextPacket_none d hs ho,
      bufferNext_chunk { d with packetSize := some 188 } _ c rest.flatten p h.fault hd hc h.skipper hp]
    exact ⟨_, rfl, ⟨hdrop, fun x hx => h.len x (by simp [hx]), h.fault, h.skipper, h.parser, Or.inl rfl⟩, ⟨rfl, rfl, rfl⟩, rfl, rfl⟩

/-- a packet of `pid` the pool accepts goes to that PID's accumulator -/
theorem poolAdd_on_pid (pm : ProgramMap) (pool : Pool) (p : Packet) (pid : Nat) (hpid : p.header.pid = pid)
    (hpay : p.header.hasPayload = true) (hte : p.header.transportErrorIndicator = false) :
    poolAdd pm pool p = ((accAdd pm pid (pool.get pid) p).1, pool.put pid (accAdd pm pid (pool.get pid) p).2) := by
  unfold poolAdd
  simp [hte, hpay, hpid]

/-- the packets `l` of `pid` are read and none of them makes the accumulator flush anything: the packet loop goes on
after them, having consumed exactly their chunks -/
theorem dataLoop_silent (pm : ProgramMap) (pid : Nat) :
    ∀ (l : List Packet) (cs : List Bytes) (rest : List Bytes) (d : Demux) (fuel : Nat),
      Rep d (cs ++ rest) → ParsesTo cs l → d.programMap = pm →
      (∀ p ∈ l, p.header.pid = pid ∧ PlainPayload p) →
      (accRun pm pid (d.pool.get pid) l).1 = List.replicate l.length [] →
      ∃ d1, d.dataLoop (fuel + l.length) = d1.dataLoop fuel ∧ Rep d1 rest ∧
        d1.pool.get pid = (accRun pm pid (d.pool.get pid) l).2 ∧ d1.programMap = pm ∧
        d1.dataBuffer = d.dataBuffer ∧ d1.r.data = d.r.data ∧ d1.r.pos = d.r.pos + 188 * l.length := by
  intro l
  induction l with
  | nil =>
    intro cs rest d fuel hrep hpt hpm _ _
    cases cs with
    | nil => exact ⟨d, rfl, hrep, rfl, hpm, rfl, rfl, rfl⟩
    | cons c cs => exact hpt.elim
  | cons p l ih =>
    intro cs rest d fuel hrep hpt hpm hon hrun
    cases cs with
    | nil => exact hpt.elim
    | cons c cs =>
      obtain ⟨hpc, hpt'⟩ := hpt
      obtain ⟨d', hnp, hrep', ⟨hpool, hpm', hbuf⟩, hdata, hpos⟩ := nextPacket_cons_pos d c (cs ++ rest) p hrep hpc
      obtain ⟨hpid, hplain⟩ := hon p (by simp)
      have hadd := poolAdd_on_pid pm d.pool p pid hpid hplain.1 hplain.2.1
      simp only [accRun, List.length_cons, List.replicate_succ, List.cons.injEq] at hrun
      obtain ⟨hfl, hrun'⟩ := hrun
      have e : fuel + (p :: l).length = (fuel + l.length) + 1 := by simp; omega
      rw [e, dataLoop_succ d _ (by rw [hnp]; exact hrep'.parser), hnp]
      simp only [hpm', hpm, hpool, hadd, hfl, List.isEmpty_nil, if_true]
      have hrep1 : Rep (withPool d' (d.pool.put pid (accAdd pm pid (d.pool.get pid) p).2)) (cs ++ rest) :=
        hrep'.transfer ⟨rfl, rfl, rfl, rfl, rfl⟩
      obtain ⟨d1, h1, h2, h3, h4, h5, h6, h7⟩ := ih cs rest _ fuel hrep1 hpt' (by show d'.programMap = pm; rw [hpm', hpm])
        (fun x hx => hon x (by simp [hx])) (by
          show (accRun pm pid ((d.pool.put pid (accAdd pm pid (d.pool.get pid) p).2).get pid) l).1 = _
          rw [Pool.get_put_same]; exact hrun')
      refine ⟨d1, h1, h2, ?_, h4, ?_, ?_, ?_⟩
      · rw [h3]
        show (accRun pm pid ((d.pool.put pid (accAdd pm pid (d.pool.get pid) p).2).get pid) l).2 = _
        rw [Pool.get_put_same]
        simp [accRun]
      · rw [h5]; exact hbuf
      · rw [h6]; exact hdata
      · rw [h7]
        show d'.r.pos + 188 * l.length = _
        rw [hpos]; simp; omega

/-- the packet that makes the accumulator flush the group `g`, which parses to `x :: xs`: the call returns `x`,
buffers `xs`, and has consumed exactly that packet's chunk -/
theorem dataLoop_flush (pm : ProgramMap) (pid : Nat) (p : Packet) (c : Bytes) (rest : List Bytes) (d : Demux) (fuel : Nat)
    (hrep : Rep d (c :: rest)) (hpc : (parsePacket none).val c = .ok p) (hpm : d.programMap = pm)
    (hpid : p.header.pid = pid) (hplain : PlainPayload p) (hbuf : d.dataBuffer = [])
    (g : List Packet) (hg : (accAdd pm pid (d.pool.get pid) p).1 = g) (hne : g ≠ [])
    (x : DemuxerData) (xs : List DemuxerData) (hparse : parseData g .none pm = .ok (x :: xs)) :
    ∃ d', d.dataLoop (fuel + 1) = (.ok x, d') ∧ Rep d' rest ∧ d'.dataBuffer = xs ∧
      d'.pool.get pid = (accAdd pm pid (d.pool.get pid) p).2 ∧ d'.r.data = d.r.data ∧ d'.r.pos = d.r.pos + 188 := by
  obtain ⟨d1, hnp, hrep', ⟨hpool, hpm', hbuf'⟩, hdata, hpos⟩ := nextPacket_cons_pos d c rest p hrep hpc
  have hadd := poolAdd_on_pid pm d.pool p pid hpid hplain.1 hplain.2.1
  rw [dataLoop_succ d _ (by rw [hnp]; exact hrep'.parser), hnp]
  have hge : g.isEmpty = false := by cases g with
    | nil => exact absurd rfl hne
    | cons _ _ => rfl
  simp only [hpm', hpm, hpool, hadd, hg, hge, Bool.false_eq_true, if_false, hparse]
  obtain ⟨u1, u2, u3, u4⟩ := updateData_cons (withPool d1 (d.pool.put pid (accAdd pm pid (d.pool.get pid) p).2)) x xs
  refine ⟨_, rfl, ?_, ?_, ?_, ?_, ?_⟩
  · exact (hrep'.transfer (d' := withPool d1 _) ⟨rfl, rfl, rfl, rfl, rfl⟩).transfer u2
  · rw [u4]
    show d1.dataBuffer ++ xs = xs
    rw [hbuf', hbuf]; rfl
  · rw [u3]
    show (d.pool.put pid _).get pid = _
    rw [Pool.get_put_same]
  · rw [u2.1]; exact hdata
  · rw [u2.1]; exact hpos

/-- **a group flushed at its last packet is returned by the call that reads that packet** -/
theorem nextData_group (pm : ProgramMap) (pid : Nat) (a : List Packet) (pk : Packet) (csA : List Bytes) (cK : Bytes)
    (rest : List Bytes) (d : Demux) (hrep : Rep d (csA ++ cK :: rest)) (hpa : ParsesTo csA a)
    (hpk : (parsePacket none).val cK = .ok pk) (hpm : d.programMap = pm) (hbuf : d.dataBuffer = [])
    (hon : ∀ p ∈ a ++ [pk], p.header.pid = pid ∧ PlainPayload p)
    (g q' : List Packet) (hne : g ≠ [])
    (hrun : accRun pm pid (d.pool.get pid) (a ++ [pk]) = (List.replicate a.length [] ++ [g], q'))
    (x : DemuxerData) (xs : List DemuxerData) (hparse : parseData g .none pm = .ok (x :: xs)) :
    ∃ d', d.nextData = (.ok x, d') ∧ Rep d' rest ∧ d'.dataBuffer = xs ∧ d'.pool.get pid = q' ∧
      d'.r.data = d.r.data ∧ d'.r.pos = d.r.pos + 188 * (a.length + 1) := by
  rw [accRun_append] at hrun
  simp only [Prod.mk.injEq] at hrun
  obtain ⟨hr1, hr2⟩ := hrun
  have hr1a : (accRun pm pid (d.pool.get pid) a).1 = List.replicate a.length [] := by
    have := congrArg (List.take a.length) hr1
    have hl : (accRun pm pid (d.pool.get pid) a).1.length = a.length := by
      clear hr1 hr2 this hrep hpa hon
      generalize d.pool.get pid = q
      induction a generalizing q with
      | nil => rfl
      | cons p r ih => simp [accRun, ih]
    rw [List.take_left' hl, List.take_left' (by simp)] at this
    exact this
  have hr1b : (accAdd pm pid (accRun pm pid (d.pool.get pid) a).2 pk).1 = g := by
    rw [hr1a] at hr1
    have := List.append_cancel_left hr1
    simpa [accRun] using this
  have hr2' : (accAdd pm pid (accRun pm pid (d.pool.get pid) a).2 pk).2 = q' := by simpa [accRun] using hr2
  -- fuel
  have hfuel : ∃ f, d.r.data.length + 2 = f + 1 + a.length := by
    have h1 := length_le_flatten188 _ hrep.len
    have h2 : (csA ++ cK :: rest).flatten.length ≤ d.r.data.length := by
      rw [← hrep.data, List.length_drop]; omega
    have h3 : csA.length = a.length := by
      clear hrep h1 h2 hr1 hr2 hr1a hr1b hr2' hon
      induction csA generalizing a with
      | nil => cases a with
        | nil => rfl
        | cons _ _ => exact hpa.elim
      | cons c cs ih => cases a with
        | nil => exact hpa.elim
        | cons p r => simp [ih r hpa.2]
    simp only [List.length_append, List.length_cons] at h1
    exact ⟨d.r.data.length + 2 - 1 - a.length, by omega⟩
  obtain ⟨f, hf⟩ := hfuel
  unfold Demux.nextData
  simp only [hbuf, hf]
  have hrep0 : Rep d (csA ++ (cK :: rest)) := hrep
  obtain ⟨d1, h1, h2, h3, h4, h5, h6, h7⟩ := dataLoop_silent pm pid a csA (cK :: rest) d (f + 1) hrep0 hpa hpm
    (fun p hp => hon p (by simp [hp])) hr1a
  rw [h1]
  obtain ⟨hpidk, hplaink⟩ := hon pk (by simp)
  obtain ⟨d', e1, e2, e3, e4, e5, e6⟩ := dataLoop_flush pm pid pk cK rest d1 f h2 hpk h4 hpidk hplaink (by rw [h5, hbuf])
    g (by rw [h3]; exact hr1b) hne x xs hparse
  refine ⟨d', e1, e2, e3, ?_, ?_, ?_⟩
  · rw [e4, h3]; exact hr2'
  · rw [e5, h6]
  · rw [e6, h7]; omega

/-- the following calls hand out the buffered data without touching the reader or the pool -/
theorem nextData_buffered (d : Demux) (x : DemuxerData) (xs : List DemuxerData) (h : d.dataBuffer = x :: xs) :
    d.nextData = (.ok x, { d with dataBuffer := xs }) := by
  unfold Demux.nextData
  rw [h]

theorem continues_plain (prev : Nat) (r : List Packet) (h : Continues prev r) : ∀ p ∈ r, PlainPayload p := by
  induction r generalizing prev with
  | nil => intro p hp; cases hp
  | cons y r ih =>
    obtain ⟨hy, _, _, hr⟩ := h
    intro p hp
    rcases List.mem_cons.mp hp with rfl | hp'
    · exact hy
    · exact ih _ hr p hp'

theorem unitOK_plain (u : UnitPk) (h : UnitOK u) : ∀ p ∈ u.packets, PlainPayload p := by
  obtain ⟨h1, _, h3⟩ := h
  intro p hp
  rcases List.mem_cons.mp hp with rfl | hp'
  · exact h1
  · exact continues_plain _ _ h3 p hp'

/-- **E3 lifted to `NextData`**: a PAT/PMT unit written by `writePSIData` and cut at conformant points, arriving on a
table PID whose queue is empty: the call that reads the packet carrying the last section byte returns the first
section's data; the reader stands right after that packet; the other sections' data are buffered -/
theorem written_unit_nextData (pid : Nat) (d : Demux) (htab : (pid == 0 || d.programMap.has pid) = true) (hcat : pid ≠ 1)
    (u : UnitPk) (hu : UnitOK u) (hon : ∀ p ∈ u.packets, p.header.pid = pid)
    (a : List Packet) (pk : Packet) (b : List Packet) (hsplit : u.packets = a ++ [pk] ++ b)
    (pf : Nat) (ss ss' : List PSISection) (stuffing : Bytes)
    (W : WrittenUnit (concatPayload u.packets) pf ss ss' stuffing)
    (hbefore : (concatPayload a).length < 1 + pf + ((ss.map secBytes).flatten).length)
    (hat : 1 + pf + ((ss.map secBytes).flatten).length ≤ (concatPayload (a ++ [pk])).length)
    (hcut : ConformantCut a pf (ss.map secBytes))
    (csA : List Bytes) (cK : Bytes) (rest : List Bytes) (hrep : Rep d (csA ++ cK :: rest)) (hpa : ParsesTo csA a)
    (hpk : (parsePacket none).val cK = .ok pk) (hbuf : d.dataBuffer = []) (hq : d.pool.get pid = [])
    (x : DemuxerData) (xs : List DemuxerData)
    (hds : psiToData { pointerField := (pf : Int), sections := ss' } (firstOf u.packets) pid = x :: xs) :
    ∃ d', d.nextData = (.ok x, d') ∧ Rep d' rest ∧ d'.r.data = d.r.data ∧ d'.r.pos = d.r.pos + 188 * (a.length + 1) ∧
      d'.dataBuffer = xs ∧ d'.pool.get pid = [] := by
  obtain ⟨hrun, hparse⟩ := written_unit_delivered d.programMap pid htab hcat [] u hu (Or.inl rfl)
    (hon u.first (by simp [UnitPk.packets])) a pk b hsplit pf ss ss' stuffing W hbefore hat hcut
  have hplain := unitOK_plain u hu
  have hon' : ∀ p ∈ a ++ [pk], p.header.pid = pid ∧ PlainPayload p := by
    intro p hp
    have : p ∈ u.packets := by rw [hsplit]; exact List.mem_append_left _ hp
    exact ⟨hon p this, hplain p this⟩
  have hfl : (if a = [] then [] else ([] : List Packet) :: List.replicate (a.length - 1) []) = List.replicate a.length [] := by
    cases a with
    | nil => rfl
    | cons p r => simp [List.replicate_succ]
  rw [hfl] at hrun
  rw [hds] at hparse
  obtain ⟨d', h1, h2, h3, h4, h5, h6⟩ := nextData_group d.programMap pid a pk csA cK rest d hrep hpa hpk rfl hbuf hon'
    (a ++ [pk]) [] (by simp) (by rw [hq]; exact hrun) x xs hparse
  exact ⟨d', h1, h2, h5, h6, h3, h4⟩

/-- the following calls hand out the buffered data, in order, without touching the reader or the pool -/
theorem buffered_calls (xs : List DemuxerData) :
    ∀ (k : Nat) (d : Demux), d.dataBuffer = xs → k ≤ xs.length → after k d = { d with dataBuffer := xs.drop k } := by
  intro k
  induction k generalizing xs with
  | zero => intro d h _; simp [after, ← h]
  | succ k ih =>
    intro d h hk
    cases xs with
    | nil => simp at hk
    | cons x r =>
      have := nextData_buffered d x r h
      simp only [after, this]
      rw [ih r _ rfl (by simpa using hk)]
      simp

theorem buffered_call_result (xs : List DemuxerData) (k : Nat) (d : Demux) (h : d.dataBuffer = xs) (hk : k < xs.length) :
    (after k d).nextData = (.ok xs[k], { d with dataBuffer := xs.drop (k + 1) }) := by
  rw [buffered_calls xs k d h (by omega)]
  have hd : xs.drop k = xs[k] :: xs.drop (k + 1) := List.drop_eq_getElem_cons hk
  rw [nextData_buffered _ xs[k] (xs.drop (k + 1)) hd]

end Astits.PSIComplete
