/-
C02 helper: feeding the packets of well-formed units of one PID (not flushed early) to the accumulator flushes, at
every unit start, exactly the packets of the previous unit, and leaves the last unit queued for the EOF drain.
-/
import Astits.Proofs.Pool
namespace Astits

/-- a payload packet the pool accepts and that announces no discontinuity -/
def PlainPayload (p : Packet) : Prop :=
  p.header.hasPayload = true ∧ p.header.transportErrorIndicator = false ∧ pktDI p = false ∧ p.header.continuityCounter < 16

/-- `ps` continues a queue whose last counter is `prev`: counters go up by one modulo 16, no packet starts a unit -/
def Continues : Nat → List Packet → Prop
  | _, [] => True
  | prev, p :: r => PlainPayload p ∧ p.header.payloadUnitStartIndicator = false ∧
      p.header.continuityCounter = (prev + 1) % 16 ∧ Continues p.header.continuityCounter r

/-- feeding packets to one accumulator -/
def accRun (pm : ProgramMap) (pid : Nat) : List Packet → List Packet → List (List Packet) × List Packet
  | q, [] => ([], q)
  | q, p :: r =>
    let fs := accRun pm pid (accAdd pm pid q p).2 r
    ((accAdd pm pid q p).1 :: fs.1, fs.2)

theorem succ_mod_ne (l : Nat) (h : l < 16) : (l + 1) % 16 ≠ l := by omega

/-- a continuation packet with the next counter is appended; nothing is flushed -/
theorem accAdd_continuation (pm : ProgramMap) (pid : Nat) (q : List Packet) (last p : Packet)
    (hnp : (pid == 0 || pm.has pid) = false) (hl : last.header.continuityCounter < 16)
    (hp : PlainPayload p) (hpusi : p.header.payloadUnitStartIndicator = false)
    (hcc : p.header.continuityCounter = (last.header.continuityCounter + 1) % 16) :
    accAdd pm pid (q ++ [last]) p = ([], q ++ [last] ++ [p]) := by
  obtain ⟨hpay, _, hdi, _⟩ := hp
  have hlast : lastCC (q ++ [last]) = some last.header.continuityCounter := lastCC_append q last
  have hsame : isSameAsPrevious (q ++ [last]) p = false := by
    simp only [isSameAsPrevious, hlast, hpay, Bool.true_and, beq_eq_false_iff_ne, ne_eq]
    rw [hcc]; exact succ_mod_ne _ hl
  have hdisc : hasDiscontinuity (q ++ [last]) p = false := by
    simp only [hasDiscontinuity, hdi, hlast, hpay, Bool.false_or, Bool.true_and, Bool.not_true, Bool.false_and, Bool.or_false]
    simp [hcc]
  unfold accAdd
  simp [hsame, hdisc, hpusi, hnp]

/-- a unit start flushes the whole queue (whatever it holds, provided the counter continues or the queue is empty) and
starts a new one -/
theorem accAdd_unit_start (pm : ProgramMap) (pid : Nat) (q : List Packet) (p : Packet)
    (hnp : (pid == 0 || pm.has pid) = false) (hp : PlainPayload p) (hpusi : p.header.payloadUnitStartIndicator = true)
    (hq : q = [] ∨ ∃ q' last, q = q' ++ [last] ∧ last.header.continuityCounter < 16 ∧
      p.header.continuityCounter = (last.header.continuityCounter + 1) % 16) :
    accAdd pm pid q p = (q, [p]) := by
  obtain ⟨hpay, _, hdi, _⟩ := hp
  rcases hq with rfl | ⟨q', last, rfl, hl, hcc⟩
  · unfold accAdd
    simp [isSameAsPrevious, hasDiscontinuity, lastCC, hdi, hpusi, hnp]
  · have hlast : lastCC (q' ++ [last]) = some last.header.continuityCounter := lastCC_append q' last
    have hsame : isSameAsPrevious (q' ++ [last]) p = false := by
      simp only [isSameAsPrevious, hlast, hpay, Bool.true_and, beq_eq_false_iff_ne, ne_eq]
      rw [hcc]; exact succ_mod_ne _ hl
    have hdisc : hasDiscontinuity (q' ++ [last]) p = false := by
      simp only [hasDiscontinuity, hdi, hlast, hpay, Bool.false_or, Bool.true_and, Bool.not_true, Bool.false_and, Bool.or_false]
      simp [hcc]
    unfold accAdd
    simp [hsame, hdisc, hpusi, hnp]

/-- the continuation packets of a unit are appended one by one -/
theorem accRun_continues (pm : ProgramMap) (pid : Nat) (q : List Packet) (last : Packet) (r : List Packet)
    (hnp : (pid == 0 || pm.has pid) = false) (hl : last.header.continuityCounter < 16)
    (hc : Continues last.header.continuityCounter r) :
    accRun pm pid (q ++ [last]) r = (List.replicate r.length [], q ++ [last] ++ r) := by
  induction r generalizing q last with
  | nil => simp [accRun]
  | cons p r ih =>
    obtain ⟨hp, hpusi, hcc, hrest⟩ := hc
    have h1 := accAdd_continuation pm pid q last p hnp hl hp hpusi hcc
    simp only [accRun, h1]
    have := ih (q ++ [last]) p hp.2.2.2 hrest
    have e : q ++ [last] ++ [p] = q ++ [last, p] := by simp
    rw [e] at this
    simp [this, List.replicate_succ]

theorem accRun_append (pm : ProgramMap) (pid : Nat) (q : List Packet) (a b : List Packet) :
    accRun pm pid q (a ++ b) = ((accRun pm pid q a).1 ++ (accRun pm pid (accRun pm pid q a).2 b).1,
                                 (accRun pm pid (accRun pm pid q a).2 b).2) := by
  induction a generalizing q with
  | nil => simp [accRun]
  | cons p r ih => simp [accRun, ih]

/-- a unit as packets: the start packet and its continuation packets -/
structure UnitPk where
  first : Packet
  rest : List Packet

def UnitPk.packets (u : UnitPk) : List Packet := u.first :: u.rest

def UnitOK (u : UnitPk) : Prop :=
  PlainPayload u.first ∧ u.first.header.payloadUnitStartIndicator = true ∧ Continues u.first.header.continuityCounter u.rest

/-- the queue is empty, or its last packet's counter is followed by `next` -/
def QueueLeadsTo (q : List Packet) (next : Nat) : Prop :=
  q = [] ∨ ∃ q' last, q = q' ++ [last] ∧ last.header.continuityCounter < 16 ∧ next = (last.header.continuityCounter + 1) % 16

def ChainOK : List Packet → List UnitPk → Prop
  | _, [] => True
  | q, u :: r => UnitOK u ∧ QueueLeadsTo q u.first.header.continuityCounter ∧ ChainOK u.packets r

def expectedFlushes : List Packet → List UnitPk → List (List Packet)
  | _, [] => []
  | q, u :: r => (q :: List.replicate u.rest.length []) ++ expectedFlushes u.packets r

def finalQueue : List Packet → List UnitPk → List Packet
  | q, [] => q
  | _, u :: r => finalQueue u.packets r

/-- one whole unit: its start packet flushes the previous queue, its continuation packets flush nothing, and the
unit's packets are what is queued afterwards -/
theorem accRun_unit (pm : ProgramMap) (pid : Nat) (q : List Packet) (u : UnitPk)
    (hnp : (pid == 0 || pm.has pid) = false) (hu : UnitOK u) (hq : QueueLeadsTo q u.first.header.continuityCounter) :
    accRun pm pid q u.packets = (q :: List.replicate u.rest.length [], u.packets) := by
  obtain ⟨hp, hpusi, hc⟩ := hu
  have h1 := accAdd_unit_start pm pid q u.first hnp hp hpusi hq
  have h2 := accRun_continues pm pid [] u.first u.rest hnp hp.2.2.2 hc
  simp only [UnitPk.packets, accRun, h1]
  simp only [List.nil_append] at h2
  simp [h2]

/-- **flush on unit start delivers exactly the units**: for any sequence of well-formed units of a PID that is not
flushed early, with continuity counters running on across units, the groups handed to the unit parser are — in order
— the previous queue, then each unit's packets (when the next unit starts), and the last unit stays queued for the
end-of-stream drain; nothing else is flushed -/
theorem accRun_units (pm : ProgramMap) (pid : Nat) (q : List Packet) (us : List UnitPk)
    (hnp : (pid == 0 || pm.has pid) = false) (h : ChainOK q us) :
    accRun pm pid q (us.flatMap UnitPk.packets) = (expectedFlushes q us, finalQueue q us) := by
  induction us generalizing q with
  | nil => simp [accRun, expectedFlushes, finalQueue]
  | cons u r ih =>
    obtain ⟨hu, hq, hr⟩ := h
    simp only [List.flatMap_cons, accRun_append, accRun_unit pm pid q u hnp hu hq, ih u.packets hr,
      expectedFlushes, finalQueue]

/-- the non-empty flushes are exactly the units but the last, each once, in order (from an empty queue) -/
theorem flushed_units (us : List UnitPk) :
    (expectedFlushes [] us).filter (fun g => !g.isEmpty) = (us.dropLast).map UnitPk.packets ∧
    (us ≠ [] → finalQueue [] us = (us.getLast?.map UnitPk.packets).getD []) := by
  have key : ∀ (q : List Packet) (us : List UnitPk),
      (expectedFlushes q us).filter (fun g => !g.isEmpty) =
        (if us = [] then [] else (if q.isEmpty then [] else [q]) ++ (us.dropLast).map UnitPk.packets) ∧
      finalQueue q us = (us.getLast?.map UnitPk.packets).getD q := by
    intro q us
    induction us generalizing q with
    | nil => simp [expectedFlushes, finalQueue]
    | cons u r ih =>
      have hne : u.packets.isEmpty = false := by simp [UnitPk.packets]
      obtain ⟨i1, i2⟩ := ih u.packets
      constructor
      · simp only [expectedFlushes, List.filter_append, i1, List.filter_cons]
        have hrep : (List.replicate u.rest.length ([] : List Packet)).filter (fun g => !g.isEmpty) = [] := by
          simp
        cases r with
        | nil => cases hq : q.isEmpty <;> simp [hq, hrep]
        | cons v t => cases hq : q.isEmpty <;> simp [hq, hrep, hne, List.dropLast]
      · simp only [finalQueue, i2]
        cases r with
        | nil => simp
        | cons v t =>
          have hs : ∃ w, (v :: t).getLast? = some w := ⟨(v :: t).getLast (by simp), List.getLast?_eq_some_getLast (by simp)⟩
          obtain ⟨w, hw⟩ := hs
          simp [List.getLast?_cons_cons, hw]
  obtain ⟨k1, k2⟩ := key [] us
  constructor
  · rw [k1]; cases us <;> simp
  · intro _; rw [k2]

end Astits
