/-
Helper lemmas for C19 / C20 at the level of whole demuxer runs: the packet source (`nextPacket`) on a
fault-free reader holding whole packets, as a pure function of the list of packets left (`srcNext`), the stream
with the skipped packets removed (`survivors`), call sequences (`runCalls`).
-/
import Astits.Model.Demux
import Astits.Proofs.Pool
namespace Astits

/-! ### the reader: fault-free, unread bytes known -/

/-- fault-free reader whose unread bytes are `bs` -/
structure Reader.Rem (r : Reader) (bs : Bytes) : Prop where
  nofault : r.faultAt = none
  rest : r.data.drop r.pos = bs

theorem Reader.faultActive_none {r : Reader} (h : r.faultAt = none) : r.faultActive = none := by
  unfold Reader.faultActive; rw [h]; split <;> rfl

/-- reading one whole packet -/
theorem Reader.readFull_chunk {r : Reader} {c rest : Bytes} {n : Nat} (h : r.Rem (c ++ rest)) (hc : c.length = n) :
    r.readFull n = (c, none, { r with pos := r.pos + n }) ∧ Reader.Rem { r with pos := r.pos + n } rest := by
  have hfa := Reader.faultActive_none h.nofault
  have hlen : r.data.length - r.pos = n + rest.length := by
    have := congrArg List.length h.rest
    simp only [List.length_drop, List.length_append] at this
    omega
  have htake : (r.data.drop r.pos).take n = c := by
    rw [h.rest, ← hc]; simp
  refine ⟨?_, ⟨h.nofault, ?_⟩⟩
  · unfold Reader.readFull
    have hge : r.data.length - r.pos ≥ n := by omega
    simp only [hfa, hge, if_true, htake]
  · show r.data.drop (r.pos + n) = rest
    rw [← List.drop_drop, h.rest, ← hc]; simp

/-- reading at the end of the data -/
theorem Reader.readFull_eof {r : Reader} {n : Nat} (h : r.Rem []) (hn : 0 < n) :
    r.readFull n = ([], some .eof, r) := by
  have hfa := Reader.faultActive_none h.nofault
  have hlen : r.data.length - r.pos = 0 := by
    have := congrArg List.length h.rest
    simpa using this
  unfold Reader.readFull
  have hge : ¬ (0 ≥ n) := by omega
  simp only [hfa, hge, hlen, if_false, if_true]

/-! ### the skipper as a decision function -/

/-- what the skipper is shown: header and adaptation field, payload not yet extracted -/
def shown (p : Packet) : Packet := { p with payload := [] }

/-- decision of the skipper for the `k`-th consulted packet -/
def Skipper.decision : Skipper → Nat → Packet → Bool
  | .none, _, _ => false
  | .pred f, _, p => f p
  | .script ds, k, _ => ds.getD k false

/-- the consultation index after one consultation (only scripts are stateful) -/
def Skipper.bump : Skipper → Nat → Nat
  | .script _, k => k + 1
  | _, k => k

/-- what one consultation appends to the log -/
def Skipper.logOf : Skipper → Packet → List Packet
  | .none, _ => []
  | _, p => [p]

theorem consultSkipper_eq (d : Demux) (p : Packet) :
    d.consultSkipper p = (d.skipper.decision d.skipIdx p,
      { d with skipLog := d.skipLog ++ d.skipper.logOf p, skipIdx := d.skipper.bump d.skipIdx }) := by
  unfold Demux.consultSkipper
  obtain ⟨r, o, sk, pr, ps, pool, pm, db, sl, pl, si⟩ := d
  cases sk <;> simp [Skipper.decision, Skipper.bump, Skipper.logOf]

/-! ### the packet source on a list of whole packets -/

/-- what `NextPacket` returns for a packet that is not skipped -/
def pktRes (c : Bytes) : Res Packet :=
  match (parsePacket none).val c with
  | .ok p => .ok p
  | .err e => .err (if e = .sync then .sync else .other)
  | .panic => .panic

structure SrcOut where
  res : Res Packet
  idx : Nat
  rest : List Bytes
  log : List Packet
  used : Nat

/-- `packetBuffer.next` as a function of the packets left: result, consultation index, packets left, consultations
made, packets consumed -/
def srcNext (s : Skipper) : Nat → List Bytes → SrcOut
  | k, [] => ⟨.err .eof, k, [], [], 0⟩
  | k, c :: cs =>
    match (parsePacket none).val c with
    | .ok p =>
      if s.decision k (shown p) then
        let o := srcNext s (s.bump k) cs
        ⟨o.res, o.idx, o.rest, s.logOf (shown p) ++ o.log, o.used + 1⟩
      else ⟨.ok p, s.bump k, cs, s.logOf (shown p), 1⟩
    | .err e => ⟨.err (if e = .sync then .sync else .other), k, cs, [], 1⟩
    | .panic => ⟨.panic, k, cs, [], 1⟩

theorem srcNext_rest_le (s : Skipper) (k : Nat) (cs : List Bytes) : (srcNext s k cs).rest.length ≤ cs.length := by
  induction cs generalizing k with
  | nil => simp [srcNext]
  | cons c cs ih =>
    unfold srcNext
    split
    · split
      · have := ih (s.bump k); simp only [List.length_cons]; omega
      · simp
    · simp
    · simp

theorem srcNext_rest_mem (s : Skipper) (k : Nat) (cs : List Bytes) :
    ∀ c ∈ (srcNext s k cs).rest, c ∈ cs := by
  induction cs generalizing k with
  | nil => simp [srcNext]
  | cons c cs ih =>
    unfold srcNext
    split
    · split
      · intro x hx; exact List.mem_cons_of_mem _ (ih (s.bump k) x hx)
      · intro x hx; exact List.mem_cons_of_mem _ hx
    · intro x hx; exact List.mem_cons_of_mem _ hx
    · intro x hx; exact List.mem_cons_of_mem _ hx

/-- a non-EOF outcome consumes at least one packet -/
theorem srcNext_rest_lt (s : Skipper) (k : Nat) (cs : List Bytes) (h : cs ≠ []) :
    (srcNext s k cs).rest.length < cs.length := by
  cases cs with
  | nil => exact absurd rfl h
  | cons c cs =>
    unfold srcNext
    split
    · split
      · have := srcNext_rest_le s (s.bump k) cs; simp only [List.length_cons]; omega
      · simp
    · simp
    · simp

/-- the packets of the stream, all of size `n` -/
def Chunks (n : Nat) (cs : List Bytes) : Prop := ∀ c ∈ cs, c.length = n

instance (n : Nat) (cs : List Bytes) : Decidable (Chunks n cs) := by unfold Chunks; exact inferInstance

theorem Chunks.tail {n : Nat} {c : Bytes} {cs : List Bytes} (h : Chunks n (c :: cs)) : Chunks n cs :=
  fun x hx => h x (List.mem_cons_of_mem _ hx)

theorem Chunks.srcNext {n : Nat} {cs : List Bytes} (h : Chunks n cs) (s : Skipper) (k : Nat) :
    Chunks n (srcNext s k cs).rest := fun x hx => h x (srcNext_rest_mem s k cs x hx)

/-- the state after `packetBuffer.next` -/
def Demux.srcState (d : Demux) (n : Nat) (o : SrcOut) : Demux :=
  { d with r := { d.r with pos := d.r.pos + n * o.used }, skipLog := d.skipLog ++ o.log, skipIdx := o.idx }

/-- one iteration of `packetBuffer.next` after a complete read -/
theorem bufferNext_step (d : Demux) (n fuel : Nat) (c : Bytes) (r' : Reader) (hrf : d.r.readFull n = (c, none, r')) :
    d.bufferNext n (fuel + 1) =
      match (parsePacket none).val c with
      | .ok p =>
        if d.skipper.decision d.skipIdx (shown p) then
          Demux.bufferNext { d with r := r', skipLog := d.skipLog ++ d.skipper.logOf (shown p),
                                    skipIdx := d.skipper.bump d.skipIdx } n fuel
        else (.ok p, { d with r := r', skipLog := d.skipLog ++ d.skipper.logOf (shown p),
                              skipIdx := d.skipper.bump d.skipIdx })
      | .err e => (.err (if e = .sync then .sync else .other), { d with r := r' })
      | .panic => (.panic, { d with r := r' }) := by
  conv => lhs; unfold Demux.bufferNext
  simp only [hrf]
  cases (parsePacket none).val c with
  | panic => rfl
  | err e => rfl
  | ok p =>
    simp only [consultSkipper_eq]
    rfl

/-- **`packetBuffer.next` on a fault-free reader holding whole packets** is `srcNext` on the packets left -/
theorem bufferNext_src (n : Nat) (hn : 0 < n) (s : Skipper) (cs : List Bytes) (hcs : Chunks n cs) (k : Nat) (d : Demux)
    (hs : d.skipper = s) (hk : d.skipIdx = k)
    (hr : d.r.Rem cs.flatten) (fuel : Nat) (hf : cs.length + 1 ≤ fuel) :
    d.bufferNext n fuel = ((srcNext s k cs).res, d.srcState n (srcNext s k cs)) ∧
    (d.srcState n (srcNext s k cs)).r.Rem (srcNext s k cs).rest.flatten := by
  induction cs generalizing d fuel k with
  | nil =>
    obtain ⟨fuel, rfl⟩ : ∃ f, fuel = f + 1 := ⟨fuel - 1, by simp at hf; omega⟩
    have hrf := Reader.readFull_eof (n := n) (by simpa using hr) hn
    unfold Demux.bufferNext
    simp only [hrf, srcNext, Demux.srcState, Nat.mul_zero, Nat.add_zero, List.append_nil]
    subst hk
    exact ⟨rfl, by simpa using hr⟩
  | cons c cs ih =>
    obtain ⟨fuel, rfl⟩ : ∃ f, fuel = f + 1 := ⟨fuel - 1, by simp at hf; omega⟩
    have hc : c.length = n := hcs c (List.mem_cons_self)
    have hr' : d.r.Rem (c ++ cs.flatten) := by simpa using hr
    obtain ⟨hrf, hrem⟩ := Reader.readFull_chunk hr' hc
    rw [bufferNext_step d n fuel c _ hrf]
    unfold srcNext
    subst hs hk
    cases hp : (parsePacket none).val c with
    | panic => exact ⟨by simp [Demux.srcState], by simpa [Demux.srcState] using hrem⟩
    | err e => exact ⟨by simp [Demux.srcState], by simpa [Demux.srcState] using hrem⟩
    | ok p =>
      dsimp only
      by_cases hd : d.skipper.decision d.skipIdx (shown p) = true
      · simp only [hd, if_true]
        have := ih hcs.tail (d.skipper.bump d.skipIdx)
          ({ d with r := { d.r with pos := d.r.pos + n }, skipLog := d.skipLog ++ d.skipper.logOf (shown p),
                    skipIdx := d.skipper.bump d.skipIdx }) rfl rfl hrem fuel (by simp at hf; omega)
        refine ⟨?_, ?_⟩
        · rw [this.1]
          simp only [Demux.srcState, List.append_assoc, Nat.mul_add, Nat.mul_one, Nat.add_assoc]
          simp only [Nat.add_comm]
        · have h2 := this.2
          simp only [Demux.srcState, Nat.mul_add, Nat.mul_one] at h2 ⊢
          have e : d.r.pos + (n * (srcNext d.skipper (d.skipper.bump d.skipIdx) cs).used + n)
              = d.r.pos + n + n * (srcNext d.skipper (d.skipper.bump d.skipIdx) cs).used := by omega
          rw [e]; exact h2
      · simp only [hd, if_false, Bool.false_eq_true]
        exact ⟨by simp [Demux.srcState], by simpa [Demux.srcState] using hrem⟩

/-! ### `NextPacket` with an explicit packet size -/

/-- the packet size in force is `n`: installed in the packet buffer, or given explicitly and not installed yet -/
def Demux.SizeIs (d : Demux) (n : Nat) : Prop :=
  d.packetSize = some n ∨ (d.packetSize = none ∧ d.optPacketSize = n)

theorem Chunks.flatten_length {n : Nat} {cs : List Bytes} (h : Chunks n cs) : cs.flatten.length = n * cs.length := by
  induction cs with
  | nil => simp
  | cons c cs ih =>
    simp only [List.flatten_cons, List.length_append, List.length_cons, ih h.tail, h c List.mem_cons_self, Nat.mul_add,
      Nat.mul_one]
    omega

theorem Reader.Rem.chunks_le {r : Reader} {n : Nat} {cs : List Bytes} (h : r.Rem cs.flatten) (hcs : Chunks n cs)
    (hn : 0 < n) : cs.length ≤ r.data.length := by
  have h1 := congrArg List.length h.rest
  rw [hcs.flatten_length, List.length_drop] at h1
  have : cs.length ≤ n * cs.length := Nat.le_mul_of_pos_left _ hn
  omega

/-- the state after `NextPacket` -/
def Demux.pktState (d : Demux) (n : Nat) (o : SrcOut) : Demux :=
  { d with r := { d.r with pos := d.r.pos + n * o.used }, skipLog := d.skipLog ++ o.log, skipIdx := o.idx,
           packetSize := some n }

/-- **`NextPacket` with packet size `n` on a fault-free reader holding whole packets** -/
theorem nextPacket_src (n : Nat) (hn : 0 < n) (s : Skipper) (cs : List Bytes) (hcs : Chunks n cs) (k : Nat) (d : Demux)
    (hs : d.skipper = s) (hk : d.skipIdx = k) (hsz : d.SizeIs n) (hr : d.r.Rem cs.flatten) :
    d.nextPacket = ((srcNext s k cs).res, d.pktState n (srcNext s k cs)) ∧
    (d.pktState n (srcNext s k cs)).r.Rem (srcNext s k cs).rest.flatten := by
  have hle := hr.chunks_le hcs hn
  unfold Demux.nextPacket
  rcases hsz with h1 | ⟨h1, h2⟩
  · simp only [h1]
    have := bufferNext_src n hn s cs hcs k d hs hk hr (d.r.data.length + 2) (by omega)
    rw [this.1]
    have e : d.srcState n (srcNext s k cs) = d.pktState n (srcNext s k cs) := by
      simp only [Demux.srcState, Demux.pktState, h1]
    rw [← e]
    exact ⟨rfl, this.2⟩
  · subst h2
    have hne : d.optPacketSize ≠ 0 := by omega
    simp only [h1, hne, ne_eq, not_false_eq_true, if_true]
    have := bufferNext_src d.optPacketSize hn s cs hcs k { d with packetSize := some d.optPacketSize } hs hk hr
      (d.r.data.length + 2) (by omega)
    rw [this.1]
    exact ⟨rfl, this.2⟩

/-! ### the stream with the skipped packets removed -/

/-- the packets left when those the skipper selects are deleted (`k`: index of the next consultation) -/
def survivors (s : Skipper) : Nat → List Bytes → List Bytes
  | _, [] => []
  | k, c :: cs =>
    match (parsePacket none).val c with
    | .ok p => if s.decision k (shown p) then survivors s (s.bump k) cs else c :: survivors s (s.bump k) cs
    | _ => c :: survivors s k cs

/-- the packets the skipper is shown: every packet whose header and adaptation field parse, in stream order -/
def consultLog (s : Skipper) : Nat → List Bytes → List Packet
  | _, [] => []
  | k, c :: cs =>
    match (parsePacket none).val c with
    | .ok p => s.logOf (shown p) ++ consultLog s (s.bump k) cs
    | _ => consultLog s k cs

theorem survivors_cons (s : Skipper) (k : Nat) (c : Bytes) (cs : List Bytes) :
    survivors s k (c :: cs) =
      match (parsePacket none).val c with
      | .ok p => if s.decision k (shown p) then survivors s (s.bump k) cs else c :: survivors s (s.bump k) cs
      | _ => c :: survivors s k cs := by rw [survivors]

theorem consultLog_cons (s : Skipper) (k : Nat) (c : Bytes) (cs : List Bytes) :
    consultLog s k (c :: cs) =
      match (parsePacket none).val c with
      | .ok p => s.logOf (shown p) ++ consultLog s (s.bump k) cs
      | _ => consultLog s k cs := by rw [consultLog]

theorem srcNext_cons (s : Skipper) (k : Nat) (c : Bytes) (cs : List Bytes) :
    srcNext s k (c :: cs) =
      match (parsePacket none).val c with
      | .ok p =>
        if s.decision k (shown p) then
          ⟨(srcNext s (s.bump k) cs).res, (srcNext s (s.bump k) cs).idx, (srcNext s (s.bump k) cs).rest,
            s.logOf (shown p) ++ (srcNext s (s.bump k) cs).log, (srcNext s (s.bump k) cs).used + 1⟩
        else ⟨.ok p, s.bump k, cs, s.logOf (shown p), 1⟩
      | .err e => ⟨.err (if e = .sync then .sync else .other), k, cs, [], 1⟩
      | .panic => ⟨.panic, k, cs, [], 1⟩ := by rw [srcNext]

theorem survivors_mem (s : Skipper) (k : Nat) (cs : List Bytes) : ∀ c ∈ survivors s k cs, c ∈ cs := by
  induction cs generalizing k with
  | nil => intro c hc; cases hc
  | cons c cs ih =>
    intro x hx
    rw [survivors_cons] at hx
    split at hx
    · split at hx
      · exact List.mem_cons_of_mem _ (ih _ x hx)
      · rcases List.mem_cons.mp hx with h | h
        · exact h ▸ List.mem_cons_self
        · exact List.mem_cons_of_mem _ (ih _ x h)
    · rcases List.mem_cons.mp hx with h | h
      · exact h ▸ List.mem_cons_self
      · exact List.mem_cons_of_mem _ (ih _ x h)

theorem survivors_length_le (s : Skipper) (k : Nat) (cs : List Bytes) : (survivors s k cs).length ≤ cs.length := by
  induction cs generalizing k with
  | nil => simp [survivors]
  | cons c cs ih =>
    rw [survivors_cons]
    split
    · split
      · have := ih (s.bump k); simp only [List.length_cons]; omega
      · have := ih (s.bump k); simp only [List.length_cons]; omega
    · have := ih k; simp only [List.length_cons]; omega

theorem Chunks.survivors {n : Nat} {cs : List Bytes} (h : Chunks n cs) (s : Skipper) (k : Nat) :
    Chunks n (survivors s k cs) := fun c hc => h c (survivors_mem s k cs c hc)

def Res.isEOF {α} (x : Res α) : Bool :=
  match x with
  | .err e => e = .eof
  | _ => false

theorem pktRes_not_eof (c : Bytes) : (pktRes c).isEOF = false := by
  unfold pktRes
  split
  · rfl
  · simp only [Res.isEOF]; split <;> simp
  · rfl

theorem survivors_none (k : Nat) (cs : List Bytes) : survivors .none k cs = cs := by
  induction cs generalizing k with
  | nil => rfl
  | cons c cs ih =>
    unfold survivors
    split
    · simp [Skipper.decision, ih]
    · simp [ih]

/-- `srcNext` finds the first survivor -/
theorem survivors_srcNext (s : Skipper) (k : Nat) (cs : List Bytes) :
    (survivors s k cs = [] ∧ (srcNext s k cs).res = .err .eof ∧ (srcNext s k cs).rest = []) ∨
    (∃ c, survivors s k cs = c :: survivors s (srcNext s k cs).idx (srcNext s k cs).rest ∧
      (srcNext s k cs).res = pktRes c) := by
  induction cs generalizing k with
  | nil => left; simp [survivors, srcNext]
  | cons c cs ih =>
    rw [survivors_cons, srcNext_cons]
    unfold pktRes
    cases hp : (parsePacket none).val c with
    | panic => right; exact ⟨c, by simp [hp]⟩
    | err e => right; exact ⟨c, by simp [hp]⟩
    | ok p =>
      dsimp only
      by_cases hd : s.decision k (shown p) = true
      · simp only [hd, if_true]
        rcases ih (s.bump k) with h | ⟨c', h1, h2⟩
        · left; exact h
        · right; exact ⟨c', h1, by rw [h2]; rfl⟩
      · simp only [hd, if_false, Bool.false_eq_true]
        right; exact ⟨c, by simp [hp]⟩

theorem consultLog_srcNext (s : Skipper) (k : Nat) (cs : List Bytes) :
    consultLog s k cs = (srcNext s k cs).log ++ consultLog s (srcNext s k cs).idx (srcNext s k cs).rest := by
  induction cs generalizing k with
  | nil => simp [consultLog, srcNext]
  | cons c cs ih =>
    rw [consultLog_cons, srcNext_cons]
    cases hp : (parsePacket none).val c with
    | panic => simp
    | err e => simp
    | ok p =>
      dsimp only
      by_cases hd : s.decision k (shown p) = true
      · simp only [hd, if_true, List.append_assoc]
        rw [← ih]
      · simp only [hd, if_false, Bool.false_eq_true]

/-! ### repeated `NextPacket` until the end of the stream -/

/-- results of repeated `NextPacket` calls up to (excluding) the first `ErrNoMorePackets`, and the final state -/
def Demux.packetsToEOF (d : Demux) : Nat → List (Res Packet) × Demux
  | 0 => ([], d)
  | fuel + 1 =>
    if d.nextPacket.1.isEOF then ([], d.nextPacket.2)
    else (d.nextPacket.1 :: (d.nextPacket.2.packetsToEOF fuel).1, (d.nextPacket.2.packetsToEOF fuel).2)

theorem packetsToEOF_src (n : Nat) (hn : 0 < n) (s : Skipper) (fuel : Nat) (cs : List Bytes) (hcs : Chunks n cs) (k : Nat)
    (d : Demux) (hs : d.skipper = s) (hk : d.skipIdx = k) (hsz : d.SizeIs n) (hr : d.r.Rem cs.flatten)
    (hf : cs.length + 1 ≤ fuel) :
    (d.packetsToEOF fuel).1 = (survivors s k cs).map pktRes ∧
    (d.packetsToEOF fuel).2.skipLog = d.skipLog ++ consultLog s k cs ∧
    (d.packetsToEOF fuel).2.r.Rem [] ∧ (d.packetsToEOF fuel).2.SizeIs n := by
  induction fuel generalizing cs k d with
  | zero => omega
  | succ fuel ih =>
    obtain ⟨hnp, hrem⟩ := nextPacket_src n hn s cs hcs k d hs hk hsz hr
    unfold Demux.packetsToEOF
    rw [hnp]
    dsimp only
    rw [consultLog_srcNext s k cs]
    rcases survivors_srcNext s k cs with ⟨h1, h2, h3⟩ | ⟨c, h1, h2⟩
    · rw [h2, h1]
      simp only [Res.isEOF, decide_true, if_true, List.map_nil, true_and]
      rw [h3] at hrem ⊢
      refine ⟨?_, by simpa using hrem, Or.inl rfl⟩
      simp [Demux.pktState, consultLog]
    · have hne : cs ≠ [] := by
        intro h; subst h; simp [survivors] at h1
      have hlt := srcNext_rest_lt s k cs hne
      rw [h2, pktRes_not_eof]
      simp only [Bool.false_eq_true, if_false]
      have := ih (srcNext s k cs).rest (hcs.srcNext s k) (srcNext s k cs).idx (d.pktState n (srcNext s k cs)) hs rfl
        (Or.inl rfl) hrem (by omega)
      rw [this.1, this.2.1, h1]
      refine ⟨by simp, ?_, this.2.2⟩
      simp [Demux.pktState, List.append_assoc]

/-- at the end of the stream `NextPacket` reports `ErrNoMorePackets` -/
theorem nextPacket_at_eof (n : Nat) (hn : 0 < n) (d : Demux) (hsz : d.SizeIs n) (hr : d.r.Rem []) :
    d.nextPacket.1 = .err .eof := by
  have := (nextPacket_src n hn d.skipper [] (by intro c hc; cases hc) d.skipIdx d rfl rfl hsz (by simpa using hr)).1
  rw [this]; rfl

/-- deleting by a pure predicate is `List.filter` -/
def predSkips (f : Packet → Bool) (c : Bytes) : Bool :=
  match (parsePacket none).val c with
  | .ok p => f (shown p)
  | _ => false

theorem survivors_pred (f : Packet → Bool) (k : Nat) (cs : List Bytes) :
    survivors (.pred f) k cs = cs.filter (fun c => !predSkips f c) := by
  induction cs generalizing k with
  | nil => rfl
  | cons c cs ih =>
    rw [survivors_cons]
    unfold predSkips
    cases hp : (parsePacket none).val c with
    | panic => simp [List.filter, hp, ih]; rfl
    | err e => simp [List.filter, hp, ih]; rfl
    | ok p =>
      dsimp only
      by_cases hd : f (shown p) = true
      · simp [List.filter, hp, hd, ih, Skipper.decision]; rfl
      · simp [List.filter, hp, hd, ih, Skipper.decision]; rfl

/-- does the header / adaptation field of the packet parse? -/
def parses (c : Bytes) : Bool :=
  match (parsePacket none).val c with
  | .ok _ => true
  | _ => false

/-- the view of a packet the skipper is shown -/
def shownOf (c : Bytes) : Option Packet :=
  match (parsePacket none).val c with
  | .ok p => some (shown p)
  | _ => none

/-- an installed skipper is consulted exactly once for every packet that parses, in stream order -/
theorem consultLog_eq (s : Skipper) (hs : s ≠ .none) (k : Nat) (cs : List Bytes) :
    consultLog s k cs = cs.filterMap shownOf := by
  induction cs generalizing k with
  | nil => rfl
  | cons c cs ih =>
    rw [consultLog_cons]
    unfold shownOf
    cases hp : (parsePacket none).val c with
    | panic => simp [List.filterMap, hp, ih]; rfl
    | err e => simp [List.filterMap, hp, ih]; rfl
    | ok p =>
      have : s.logOf (shown p) = [shown p] := by
        cases s with
        | none => exact absurd rfl hs
        | pred f => rfl
        | script ds => rfl
      simp [List.filterMap, hp, ih, this]; rfl

theorem consultLog_none (k : Nat) (cs : List Bytes) : consultLog .none k cs = [] := by
  induction cs generalizing k with
  | nil => rfl
  | cons c cs ih =>
    rw [consultLog_cons]
    split <;> simp [Skipper.logOf, ih]

theorem filterMap_shownOf_length (cs : List Bytes) (h : ∀ c ∈ cs, parses c = true) :
    (cs.filterMap shownOf).length = cs.length := by
  induction cs with
  | nil => rfl
  | cons c cs ih =>
    have hc := h c List.mem_cons_self
    unfold parses at hc
    have ih' := ih (fun x hx => h x (List.mem_cons_of_mem _ hx))
    cases hp : (parsePacket none).val c with
    | panic => rw [hp] at hc; cases hc
    | err e => rw [hp] at hc; cases hc
    | ok p => simp [List.filterMap, shownOf, hp, ih']

instance {α} [DecidableEq α] : DecidableEq (Res α) := fun a b =>
  match a, b with
  | .ok x, .ok y => if h : x = y then isTrue (by rw [h]) else isFalse (by intro e; cases e; exact h rfl)
  | .err x, .err y => if h : x = y then isTrue (by rw [h]) else isFalse (by intro e; cases e; exact h rfl)
  | .panic, .panic => isTrue rfl
  | .ok _, .err _ => isFalse (by intro e; cases e)
  | .ok _, .panic => isFalse (by intro e; cases e)
  | .err _, .ok _ => isFalse (by intro e; cases e)
  | .err _, .panic => isFalse (by intro e; cases e)
  | .panic, .ok _ => isFalse (by intro e; cases e)
  | .panic, .err _ => isFalse (by intro e; cases e)

end Astits

namespace Astits

/-! ### call sequences -/

/-- the two data calls of the public API -/
inductive ApiCall where
  | nextPacket | nextData
  deriving Repr, DecidableEq

/-- what a call returns -/
inductive CallResult where
  | packet (r : Res Packet)
  | data (r : Res DemuxerData)

def Demux.step (d : Demux) : ApiCall → CallResult × Demux
  | .nextPacket => (.packet d.nextPacket.1, d.nextPacket.2)
  | .nextData => (.data d.nextData.1, d.nextData.2)

/-- the results of a sequence of calls -/
def Demux.runCalls (d : Demux) : List ApiCall → List CallResult
  | [] => []
  | c :: cs => (d.step c).1 :: (d.step c).2.runCalls cs

/-- the state after a sequence of calls -/
def Demux.after (d : Demux) : List ApiCall → Demux
  | [] => d
  | c :: cs => (d.step c).2.after cs

/-! ### the program map -/

theorem ProgramMap.has_set (pm : ProgramMap) (k v x : Nat) : (pm.set k v).has x = (pm.has x || x == k) := by
  unfold ProgramMap.set
  by_cases hk : pm.has k = true
  · simp only [hk, if_true]
    have h1 : ProgramMap.has (pm.map fun e => if (e.1 == k) = true then (k, v) else e) x = pm.has x := by
      unfold ProgramMap.has
      rw [List.any_map]
      congr 1
      funext e
      simp only [Function.comp]
      by_cases he : (e.1 == k) = true
      · simp only [he, if_true]
        have : e.1 = k := by simpa using he
        rw [this]
      · simp only [he, if_false, Bool.false_eq_true]
    rw [h1]
    by_cases hx : x = k
    · subst hx; simp [hk]
    · simp [hx]
  · simp only [hk, if_false, Bool.false_eq_true]
    unfold ProgramMap.has
    rw [List.any_append]
    simp only [List.any_cons, List.any_nil, Bool.or_false]
    have : (k == x) = (x == k) := BEq.comm
    rw [this]

/-- what `updateData` learns from the PATs among the data -/
def pmLearn (ds : List DemuxerData) (pm : ProgramMap) : ProgramMap :=
  ds.foldl (fun pm v => match v.pat with
    | some pat => pat.programs.foldl (fun pm pg => if pg.programNumber > 0 then pm.set pg.programMapID pg.programNumber else pm) pm
    | none => pm) pm

theorem updateData_eq (d : Demux) (ds : List DemuxerData) :
    d.updateData ds = (ds.head?, { d with dataBuffer := d.dataBuffer ++ ds.tail, programMap := pmLearn ds d.programMap }) := by
  obtain ⟨r, o, sk, pr, ps, pool, pm, db, sl, pl, si⟩ := d
  cases ds with
  | nil => simp [Demux.updateData, pmLearn]
  | cons x rest => rfl

/-- `pm1` knows what `pm2` knows plus what `L` knows -/
def PMExt (L pm1 pm2 : ProgramMap) : Prop := ∀ x, pm1.has x = (pm2.has x || L.has x)

theorem PMExt.set {L pm1 pm2 : ProgramMap} (h : PMExt L pm1 pm2) (k v : Nat) : PMExt L (pm1.set k v) (pm2.set k v) := by
  intro x
  rw [ProgramMap.has_set, ProgramMap.has_set, h x]
  cases pm2.has x <;> cases L.has x <;> cases (x == k) <;> rfl

theorem PMExt.learn {L pm1 pm2 : ProgramMap} (h : PMExt L pm1 pm2) (ds : List DemuxerData) :
    PMExt L (pmLearn ds pm1) (pmLearn ds pm2) := by
  unfold pmLearn
  induction ds generalizing pm1 pm2 with
  | nil => exact h
  | cons v ds ih =>
    simp only [List.foldl_cons]
    apply ih
    cases v.pat with
    | none => exact h
    | some pat =>
      dsimp only
      generalize pat.programs = pgs
      induction pgs generalizing pm1 pm2 with
      | nil => exact h
      | cons pg pgs ih2 =>
        simp only [List.foldl_cons]
        apply ih2
        split
        · exact h.set _ _
        · exact h

/-- the map only grows -/
theorem pmLearn_mono (ds : List DemuxerData) (pm : ProgramMap) (x : Nat) (hx : pm.has x = true) :
    (pmLearn ds pm).has x = true := by
  unfold pmLearn
  induction ds generalizing pm with
  | nil => exact hx
  | cons v ds ih =>
    simp only [List.foldl_cons]
    apply ih
    cases v.pat with
    | none => exact hx
    | some pat =>
      dsimp only
      generalize pat.programs = pgs
      induction pgs generalizing pm with
      | nil => exact hx
      | cons pg pgs ih2 =>
        simp only [List.foldl_cons]
        apply ih2
        split
        · rw [ProgramMap.has_set, hx]; rfl
        · exact hx

/-! ### the places where the program map is consulted -/

theorem accAdd_congr (pm1 pm2 : ProgramMap) (pid : Nat) (q : List Packet) (p : Packet) (h : pm1.has pid = pm2.has pid) :
    accAdd pm1 pid q p = accAdd pm2 pid q p := by
  unfold accAdd; rw [h]

theorem poolAdd_congr (pm1 pm2 : ProgramMap) (pool : Pool) (p : Packet) (h : pm1.has p.header.pid = pm2.has p.header.pid) :
    poolAdd pm1 pool p = poolAdd pm2 pool p := by
  unfold poolAdd; dsimp only; rw [accAdd_congr pm1 pm2 _ _ _ h]

theorem parseData_congr (pm1 pm2 : ProgramMap) (ps : List Packet) (prs : ParserKind)
    (h : pm1.has (ps.headD default).header.pid = pm2.has (ps.headD default).header.pid) :
    parseData ps prs pm1 = parseData ps prs pm2 := by
  unfold parseData isPSIPayload; dsimp only; rw [h]

end Astits

namespace Astits

/-! ### packets held by the pool -/

/-- every packet waiting in the pool satisfies `P` -/
def Pool.All (P : Packet → Prop) (pool : Pool) : Prop := ∀ e ∈ pool, ∀ x ∈ e.2, P x

theorem Pool.All.nil {P : Packet → Prop} : Pool.All P [] := fun _ he => by cases he

theorem Pool.All.get {P : Packet → Prop} {pool : Pool} (h : Pool.All P pool) (pid : Nat) : ∀ x ∈ pool.get pid, P x := by
  induction pool with
  | nil => intro x hx; cases hx
  | cons e r ih =>
    obtain ⟨k, q⟩ := e
    unfold Pool.get
    split
    · exact h (k, q) List.mem_cons_self
    · exact ih (fun e he => h e (List.mem_cons_of_mem _ he))

theorem Pool.All.put {P : Packet → Prop} {pool : Pool} (h : Pool.All P pool) (pid : Nat) (q : List Packet)
    (hq : ∀ x ∈ q, P x) : Pool.All P (pool.put pid q) := by
  induction pool with
  | nil =>
    intro e he
    simp only [Pool.put, List.mem_singleton] at he
    subst he; exact hq
  | cons e r ih =>
    obtain ⟨k, v⟩ := e
    have hr : Pool.All P r := fun e he => h e (List.mem_cons_of_mem _ he)
    unfold Pool.put
    split
    · intro e he
      rcases List.mem_cons.mp he with rfl | he
      · exact hq
      · exact hr e he
    · intro e he
      rcases List.mem_cons.mp he with rfl | he
      · exact h (k, v) List.mem_cons_self
      · exact ih hr e he

theorem accAdd_all {P : Packet → Prop} (pm : ProgramMap) (pid : Nat) (q : List Packet) (p : Packet)
    (hq : ∀ x ∈ q, P x) (hp : P p) :
    (∀ x ∈ (accAdd pm pid q p).1, P x) ∧ (∀ x ∈ (accAdd pm pid q p).2, P x) := by
  have hnil : ∀ x ∈ ([] : List Packet), P x := fun x hx => by cases hx
  have happ : ∀ l : List Packet, (∀ x ∈ l, P x) → ∀ x ∈ l ++ [p], P x := by
    intro l hl x hx
    rcases List.mem_append.mp hx with h | h
    · exact hl x h
    · rw [List.mem_singleton] at h; subst h; exact hp
  unfold accAdd
  dsimp only
  split
  · exact ⟨hnil, hq⟩
  · split <;> split <;> split <;>
      first
      | exact ⟨happ _ hq, hnil⟩
      | exact ⟨happ _ hnil, hnil⟩
      | exact ⟨hq, happ _ hnil⟩
      | exact ⟨hnil, happ _ hnil⟩
      | exact ⟨hnil, happ _ hq⟩
      | exact ⟨hq, happ _ hq⟩

theorem poolAdd_all {P : Packet → Prop} (pm : ProgramMap) (pool : Pool) (p : Packet)
    (h : Pool.All P pool) (hp : P p) :
    (∀ x ∈ (poolAdd pm pool p).1, P x) ∧ Pool.All P (poolAdd pm pool p).2 := by
  have hnil : ∀ x ∈ ([] : List Packet), P x := fun x hx => by cases hx
  unfold poolAdd
  split
  · exact ⟨hnil, h⟩
  · split
    · exact ⟨hnil, h⟩
    · have := accAdd_all pm p.header.pid (pool.get p.header.pid) p (h.get _) hp
      exact ⟨this.1, h.put _ _ this.2⟩

theorem insertSorted_all {P : Packet → Prop} (e : Nat × List Packet) (pool : Pool) (he : ∀ x ∈ e.2, P x)
    (h : Pool.All P pool) : Pool.All P (insertSorted e pool) := by
  induction pool with
  | nil =>
    intro e' he'
    simp only [insertSorted, List.mem_singleton] at he'
    subst he'; exact he
  | cons y r ih =>
    have hr : Pool.All P r := fun e he => h e (List.mem_cons_of_mem _ he)
    unfold insertSorted
    split
    · intro e' he'
      rcases List.mem_cons.mp he' with rfl | he'
      · exact he
      · exact h e' he'
    · intro e' he'
      rcases List.mem_cons.mp he' with rfl | he'
      · exact h _ List.mem_cons_self
      · exact ih hr e' he'

theorem sorted_all {P : Packet → Prop} (pool : Pool) (h : Pool.All P pool) : Pool.All P pool.sorted := by
  unfold Pool.sorted
  induction pool with
  | nil => exact Pool.All.nil
  | cons e r ih =>
    simp only [List.foldr_cons]
    exact insertSorted_all e _ (h e List.mem_cons_self) (ih (fun e he => h e (List.mem_cons_of_mem _ he)))

theorem poolDump_go_all {P : Packet → Prop} (pool : Pool) (h : Pool.All P pool) :
    (∀ x ∈ (poolDump.go pool).1, P x) ∧ Pool.All P (poolDump.go pool).2 := by
  induction pool with
  | nil => exact ⟨fun x hx => (by cases hx), Pool.All.nil⟩
  | cons e r ih =>
    obtain ⟨k, q⟩ := e
    have hr : Pool.All P r := fun e he => h e (List.mem_cons_of_mem _ he)
    unfold poolDump.go
    split
    · exact ih hr
    · exact ⟨h (k, q) List.mem_cons_self, hr⟩

theorem poolDump_all {P : Packet → Prop} (pool : Pool) (h : Pool.All P pool) :
    (∀ x ∈ (poolDump pool).1, P x) ∧ Pool.All P (poolDump pool).2 :=
  poolDump_go_all _ (sorted_all pool h)

theorem headD_mem {P : Packet → Prop} (ps : List Packet) (h : ∀ x ∈ ps, P x) (hne : ps.isEmpty = false) :
    P (ps.headD default) := by
  cases ps with
  | nil => cases hne
  | cons x r => exact h x List.mem_cons_self

end Astits

namespace Astits

/-! ### `NextData` in steps: a flushed group, one packet fed to the pool, the two loops -/

theorem logParser_eq (d : Demux) (ps : List Packet) :
    d.logParser ps = { d with parserLog := d.parserLog ++
      (if d.parser = .none then [] else [((ps.headD default).header.pid, ps.map (·.header.continuityCounter))]) } := by
  obtain ⟨r, o, sk, pr, pks, pool, pm, db, sl, pl, si⟩ := d
  unfold Demux.logParser
  by_cases h : pr = .none <;> simp [h]

/-- a flushed group is logged, parsed, and its data buffered: `some` = the call returns, `none` = no data, go on -/
def Demux.group (d : Demux) (ps : List Packet) : Option (Res DemuxerData) × Demux :=
  match parseData ps (d.logParser ps).parser (d.logParser ps).programMap with
  | .err e => (some (.err e), d.logParser ps)
  | .panic => (some .panic, d.logParser ps)
  | .ok ds =>
    match ((d.logParser ps).updateData ds).1 with
    | some x => (some (.ok x), ((d.logParser ps).updateData ds).2)
    | none => (none, ((d.logParser ps).updateData ds).2)

/-- one packet handed to the pool -/
def Demux.feed (d : Demux) (p : Packet) : Option (Res DemuxerData) × Demux :=
  if (poolAdd d.programMap d.pool p).1.isEmpty then (none, { d with pool := (poolAdd d.programMap d.pool p).2 })
  else Demux.group { d with pool := (poolAdd d.programMap d.pool p).2 } (poolAdd d.programMap d.pool p).1

theorem dataLoop_succ (d : Demux) (fuel : Nat) :
    d.dataLoop (fuel + 1) =
      match d.nextPacket.1 with
      | .err .eof => d.nextPacket.2.drain (d.nextPacket.2.pool.length + 1)
      | .err e => (.err e, d.nextPacket.2)
      | .panic => (.panic, d.nextPacket.2)
      | .ok p =>
        match d.nextPacket.2.feed p with
        | (some x, d') => (x, d')
        | (none, d') => d'.dataLoop fuel := by
  conv => lhs; unfold Demux.dataLoop
  rcases hn : d.nextPacket with ⟨rp, d1⟩
  dsimp only
  cases rp with
  | panic => rfl
  | err e => cases e <;> rfl
  | ok p =>
    dsimp only
    unfold Demux.feed
    rcases hpa : poolAdd d1.programMap d1.pool p with ⟨ps, pool'⟩
    dsimp only
    by_cases hps : ps.isEmpty = true
    · simp only [hps, if_true]
    · simp only [hps, if_false, Bool.false_eq_true]
      unfold Demux.group
      cases parseData ps (Demux.logParser { d1 with pool := pool' } ps).parser
          (Demux.logParser { d1 with pool := pool' } ps).programMap with
      | panic => rfl
      | err e => rfl
      | ok ds =>
        dsimp only
        cases ((Demux.logParser { d1 with pool := pool' } ps).updateData ds).1 <;> rfl

theorem drain_succ (d : Demux) (fuel : Nat) :
    d.drain (fuel + 1) =
      if (poolDump d.pool).1.isEmpty then (.err .eof, { d with pool := (poolDump d.pool).2 })
      else
        match Demux.group { d with pool := (poolDump d.pool).2 } (poolDump d.pool).1 with
        | (some (.ok x), d') => (.ok x, d')
        | (some .panic, d') => (.panic, d')
        | (some (.err _), d') => d'.drain fuel
        | (none, d') => d'.drain fuel := by
  conv => lhs; unfold Demux.drain
  rcases hpd : poolDump d.pool with ⟨ps, pool'⟩
  dsimp only
  by_cases hps : ps.isEmpty = true
  · simp only [hps, if_true]
  · simp only [hps, if_false, Bool.false_eq_true]
    unfold Demux.group
    cases parseData ps (Demux.logParser { d with pool := pool' } ps).parser
        (Demux.logParser { d with pool := pool' } ps).programMap with
    | panic => rfl
    | err e => rfl
    | ok ds =>
      dsimp only
      cases ((Demux.logParser { d with pool := pool' } ps).updateData ds).1 <;> rfl

/-- `group` spelled out -/
theorem group_eq (d : Demux) (ps : List Packet) :
    d.group ps =
      match parseData ps d.parser d.programMap with
      | .err e => (some (.err e), d.logParser ps)
      | .panic => (some .panic, d.logParser ps)
      | .ok ds => (ds.head?.map .ok, { d.logParser ps with dataBuffer := d.dataBuffer ++ ds.tail,
                                                             programMap := pmLearn ds d.programMap }) := by
  unfold Demux.group
  have h1 : (d.logParser ps).parser = d.parser := by rw [logParser_eq]
  have h2 : (d.logParser ps).programMap = d.programMap := by rw [logParser_eq]
  have h3 : (d.logParser ps).dataBuffer = d.dataBuffer := by rw [logParser_eq]
  rw [h1, h2]
  cases parseData ps d.parser d.programMap with
  | panic => rfl
  | err e => rfl
  | ok ds =>
    dsimp only
    rw [updateData_eq, h2, h3]
    cases ds <;> rfl

end Astits

namespace Astits

/-! ### frames: the packet source and the data side do not interfere -/

/-- `d'` has the packet-source fields of `d` -/
structure SrcSame (d d' : Demux) : Prop where
  r : d'.r = d.r
  opt : d'.optPacketSize = d.optPacketSize
  skipper : d'.skipper = d.skipper
  packetSize : d'.packetSize = d.packetSize
  skipLog : d'.skipLog = d.skipLog
  skipIdx : d'.skipIdx = d.skipIdx
  /-- (the configured parser kind never changes either) -/
  parser : d'.parser = d.parser

/-- `d'` has the data-side fields of `d` -/
structure DataSame (d d' : Demux) : Prop where
  pool : d'.pool = d.pool
  programMap : d'.programMap = d.programMap
  dataBuffer : d'.dataBuffer = d.dataBuffer
  parser : d'.parser = d.parser
  parserLog : d'.parserLog = d.parserLog

theorem SrcSame.refl (d : Demux) : SrcSame d d := ⟨rfl, rfl, rfl, rfl, rfl, rfl, rfl⟩
theorem DataSame.refl (d : Demux) : DataSame d d := ⟨rfl, rfl, rfl, rfl, rfl⟩
theorem SrcSame.trans {a b c : Demux} (h1 : SrcSame a b) (h2 : SrcSame b c) : SrcSame a c :=
  ⟨h2.r.trans h1.r, h2.opt.trans h1.opt, h2.skipper.trans h1.skipper, h2.packetSize.trans h1.packetSize,
    h2.skipLog.trans h1.skipLog, h2.skipIdx.trans h1.skipIdx, h2.parser.trans h1.parser⟩
theorem DataSame.trans {a b c : Demux} (h1 : DataSame a b) (h2 : DataSame b c) : DataSame a c :=
  ⟨h2.pool.trans h1.pool, h2.programMap.trans h1.programMap, h2.dataBuffer.trans h1.dataBuffer,
    h2.parser.trans h1.parser, h2.parserLog.trans h1.parserLog⟩
theorem DataSame.symm {a b : Demux} (h : DataSame a b) : DataSame b a :=
  ⟨h.pool.symm, h.programMap.symm, h.dataBuffer.symm, h.parser.symm, h.parserLog.symm⟩

theorem group_src (d : Demux) (ps : List Packet) : SrcSame d (d.group ps).2 := by
  rw [group_eq, logParser_eq]
  cases parseData ps d.parser d.programMap <;> exact ⟨rfl, rfl, rfl, rfl, rfl, rfl, rfl⟩

theorem feed_src (d : Demux) (p : Packet) : SrcSame d (d.feed p).2 := by
  unfold Demux.feed
  split
  · exact ⟨rfl, rfl, rfl, rfl, rfl, rfl, rfl⟩
  · exact SrcSame.trans (b := { d with pool := (poolAdd d.programMap d.pool p).2 }) ⟨rfl, rfl, rfl, rfl, rfl, rfl, rfl⟩
      (group_src _ _)

theorem drain_src (fuel : Nat) (d : Demux) : SrcSame d (d.drain fuel).2 := by
  induction fuel generalizing d with
  | zero => exact SrcSame.refl d
  | succ fuel ih =>
    rw [drain_succ]
    have hg := group_src { d with pool := (poolDump d.pool).2 } (poolDump d.pool).1
    have h0 : SrcSame d { d with pool := (poolDump d.pool).2 } := ⟨rfl, rfl, rfl, rfl, rfl, rfl, rfl⟩
    split
    · exact h0
    · rcases hgr : Demux.group { d with pool := (poolDump d.pool).2 } (poolDump d.pool).1 with ⟨x, d'⟩
      rw [hgr] at hg
      have h1 : SrcSame d d' := h0.trans hg
      cases x with
      | none => exact h1.trans (ih d')
      | some x =>
        cases x with
        | ok x => exact h1
        | panic => exact h1
        | err e => exact h1.trans (ih d')

theorem bufferNext_data (n fuel : Nat) (d : Demux) : DataSame d (d.bufferNext n fuel).2 := by
  induction fuel generalizing d with
  | zero => exact DataSame.refl d
  | succ fuel ih =>
    unfold Demux.bufferNext
    rcases hrf : d.r.readFull n with ⟨bs, e, r'⟩
    dsimp only
    cases e with
    | some e => cases e <;> exact ⟨rfl, rfl, rfl, rfl, rfl⟩
    | none =>
      dsimp only
      cases (parsePacket none).val bs with
      | panic => exact ⟨rfl, rfl, rfl, rfl, rfl⟩
      | err e => exact ⟨rfl, rfl, rfl, rfl, rfl⟩
      | ok p =>
        dsimp only
        rw [consultSkipper_eq]
        dsimp only
        split
        · refine DataSame.trans ?_ (ih _)
          exact ⟨rfl, rfl, rfl, rfl, rfl⟩
        · exact ⟨rfl, rfl, rfl, rfl, rfl⟩

/-- the first part of `NextPacket`: the packet buffer is created on first use (explicit size or auto-detection) -/
def Demux.resolveSize (d : Demux) : Res Nat × Demux :=
  match d.packetSize with
  | some s => (.ok s, d)
  | none =>
    if d.optPacketSize ≠ 0 then (.ok d.optPacketSize, { d with packetSize := some d.optPacketSize })
    else
      match (autoDetectPacketSize d.r).1 with
      | .ok s => (.ok s, { d with r := (autoDetectPacketSize d.r).2, packetSize := some s })
      | .err e => (.err e, { d with r := (autoDetectPacketSize d.r).2 })
      | .panic => (.panic, { d with r := (autoDetectPacketSize d.r).2 })

theorem nextPacket_eq (d : Demux) :
    d.nextPacket =
      match d.resolveSize.1 with
      | .ok s => d.resolveSize.2.bufferNext s (d.resolveSize.2.r.data.length + 2)
      | .err e => (.err e, d.resolveSize.2)
      | .panic => (.panic, d.resolveSize.2) := by
  unfold Demux.nextPacket Demux.resolveSize
  cases d.packetSize with
  | some s => rfl
  | none =>
    dsimp only
    by_cases h : d.optPacketSize ≠ 0
    · rw [if_pos h, if_pos h]
    · rw [if_neg h, if_neg h]
      rcases autoDetectPacketSize d.r with ⟨res, r'⟩
      cases res <;> rfl

theorem resolveSize_data (d : Demux) : DataSame d d.resolveSize.2 := by
  unfold Demux.resolveSize
  cases d.packetSize with
  | some s => exact DataSame.refl d
  | none =>
    dsimp only
    by_cases h : d.optPacketSize ≠ 0
    · rw [if_pos h]; exact ⟨rfl, rfl, rfl, rfl, rfl⟩
    · rw [if_neg h]
      cases (autoDetectPacketSize d.r).1 <;> exact ⟨rfl, rfl, rfl, rfl, rfl⟩

theorem nextPacket_data (d : Demux) : DataSame d d.nextPacket.2 := by
  rw [nextPacket_eq]
  have h := resolveSize_data d
  cases d.resolveSize.1 with
  | ok s => exact h.trans (bufferNext_data _ _ _)
  | err e => exact h
  | panic => exact h

/-! ### the data side is a function of the data-side fields -/

theorem group_same (d1 d2 : Demux) (ps : List Packet) (h : DataSame d1 d2) :
    (d2.group ps).1 = (d1.group ps).1 ∧ DataSame (d1.group ps).2 (d2.group ps).2 := by
  rw [group_eq, group_eq, logParser_eq, logParser_eq, h.parser, h.programMap]
  cases parseData ps d1.parser d1.programMap with
  | panic => exact ⟨rfl, by constructor <;> simp [h.pool, h.dataBuffer, h.parserLog]⟩
  | err e => exact ⟨rfl, by constructor <;> simp [h.pool, h.dataBuffer, h.parserLog]⟩
  | ok ds => exact ⟨rfl, by constructor <;> simp [h.pool, h.dataBuffer, h.parserLog]⟩

theorem feed_same (d1 d2 : Demux) (p : Packet) (h : DataSame d1 d2) :
    (d2.feed p).1 = (d1.feed p).1 ∧ DataSame (d1.feed p).2 (d2.feed p).2 := by
  unfold Demux.feed
  rw [h.programMap, h.pool]
  split
  · exact ⟨rfl, rfl, rfl, h.dataBuffer, h.parser, h.parserLog⟩
  · exact group_same _ _ _ ⟨rfl, rfl, h.dataBuffer, h.parser, h.parserLog⟩

theorem drain_same (fuel : Nat) (d1 d2 : Demux) (h : DataSame d1 d2) :
    (d2.drain fuel).1 = (d1.drain fuel).1 ∧ DataSame (d1.drain fuel).2 (d2.drain fuel).2 := by
  induction fuel generalizing d1 d2 with
  | zero => exact ⟨rfl, h⟩
  | succ fuel ih =>
    rw [drain_succ, drain_succ, h.pool]
    have h0 : DataSame { d1 with pool := (poolDump d1.pool).2 } { d2 with pool := (poolDump d1.pool).2 } :=
      ⟨rfl, h.programMap, h.dataBuffer, h.parser, h.parserLog⟩
    split
    · exact ⟨rfl, h0⟩
    · have hg := group_same _ _ (poolDump d1.pool).1 h0
      rcases hg1 : Demux.group { d1 with pool := (poolDump d1.pool).2 } (poolDump d1.pool).1 with ⟨x1, d1'⟩
      rcases hg2 : Demux.group { d2 with pool := (poolDump d1.pool).2 } (poolDump d1.pool).1 with ⟨x2, d2'⟩
      rw [hg1, hg2] at hg
      obtain ⟨hx, hd⟩ := hg
      dsimp only at hx hd
      subst hx
      cases x2 with
      | none => exact ih _ _ hd
      | some x =>
        cases x with
        | ok x => exact ⟨rfl, hd⟩
        | panic => exact ⟨rfl, hd⟩
        | err e => exact ih _ _ hd

end Astits

namespace Astits

/-! ### two demuxers whose program maps differ (C20) -/

/-- the data sides agree except that the first program map additionally knows the PIDs of `L` -/
structure DataRel (L : ProgramMap) (d1 d2 : Demux) : Prop where
  pool : d1.pool = d2.pool
  dataBuffer : d1.dataBuffer = d2.dataBuffer
  parser : d1.parser = d2.parser
  pm : PMExt L d1.programMap d2.programMap

/-- a packet whose PID, if `L` knows it as a PMT PID, is already known to `pm` as well -/
def PidOK (L pm : ProgramMap) (x : Packet) : Prop := L.has x.header.pid = true → pm.has x.header.pid = true

theorem PMExt.agree {L pm1 pm2 : ProgramMap} (h : PMExt L pm1 pm2) {x : Packet} (hok : PidOK L pm2 x) :
    pm1.has x.header.pid = pm2.has x.header.pid := by
  rw [h]
  cases hl : L.has x.header.pid
  · simp
  · simp [hok hl]

theorem Pool.All.mono {P Q : Packet → Prop} {pool : Pool} (h : Pool.All P pool) (hpq : ∀ x, P x → Q x) :
    Pool.All Q pool := fun e he x hx => hpq x (h e he x hx)

/-- the second map only grows -/
def PMGrow (d d' : Demux) : Prop := ∀ x, d.programMap.has x = true → d'.programMap.has x = true

theorem PMGrow.refl (d : Demux) : PMGrow d d := fun _ h => h
theorem PMGrow.trans {a b c : Demux} (h1 : PMGrow a b) (h2 : PMGrow b c) : PMGrow a c := fun x h => h2 x (h1 x h)
theorem PMGrow.of_eq {a b : Demux} (h : b.programMap = a.programMap) : PMGrow a b := fun x hx => by rw [h]; exact hx

theorem PidOK.grow {L : ProgramMap} {d d' : Demux} (hg : PMGrow d d') {x : Packet} (h : PidOK L d.programMap x) :
    PidOK L d'.programMap x := fun hl => hg _ (h hl)

theorem group_lock (L : ProgramMap) (d1 d2 : Demux) (ps : List Packet) (h : DataRel L d1 d2)
    (hok : PidOK L d2.programMap (ps.headD default)) :
    (d1.group ps).1 = (d2.group ps).1 ∧ DataRel L (d1.group ps).2 (d2.group ps).2 ∧
    (d2.group ps).2.pool = d2.pool ∧ PMGrow d2 (d2.group ps).2 := by
  rw [group_eq, group_eq, logParser_eq, logParser_eq, h.parser, parseData_congr _ _ ps _ (h.pm.agree hok)]
  cases parseData ps d2.parser d2.programMap with
  | panic => exact ⟨rfl, ⟨h.pool, h.dataBuffer, rfl, h.pm⟩, rfl, PMGrow.refl _⟩
  | err e => exact ⟨rfl, ⟨h.pool, h.dataBuffer, rfl, h.pm⟩, rfl, PMGrow.refl _⟩
  | ok ds =>
    refine ⟨rfl, ⟨h.pool, ?_, rfl, h.pm.learn ds⟩, rfl, fun x hx => pmLearn_mono ds _ x hx⟩
    show d1.dataBuffer ++ ds.tail = d2.dataBuffer ++ ds.tail
    rw [h.dataBuffer]

theorem feed_lock (L : ProgramMap) (d1 d2 : Demux) (p : Packet) (h : DataRel L d1 d2)
    (hpool : Pool.All (PidOK L d2.programMap) d2.pool) (hp : PidOK L d2.programMap p) :
    (d1.feed p).1 = (d2.feed p).1 ∧ DataRel L (d1.feed p).2 (d2.feed p).2 ∧
    Pool.All (PidOK L (d2.feed p).2.programMap) (d2.feed p).2.pool ∧ PMGrow d2 (d2.feed p).2 := by
  have hall := poolAdd_all d2.programMap d2.pool p hpool hp
  unfold Demux.feed
  rw [h.pool, poolAdd_congr _ _ d2.pool p (h.pm.agree hp)]
  split
  · exact ⟨rfl, ⟨rfl, h.dataBuffer, h.parser, h.pm⟩, hall.2, PMGrow.refl _⟩
  · rename_i hne
    have hne' : (poolAdd d2.programMap d2.pool p).1.isEmpty = false := by simpa using hne
    have hg := group_lock L { d1 with pool := (poolAdd d2.programMap d2.pool p).2 }
      { d2 with pool := (poolAdd d2.programMap d2.pool p).2 } (poolAdd d2.programMap d2.pool p).1
      ⟨rfl, h.dataBuffer, h.parser, h.pm⟩ (headD_mem _ hall.1 hne')
    refine ⟨hg.1, hg.2.1, ?_, hg.2.2.2⟩
    rw [hg.2.2.1]
    exact hall.2.mono (fun x hx => PidOK.grow hg.2.2.2 hx)

theorem drain_lock (L : ProgramMap) (fuel : Nat) (d1 d2 : Demux) (h : DataRel L d1 d2)
    (hpool : Pool.All (PidOK L d2.programMap) d2.pool) :
    (d1.drain fuel).1 = (d2.drain fuel).1 ∧ DataRel L (d1.drain fuel).2 (d2.drain fuel).2 ∧
    Pool.All (PidOK L (d2.drain fuel).2.programMap) (d2.drain fuel).2.pool ∧ PMGrow d2 (d2.drain fuel).2 := by
  induction fuel generalizing d1 d2 with
  | zero => exact ⟨rfl, h, hpool, PMGrow.refl _⟩
  | succ fuel ih =>
    rw [drain_succ, drain_succ, h.pool]
    have hall := poolDump_all d2.pool hpool
    split
    · exact ⟨rfl, ⟨rfl, h.dataBuffer, h.parser, h.pm⟩, hall.2, PMGrow.refl _⟩
    · rename_i hne
      have hne' : (poolDump d2.pool).1.isEmpty = false := by simpa using hne
      have hg := group_lock L { d1 with pool := (poolDump d2.pool).2 } { d2 with pool := (poolDump d2.pool).2 }
        (poolDump d2.pool).1 ⟨rfl, h.dataBuffer, h.parser, h.pm⟩ (headD_mem _ hall.1 hne')
      rcases hg1 : Demux.group { d1 with pool := (poolDump d2.pool).2 } (poolDump d2.pool).1 with ⟨x1, d1'⟩
      rcases hg2 : Demux.group { d2 with pool := (poolDump d2.pool).2 } (poolDump d2.pool).1 with ⟨x2, d2'⟩
      rw [hg1, hg2] at hg
      obtain ⟨hx, hd, hpl, hgr⟩ := hg
      dsimp only at hx hd hpl hgr
      subst hx
      have hpool' : Pool.All (PidOK L d2'.programMap) d2'.pool := by
        rw [hpl]; exact hall.2.mono (fun x hx => PidOK.grow hgr hx)
      have hgr0 : PMGrow d2 d2' := hgr
      cases x1 with
      | none =>
        have := ih d1' d2' hd hpool'
        exact ⟨this.1, this.2.1, this.2.2.1, hgr0.trans this.2.2.2⟩
      | some x =>
        cases x with
        | ok x => exact ⟨rfl, hd, hpool', hgr0⟩
        | panic => exact ⟨rfl, hd, hpool', hgr0⟩
        | err e =>
          have := ih d1' d2' hd hpool'
          exact ⟨this.1, this.2.1, this.2.2.1, hgr0.trans this.2.2.2⟩

end Astits

namespace Astits

/-! ### two demuxers with the same packet source -/

/-- same reader, sizes and skipper; the consultation index matters only for a scripted skipper -/
structure SrcRel (d1 d2 : Demux) : Prop where
  r : d1.r = d2.r
  opt : d1.optPacketSize = d2.optPacketSize
  skipper : d1.skipper = d2.skipper
  packetSize : d1.packetSize = d2.packetSize
  idx : d1.skipIdx = d2.skipIdx ∨ ∀ ds, d1.skipper ≠ .script ds

theorem SrcRel.transfer {d1 d2 d1' d2' : Demux} (h : SrcRel d1 d2) (h1 : SrcSame d1 d1') (h2 : SrcSame d2 d2') :
    SrcRel d1' d2' := by
  refine ⟨by rw [h1.r, h2.r, h.r], by rw [h1.opt, h2.opt, h.opt], by rw [h1.skipper, h2.skipper, h.skipper],
    by rw [h1.packetSize, h2.packetSize, h.packetSize], ?_⟩
  rw [h1.skipIdx, h2.skipIdx, h1.skipper]
  exact h.idx

theorem DataRel.transfer {L : ProgramMap} {d1 d2 d1' d2' : Demux} (h : DataRel L d1 d2) (h1 : DataSame d1 d1')
    (h2 : DataSame d2 d2') : DataRel L d1' d2' :=
  ⟨by rw [h1.pool, h2.pool, h.pool], by rw [h1.dataBuffer, h2.dataBuffer, h.dataBuffer],
    by rw [h1.parser, h2.parser, h.parser], by rw [h1.programMap, h2.programMap]; exact h.pm⟩

theorem SrcRel.decision {d1 d2 : Demux} (h : SrcRel d1 d2) (p : Packet) :
    d1.skipper.decision d1.skipIdx p = d2.skipper.decision d2.skipIdx p := by
  rw [← h.skipper]
  cases hs : d1.skipper with
  | none => rfl
  | pred f => rfl
  | script ds =>
    rcases h.idx with hi | hi
    · rw [hi]
    · exact absurd hs (hi ds)

theorem bufferNext_lock (n fuel : Nat) (d1 d2 : Demux) (h : SrcRel d1 d2) :
    (d1.bufferNext n fuel).1 = (d2.bufferNext n fuel).1 ∧ SrcRel (d1.bufferNext n fuel).2 (d2.bufferNext n fuel).2 := by
  induction fuel generalizing d1 d2 with
  | zero => exact ⟨rfl, h⟩
  | succ fuel ih =>
    unfold Demux.bufferNext
    rw [h.r]
    rcases hrf : d2.r.readFull n with ⟨bs, e, r'⟩
    dsimp only
    cases e with
    | some e => cases e <;> exact ⟨rfl, rfl, h.opt, h.skipper, h.packetSize, h.idx⟩
    | none =>
      dsimp only
      cases (parsePacket none).val bs with
      | panic => exact ⟨rfl, rfl, h.opt, h.skipper, h.packetSize, h.idx⟩
      | err e => exact ⟨rfl, rfl, h.opt, h.skipper, h.packetSize, h.idx⟩
      | ok p =>
        dsimp only
        rw [consultSkipper_eq, consultSkipper_eq]
        dsimp only
        have hdec : d1.skipper.decision d1.skipIdx { p with payload := [] }
            = d2.skipper.decision d2.skipIdx { p with payload := [] } := h.decision (shown p)
        have hidx : d1.skipper.bump d1.skipIdx = d2.skipper.bump d2.skipIdx ∨ ∀ ds, d1.skipper ≠ .script ds := by
          rcases h.idx with hi | hi
          · left; rw [hi, h.skipper]
          · right; exact hi
        rw [hdec]
        split
        · exact ih _ _ ⟨rfl, h.opt, h.skipper, h.packetSize, hidx⟩
        · exact ⟨rfl, rfl, h.opt, h.skipper, h.packetSize, hidx⟩

theorem resolveSize_lock (d1 d2 : Demux) (h : SrcRel d1 d2) :
    d1.resolveSize.1 = d2.resolveSize.1 ∧ SrcRel d1.resolveSize.2 d2.resolveSize.2 := by
  unfold Demux.resolveSize
  rw [h.packetSize, h.opt, h.r]
  cases d2.packetSize with
  | some s => exact ⟨rfl, h⟩
  | none =>
    dsimp only
    by_cases hz : d2.optPacketSize ≠ 0
    · rw [if_pos hz, if_pos hz]; exact ⟨rfl, rfl, rfl, h.skipper, rfl, h.idx⟩
    · rw [if_neg hz, if_neg hz]
      cases (autoDetectPacketSize d2.r).1 with
      | ok s => exact ⟨rfl, rfl, rfl, h.skipper, rfl, h.idx⟩
      | err e => exact ⟨rfl, rfl, rfl, h.skipper, rfl, h.idx⟩
      | panic => exact ⟨rfl, rfl, rfl, h.skipper, rfl, h.idx⟩

/-- `NextPacket` does not depend on the program map, the pool, the data buffer or the logs -/
theorem nextPacket_lock (d1 d2 : Demux) (h : SrcRel d1 d2) :
    d1.nextPacket.1 = d2.nextPacket.1 ∧ SrcRel d1.nextPacket.2 d2.nextPacket.2 := by
  rw [nextPacket_eq, nextPacket_eq]
  obtain ⟨h1, h2⟩ := resolveSize_lock d1 d2 h
  rw [h1]
  cases d2.resolveSize.1 with
  | ok s => rw [h2.r]; exact bufferNext_lock _ _ _ _ h2
  | err e => exact ⟨rfl, h2⟩
  | panic => exact ⟨rfl, h2⟩

/-! ### the packets a `NextData` call hands to the pool -/

/-- the packets `dataLoop` feeds to the pool before it returns -/
def Demux.fed (d : Demux) : Nat → List Packet
  | 0 => []
  | fuel + 1 =>
    match d.nextPacket.1 with
    | .ok p =>
      p :: (match (d.nextPacket.2.feed p).1 with
            | none => (d.nextPacket.2.feed p).2.fed fuel
            | some _ => [])
    | _ => []

/-- the packets a `NextData` call hands to the pool (none when buffered data are returned) -/
def Demux.fedByNextData (d : Demux) : List Packet :=
  match d.dataBuffer with
  | _ :: _ => []
  | [] => d.fed (d.r.data.length + 2)

/-- both relations and the pool invariant -/
structure Lock (L : ProgramMap) (d1 d2 : Demux) : Prop where
  src : SrcRel d1 d2
  data : DataRel L d1 d2
  pool : Pool.All (PidOK L d2.programMap) d2.pool

theorem dataLoop_lock (L : ProgramMap) (fuel : Nat) (d1 d2 : Demux) (h : Lock L d1 d2)
    (hfed : ∀ x ∈ d2.fed fuel, PidOK L d2.programMap x) :
    (d1.dataLoop fuel).1 = (d2.dataLoop fuel).1 ∧ Lock L (d1.dataLoop fuel).2 (d2.dataLoop fuel).2 ∧
    PMGrow d2 (d2.dataLoop fuel).2 := by
  induction fuel generalizing d1 d2 with
  | zero => exact ⟨rfl, h, PMGrow.refl _⟩
  | succ fuel ih =>
    rw [dataLoop_succ, dataLoop_succ]
    obtain ⟨hres, hsrc⟩ := nextPacket_lock d1 d2 h.src
    have hd1 := nextPacket_data d1
    have hd2 := nextPacket_data d2
    have hdata : DataRel L d1.nextPacket.2 d2.nextPacket.2 := h.data.transfer hd1 hd2
    have hgrow0 : PMGrow d2 d2.nextPacket.2 := PMGrow.of_eq hd2.programMap
    have hpool : Pool.All (PidOK L d2.nextPacket.2.programMap) d2.nextPacket.2.pool := by
      rw [hd2.pool, hd2.programMap]; exact h.pool
    rw [hres]
    unfold Demux.fed at hfed
    cases hrp : d2.nextPacket.1 with
    | panic => exact ⟨rfl, ⟨hsrc, hdata, hpool⟩, hgrow0⟩
    | err e =>
      have herr : ∀ e' : Err, e' ≠ .eof →
          (((.err e', d1.nextPacket.2) : Res DemuxerData × Demux)).1 = ((.err e', d2.nextPacket.2) : Res DemuxerData × Demux).1 ∧
          Lock L d1.nextPacket.2 d2.nextPacket.2 ∧ PMGrow d2 d2.nextPacket.2 :=
        fun _ _ => ⟨rfl, ⟨hsrc, hdata, hpool⟩, hgrow0⟩
      cases e with
      | eof =>
        dsimp only
        rw [hdata.pool]
        have hdr := drain_lock L (d2.nextPacket.2.pool.length + 1) _ _ hdata hpool
        refine ⟨hdr.1, ⟨hsrc.transfer (drain_src _ _) (drain_src _ _), hdr.2.1, hdr.2.2.1⟩, hgrow0.trans hdr.2.2.2⟩
      | other => exact herr _ (by simp)
      | sync => exact herr _ (by simp)
      | io => exact herr _ (by simp)
      | skipped => exact herr _ (by simp)
      | pidNotFound => exact herr _ (by simp)
      | pidExists => exact herr _ (by simp)
      | pcrInvalid => exact herr _ (by simp)
      | parser => exact herr _ (by simp)
    | ok p =>
      rw [hrp] at hfed
      dsimp only at hfed ⊢
      have hp : PidOK L d2.nextPacket.2.programMap p := by
        rw [hd2.programMap]; exact hfed p List.mem_cons_self
      have hf := feed_lock L _ _ p hdata hpool hp
      have hs' : SrcRel (d1.nextPacket.2.feed p).2 (d2.nextPacket.2.feed p).2 :=
        hsrc.transfer (feed_src _ _) (feed_src _ _)
      have hgrow1 : PMGrow d2 (d2.nextPacket.2.feed p).2 := hgrow0.trans hf.2.2.2
      rcases hf1 : d1.nextPacket.2.feed p with ⟨x1, d1'⟩
      rcases hf2 : d2.nextPacket.2.feed p with ⟨x2, d2'⟩
      rw [hf1, hf2] at hf hs'
      rw [hf2] at hfed hgrow1
      obtain ⟨hx, hd, hpl, _⟩ := hf
      dsimp only at hx hd hpl hs' hgrow1 hfed
      subst hx
      cases x1 with
      | some x => exact ⟨rfl, ⟨hs', hd, hpl⟩, hgrow1⟩
      | none =>
        dsimp only at hfed ⊢
        have := ih d1' d2' ⟨hs', hd, hpl⟩
          (fun x hx => PidOK.grow hgrow1 (hfed x (List.mem_cons_of_mem _ hx)))
        exact ⟨this.1, this.2.1, hgrow1.trans this.2.2⟩

theorem nextData_lock (L : ProgramMap) (d1 d2 : Demux) (h : Lock L d1 d2)
    (hfed : ∀ x ∈ d2.fedByNextData, PidOK L d2.programMap x) :
    d1.nextData.1 = d2.nextData.1 ∧ Lock L d1.nextData.2 d2.nextData.2 ∧ PMGrow d2 d2.nextData.2 := by
  unfold Demux.nextData
  unfold Demux.fedByNextData at hfed
  rw [h.data.dataBuffer]
  cases hdb : d2.dataBuffer with
  | cons x rest =>
    exact ⟨rfl, ⟨⟨h.src.r, h.src.opt, h.src.skipper, h.src.packetSize, h.src.idx⟩,
      ⟨h.data.pool, rfl, h.data.parser, h.data.pm⟩, h.pool⟩, PMGrow.refl _⟩
  | nil =>
    rw [hdb] at hfed
    dsimp only
    rw [h.src.r]
    exact dataLoop_lock L _ d1 d2 h hfed

end Astits

namespace Astits

/-! ### call sequences in lock step -/

instance (L pm : ProgramMap) (x : Packet) : Decidable (PidOK L pm x) := by unfold PidOK; exact inferInstance

/-- **the hypothesis of C20** ("the PAT precedes the PMTs"), stated on the run of the fresh demuxer `d`: whenever a
`NextData` call hands a packet to the pool whose PID the kept program map `L` knows as a PMT PID, the fresh
demuxer knows that PID too at that moment (the PAT announcing it has been delivered by an earlier call) -/
def Compatible (L : ProgramMap) : Demux → List ApiCall → Prop
  | _, [] => True
  | d, .nextPacket :: cs => Compatible L d.nextPacket.2 cs
  | d, .nextData :: cs => (∀ x ∈ d.fedByNextData, PidOK L d.programMap x) ∧ Compatible L d.nextData.2 cs

instance decCompatible (L : ProgramMap) : (d : Demux) → (cs : List ApiCall) → Decidable (Compatible L d cs)
  | _, [] => isTrue trivial
  | d, .nextPacket :: cs => decCompatible L d.nextPacket.2 cs
  | d, .nextData :: cs =>
    match (inferInstance : Decidable (∀ x ∈ d.fedByNextData, PidOK L d.programMap x)), decCompatible L d.nextData.2 cs with
    | isTrue h1, isTrue h2 => isTrue ⟨h1, h2⟩
    | isFalse h1, _ => isFalse (fun h => h1 h.1)
    | _, isFalse h2 => isFalse (fun h => h2 h.2)

theorem nextPacket_Lock (L : ProgramMap) (d1 d2 : Demux) (h : Lock L d1 d2) :
    d1.nextPacket.1 = d2.nextPacket.1 ∧ Lock L d1.nextPacket.2 d2.nextPacket.2 := by
  obtain ⟨hres, hsrc⟩ := nextPacket_lock d1 d2 h.src
  have hd2 := nextPacket_data d2
  refine ⟨hres, hsrc, h.data.transfer (nextPacket_data d1) hd2, ?_⟩
  rw [hd2.pool, hd2.programMap]; exact h.pool

/-- **lock step**: two demuxers on the same reader whose program maps differ by `L` return the same results for
every call sequence that is `Compatible` with `L` -/
theorem runCalls_lock (L : ProgramMap) (cs : List ApiCall) (d1 d2 : Demux) (h : Lock L d1 d2) (hc : Compatible L d2 cs) :
    d1.runCalls cs = d2.runCalls cs := by
  induction cs generalizing d1 d2 with
  | nil => rfl
  | cons c cs ih =>
    cases c with
    | nextPacket =>
      obtain ⟨hres, hl⟩ := nextPacket_Lock L d1 d2 h
      show CallResult.packet d1.nextPacket.1 :: d1.nextPacket.2.runCalls cs
        = CallResult.packet d2.nextPacket.1 :: d2.nextPacket.2.runCalls cs
      rw [hres, ih _ _ hl hc]
    | nextData =>
      obtain ⟨hres, hl, _⟩ := nextData_lock L d1 d2 h hc.1
      show CallResult.data d1.nextData.1 :: d1.nextData.2.runCalls cs
        = CallResult.data d2.nextData.1 :: d2.nextData.2.runCalls cs
      rw [hres, ih _ _ hl hc.2]

theorem compatible_of_nextPacket_only (L : ProgramMap) (cs : List ApiCall) (h : ∀ c ∈ cs, c = ApiCall.nextPacket) (d : Demux) :
    Compatible L d cs := by
  induction cs generalizing d with
  | nil => trivial
  | cons c cs ih =>
    have hc := h c List.mem_cons_self
    subst hc
    exact ih (fun c hc => h c (List.mem_cons_of_mem _ hc)) _

theorem compatible_of_empty (L : ProgramMap) (hL : ∀ x, L.has x = false) (cs : List ApiCall) (d : Demux) :
    Compatible L d cs := by
  induction cs generalizing d with
  | nil => trivial
  | cons c cs ih =>
    cases c with
    | nextPacket => exact ih _
    | nextData => exact ⟨fun x _ hl => (by rw [hL] at hl; cases hl), ih _⟩

/-! ### what no call ever changes -/

/-- same bytes, kind and fault script: only the position may differ -/
structure Reader.Same (r r' : Reader) : Prop where
  data : r'.data = r.data
  kind : r'.kind = r.kind
  faultAt : r'.faultAt = r.faultAt
  faultOnce : r'.faultOnce = r.faultOnce
  faultDone : r'.faultDone = r.faultDone

theorem Reader.Same.refl (r : Reader) : Reader.Same r r := ⟨rfl, rfl, rfl, rfl, rfl⟩
theorem Reader.Same.trans {a b c : Reader} (h1 : Reader.Same a b) (h2 : Reader.Same b c) : Reader.Same a c :=
  ⟨h2.data.trans h1.data, h2.kind.trans h1.kind, h2.faultAt.trans h1.faultAt, h2.faultOnce.trans h1.faultOnce,
    h2.faultDone.trans h1.faultDone⟩

theorem readFull_same (r : Reader) (n : Nat) (hf : r.faultAt = none) : Reader.Same r (r.readFull n).2.2 := by
  have hfa := Reader.faultActive_none hf
  unfold Reader.readFull
  simp only [hfa]
  split
  · exact ⟨rfl, rfl, rfl, rfl, rfl⟩
  · split <;> exact ⟨rfl, rfl, rfl, rfl, rfl⟩

theorem autoDetect_same (r : Reader) (hf : r.faultAt = none) (hk : r.kind = .seek) :
    Reader.Same r (autoDetectPacketSize r).2 := by
  have h1 := readFull_same r 193 hf
  unfold autoDetectPacketSize
  dsimp only
  rcases hrf : r.readFull 193 with ⟨bs, e, r'⟩
  rw [hrf] at h1
  dsimp only at h1
  have h2 : ∀ p, Reader.Same r { r' with pos := p } := fun _ => ⟨h1.data, h1.kind, h1.faultAt, h1.faultOnce, h1.faultDone⟩
  simp only [hk]
  repeat' split
  all_goals first | exact h1 | exact h2 _

/-- the configuration and the reader's contents -/
structure Static (d d' : Demux) : Prop where
  r : Reader.Same d.r d'.r
  opt : d'.optPacketSize = d.optPacketSize
  skipper : d'.skipper = d.skipper
  parser : d'.parser = d.parser

theorem Static.refl (d : Demux) : Static d d := ⟨Reader.Same.refl _, rfl, rfl, rfl⟩
theorem Static.trans {a b c : Demux} (h1 : Static a b) (h2 : Static b c) : Static a c :=
  ⟨h1.r.trans h2.r, h2.opt.trans h1.opt, h2.skipper.trans h1.skipper, h2.parser.trans h1.parser⟩
theorem Static.of_srcSame {d d' : Demux} (h : SrcSame d d') : Static d d' :=
  ⟨by rw [h.r]; exact Reader.Same.refl _, h.opt, h.skipper, h.parser⟩

/-- fault-free seekable reader -/
def Demux.Seekable (d : Demux) : Prop := d.r.faultAt = none ∧ d.r.kind = .seek

theorem Static.seekable {d d' : Demux} (h : Static d d') (hs : d.Seekable) : d'.Seekable :=
  ⟨by rw [h.r.faultAt]; exact hs.1, by rw [h.r.kind]; exact hs.2⟩

theorem bufferNext_static (n fuel : Nat) (d : Demux) (hf : d.r.faultAt = none) : Static d (d.bufferNext n fuel).2 := by
  induction fuel generalizing d with
  | zero => exact Static.refl d
  | succ fuel ih =>
    have hs := readFull_same d.r n hf
    unfold Demux.bufferNext
    rcases hrf : d.r.readFull n with ⟨bs, e, r'⟩
    rw [hrf] at hs
    dsimp only at hs ⊢
    have h0 : Static d { d with r := r' } := ⟨hs, rfl, rfl, rfl⟩
    cases e with
    | some e => cases e <;> exact h0
    | none =>
      dsimp only
      cases (parsePacket none).val bs with
      | panic => exact h0
      | err e => exact h0
      | ok p =>
        dsimp only
        rw [consultSkipper_eq]
        dsimp only
        split
        · refine Static.trans (b := { d with r := r' }) h0 (Static.trans ?_ (ih _ ?_))
          · exact ⟨Reader.Same.refl _, rfl, rfl, rfl⟩
          · show r'.faultAt = none
            rw [hs.faultAt]; exact hf
        · exact ⟨hs, rfl, rfl, rfl⟩

theorem resolveSize_static (d : Demux) (hs : d.Seekable) : Static d d.resolveSize.2 := by
  have ha := autoDetect_same d.r hs.1 hs.2
  unfold Demux.resolveSize
  cases d.packetSize with
  | some s => exact Static.refl d
  | none =>
    dsimp only
    by_cases hz : d.optPacketSize ≠ 0
    · rw [if_pos hz]; exact ⟨Reader.Same.refl _, rfl, rfl, rfl⟩
    · rw [if_neg hz]
      cases (autoDetectPacketSize d.r).1 <;> exact ⟨ha, rfl, rfl, rfl⟩

theorem nextPacket_static (d : Demux) (hs : d.Seekable) : Static d d.nextPacket.2 := by
  rw [nextPacket_eq]
  have h := resolveSize_static d hs
  cases d.resolveSize.1 with
  | ok s => exact h.trans (bufferNext_static _ _ _ (h.seekable hs).1)
  | err e => exact h
  | panic => exact h

theorem dataLoop_static (fuel : Nat) (d : Demux) (hs : d.Seekable) : Static d (d.dataLoop fuel).2 := by
  induction fuel generalizing d with
  | zero => exact Static.refl d
  | succ fuel ih =>
    rw [dataLoop_succ]
    have h1 := nextPacket_static d hs
    have hs1 := h1.seekable hs
    cases d.nextPacket.1 with
    | panic => exact h1
    | err e => cases e <;> first | exact h1 | exact h1.trans (Static.of_srcSame (drain_src _ _))
    | ok p =>
      dsimp only
      have h2 : Static d.nextPacket.2 (d.nextPacket.2.feed p).2 := Static.of_srcSame (feed_src _ _)
      rcases hf : d.nextPacket.2.feed p with ⟨x, d'⟩
      rw [hf] at h2
      cases x with
      | some x => exact h1.trans h2
      | none => exact (h1.trans h2).trans (ih d' (h2.seekable hs1))

theorem nextData_static (d : Demux) (hs : d.Seekable) : Static d d.nextData.2 := by
  unfold Demux.nextData
  split
  · exact ⟨Reader.Same.refl _, rfl, rfl, rfl⟩
  · exact dataLoop_static _ d hs

theorem after_static (cs : List ApiCall) (d : Demux) (hs : d.Seekable) : Static d (d.after cs) := by
  induction cs generalizing d with
  | nil => exact Static.refl d
  | cons c cs ih =>
    cases c with
    | nextPacket =>
      have h := nextPacket_static d hs
      exact h.trans (ih d.nextPacket.2 (h.seekable hs))
    | nextData =>
      have h := nextData_static d hs
      exact h.trans (ih d.nextData.2 (h.seekable hs))

end Astits

namespace Astits

/-! ### a skipping demuxer and a plain demuxer on the surviving packets, in lock step (C19) -/

theorem dataLoop_succ' (d : Demux) (fuel : Nat) :
    d.dataLoop (fuel + 1) =
      if d.nextPacket.1.isEOF then d.nextPacket.2.drain (d.nextPacket.2.pool.length + 1)
      else
        match d.nextPacket.1 with
        | .err e => (.err e, d.nextPacket.2)
        | .panic => (.panic, d.nextPacket.2)
        | .ok p =>
          match d.nextPacket.2.feed p with
          | (some x, d') => (x, d')
          | (none, d') => d'.dataLoop fuel := by
  rw [dataLoop_succ]
  cases d.nextPacket.1 with
  | ok p => rfl
  | panic => rfl
  | err e => cases e <;> rfl

theorem srcNext_none_cons (k : Nat) (c : Bytes) (tl : List Bytes) :
    (srcNext .none k (c :: tl)).res = pktRes c ∧ (srcNext .none k (c :: tl)).rest = tl ∧
    (srcNext .none k (c :: tl)).idx = k := by
  rw [srcNext_cons]
  unfold pktRes
  cases (parsePacket none).val c with
  | panic => exact ⟨rfl, rfl, rfl⟩
  | err e => exact ⟨rfl, rfl, rfl⟩
  | ok p => exact ⟨rfl, rfl, rfl⟩

/-- `d1` skips with `s` and still has the packets `cs` to read; `d2` has no skipper and still has the surviving
packets to read; everything else (pool, program map, buffered data, parser log) is identical -/
structure Sim (n : Nat) (s : Skipper) (cs : List Bytes) (d1 d2 : Demux) : Prop where
  chunks : Chunks n cs
  sk1 : d1.skipper = s
  sk2 : d2.skipper = .none
  rem1 : d1.r.Rem cs.flatten
  rem2 : d2.r.Rem (survivors s d1.skipIdx cs).flatten
  size1 : d1.SizeIs n
  size2 : d2.SizeIs n
  data : DataSame d1 d2

theorem Sim.transfer {n : Nat} {s : Skipper} {cs : List Bytes} {d1 d2 d1' d2' : Demux} (h : Sim n s cs d1 d2)
    (h1 : SrcSame d1 d1') (h2 : SrcSame d2 d2') (hd : DataSame d1' d2') : Sim n s cs d1' d2' := by
  refine ⟨h.chunks, by rw [h1.skipper]; exact h.sk1, by rw [h2.skipper]; exact h.sk2, by rw [h1.r]; exact h.rem1,
    by rw [h2.r, h1.skipIdx]; exact h.rem2, ?_, ?_, hd⟩
  · unfold Demux.SizeIs; rw [h1.packetSize, h1.opt]; exact h.size1
  · unfold Demux.SizeIs; rw [h2.packetSize, h2.opt]; exact h.size2

theorem pktState_data (d : Demux) (n : Nat) (o : SrcOut) : DataSame d (d.pktState n o) := ⟨rfl, rfl, rfl, rfl, rfl⟩

/-- one `NextPacket` on both sides: same result; afterwards still similar, on the packets left -/
theorem nextPacket_sim (n : Nat) (hn : 0 < n) (s : Skipper) (cs : List Bytes) (d1 d2 : Demux) (h : Sim n s cs d1 d2) :
    d1.nextPacket.1 = d2.nextPacket.1 ∧
    ∃ cs', Sim n s cs' d1.nextPacket.2 d2.nextPacket.2 ∧
      (survivors s d1.nextPacket.2.skipIdx cs').length ≤ (survivors s d1.skipIdx cs).length ∧
      (d2.nextPacket.1.isEOF = false →
        (survivors s d1.nextPacket.2.skipIdx cs').length < (survivors s d1.skipIdx cs).length) := by
  obtain ⟨h1, hr1⟩ := nextPacket_src n hn s cs h.chunks d1.skipIdx d1 h.sk1 rfl h.size1 h.rem1
  obtain ⟨h2, hr2⟩ := nextPacket_src n hn .none (survivors s d1.skipIdx cs) (h.chunks.survivors s _) d2.skipIdx d2
    h.sk2 rfl h.size2 h.rem2
  rw [h1, h2]
  have hdata : DataSame (d1.pktState n (srcNext s d1.skipIdx cs))
      (d2.pktState n (srcNext .none d2.skipIdx (survivors s d1.skipIdx cs))) :=
    ((pktState_data d1 n _).symm.trans h.data).trans (pktState_data d2 n _)
  rcases survivors_srcNext s d1.skipIdx cs with ⟨e1, e2, e3⟩ | ⟨c, e1, e2⟩
  · rw [e1] at hr2 hdata ⊢
    refine ⟨by rw [e2]; rfl, [], ⟨(by intro c hc; cases hc), h.sk1, h.sk2, (by rw [e3] at hr1; exact hr1), ?_, Or.inl rfl,
      Or.inl rfl, hdata⟩, (by simp [survivors]), ?_⟩
    · simpa [survivors, srcNext] using hr2
    · intro hne; simp [srcNext, Res.isEOF] at hne
  · rw [e1] at hr2 hdata ⊢
    obtain ⟨f1, f2, f3⟩ := srcNext_none_cons d2.skipIdx c (survivors s (srcNext s d1.skipIdx cs).idx (srcNext s d1.skipIdx cs).rest)
    refine ⟨by rw [e2, f1], (srcNext s d1.skipIdx cs).rest, ⟨h.chunks.srcNext s _, h.sk1, h.sk2, hr1, ?_, Or.inl rfl,
      Or.inl rfl, hdata⟩, ?_, ?_⟩
    · rw [f2] at hr2; exact hr2
    · show (survivors s (srcNext s d1.skipIdx cs).idx (srcNext s d1.skipIdx cs).rest).length ≤ _
      simp
    · intro _
      show (survivors s (srcNext s d1.skipIdx cs).idx (srcNext s d1.skipIdx cs).rest).length < _
      simp

theorem dataLoop_sim (n : Nat) (hn : 0 < n) (s : Skipper) (f1 : Nat) (f2 : Nat) (cs : List Bytes) (d1 d2 : Demux)
    (h : Sim n s cs d1 d2) (hf1 : (survivors s d1.skipIdx cs).length + 1 ≤ f1)
    (hf2 : (survivors s d1.skipIdx cs).length + 1 ≤ f2) :
    (d1.dataLoop f1).1 = (d2.dataLoop f2).1 ∧ ∃ cs', Sim n s cs' (d1.dataLoop f1).2 (d2.dataLoop f2).2 := by
  induction f1 generalizing f2 cs d1 d2 with
  | zero => omega
  | succ f1 ih =>
    obtain ⟨f2, rfl⟩ : ∃ f, f2 = f + 1 := ⟨f2 - 1, by omega⟩
    rw [dataLoop_succ', dataLoop_succ']
    obtain ⟨hres, cs', hsim, hle, hlt⟩ := nextPacket_sim n hn s cs d1 d2 h
    rw [hres]
    by_cases heof : d2.nextPacket.1.isEOF = true
    · rw [if_pos heof, if_pos heof, hsim.data.pool]
      have hdr := drain_same (d1.nextPacket.2.pool.length + 1) _ _ hsim.data
      exact ⟨hdr.1.symm, cs', hsim.transfer (drain_src _ _) (drain_src _ _) hdr.2⟩
    · rw [if_neg heof, if_neg heof]
      have hlt' := hlt (by simpa using heof)
      cases hrp : d2.nextPacket.1 with
      | panic => exact ⟨rfl, cs', hsim⟩
      | err e => exact ⟨rfl, cs', hsim⟩
      | ok p =>
        dsimp only
        have hfd := feed_same _ _ p hsim.data
        have hsim' := hsim.transfer (feed_src _ p) (feed_src _ p) hfd.2
        rcases hf1' : d1.nextPacket.2.feed p with ⟨x1, d1'⟩
        rcases hf2' : d2.nextPacket.2.feed p with ⟨x2, d2'⟩
        rw [hf1', hf2'] at hfd hsim'
        obtain ⟨hx, _⟩ := hfd
        dsimp only at hx hsim'
        subst hx
        cases x2 with
        | some x => exact ⟨rfl, cs', hsim'⟩
        | none =>
          dsimp only
          have hidx : d1'.skipIdx = d1.nextPacket.2.skipIdx := by
            have := (feed_src d1.nextPacket.2 p).skipIdx
            rw [hf1'] at this; exact this
          exact ih f2 cs' d1' d2' hsim' (by rw [hidx]; omega) (by rw [hidx]; omega)

theorem nextData_sim (n : Nat) (hn : 0 < n) (s : Skipper) (cs : List Bytes) (d1 d2 : Demux) (h : Sim n s cs d1 d2) :
    d1.nextData.1 = d2.nextData.1 ∧ ∃ cs', Sim n s cs' d1.nextData.2 d2.nextData.2 := by
  unfold Demux.nextData
  rw [h.data.dataBuffer]
  cases hdb : d1.dataBuffer with
  | cons x rest =>
    refine ⟨rfl, cs, h.transfer ⟨rfl, rfl, rfl, rfl, rfl, rfl, rfl⟩ ⟨rfl, rfl, rfl, rfl, rfl, rfl, rfl⟩ ?_⟩
    exact ⟨h.data.pool, h.data.programMap, rfl, h.data.parser, h.data.parserLog⟩
  | nil =>
    dsimp only
    have hl := survivors_length_le s d1.skipIdx cs
    have h1 := h.rem1.chunks_le h.chunks hn
    have h2 := h.rem2.chunks_le (h.chunks.survivors s _) hn
    exact dataLoop_sim n hn s _ _ cs d1 d2 h (by omega) (by omega)

/-- **any call sequence**: same results, and the data sides stay identical (the pool never sees a skipped packet) -/
theorem runCalls_sim (n : Nat) (hn : 0 < n) (s : Skipper) (calls : List ApiCall) (cs : List Bytes) (d1 d2 : Demux)
    (h : Sim n s cs d1 d2) :
    d1.runCalls calls = d2.runCalls calls ∧ DataSame (d1.after calls) (d2.after calls) := by
  induction calls generalizing cs d1 d2 with
  | nil => exact ⟨rfl, h.data⟩
  | cons c calls ih =>
    cases c with
    | nextPacket =>
      obtain ⟨hres, cs', hsim, _⟩ := nextPacket_sim n hn s cs d1 d2 h
      have := ih cs' _ _ hsim
      refine ⟨?_, this.2⟩
      show CallResult.packet d1.nextPacket.1 :: d1.nextPacket.2.runCalls calls
        = CallResult.packet d2.nextPacket.1 :: d2.nextPacket.2.runCalls calls
      rw [hres, this.1]
    | nextData =>
      obtain ⟨hres, cs', hsim⟩ := nextData_sim n hn s cs d1 d2 h
      have := ih cs' _ _ hsim
      refine ⟨?_, this.2⟩
      show CallResult.data d1.nextData.1 :: d1.nextData.2.runCalls calls
        = CallResult.data d2.nextData.1 :: d2.nextData.2.runCalls calls
      rw [hres, this.1]

/-- results of repeated `NextData` calls up to (excluding) the first `ErrNoMorePackets`, and the final state -/
def Demux.dataToEOF (d : Demux) : Nat → List (Res DemuxerData) × Demux
  | 0 => ([], d)
  | fuel + 1 =>
    if d.nextData.1.isEOF then ([], d.nextData.2)
    else (d.nextData.1 :: (d.nextData.2.dataToEOF fuel).1, (d.nextData.2.dataToEOF fuel).2)

theorem dataToEOF_sim (n : Nat) (hn : 0 < n) (s : Skipper) (fuel : Nat) (cs : List Bytes) (d1 d2 : Demux)
    (h : Sim n s cs d1 d2) :
    (d1.dataToEOF fuel).1 = (d2.dataToEOF fuel).1 ∧ DataSame (d1.dataToEOF fuel).2 (d2.dataToEOF fuel).2 := by
  induction fuel generalizing cs d1 d2 with
  | zero => exact ⟨rfl, h.data⟩
  | succ fuel ih =>
    obtain ⟨hres, cs', hsim⟩ := nextData_sim n hn s cs d1 d2 h
    unfold Demux.dataToEOF
    rw [hres]
    split
    · exact ⟨rfl, hsim.data⟩
    · have := ih cs' _ _ hsim
      exact ⟨by rw [this.1], this.2⟩

end Astits

namespace Astits

/-! ### more about `Compatible` -/

/-- lock step is kept by every compatible call sequence (in particular the readers stay at the same offset) -/
theorem after_lock (L : ProgramMap) (cs : List ApiCall) (d1 d2 : Demux) (h : Lock L d1 d2) (hc : Compatible L d2 cs) :
    Lock L (d1.after cs) (d2.after cs) := by
  induction cs generalizing d1 d2 with
  | nil => exact h
  | cons c cs ih =>
    cases c with
    | nextPacket => exact ih _ _ (nextPacket_Lock L d1 d2 h).2 hc
    | nextData => exact ih _ _ (nextData_lock L d1 d2 h hc.1).2.1 hc.2

/-- the program map of a demuxer only grows -/
theorem nextData_grow (d : Demux) : PMGrow d d.nextData.2 := by
  have h : Lock [] d d := ⟨⟨rfl, rfl, rfl, rfl, Or.inl rfl⟩, ⟨rfl, rfl, rfl, fun x => by simp [ProgramMap.has]⟩,
    fun e _ x _ hl => by simp [ProgramMap.has] at hl⟩
  exact (nextData_lock [] d d h (fun x _ hl => by simp [ProgramMap.has] at hl)).2.2

/-- once the fresh demuxer knows every PID of `L`, every continuation is compatible -/
theorem compatible_of_covered (L : ProgramMap) (cs : List ApiCall) (d : Demux)
    (h : ∀ x, L.has x = true → d.programMap.has x = true) : Compatible L d cs := by
  induction cs generalizing d with
  | nil => trivial
  | cons c cs ih =>
    cases c with
    | nextPacket => exact ih _ (by rw [(nextPacket_data d).programMap]; exact h)
    | nextData => exact ⟨fun x _ hl => h _ hl, ih _ (fun x hx => nextData_grow d x (h x hx))⟩

theorem compatible_append (L : ProgramMap) (cs cs' : List ApiCall) (d : Demux) :
    Compatible L d (cs ++ cs') ↔ Compatible L d cs ∧ Compatible L (d.after cs) cs' := by
  induction cs generalizing d with
  | nil => simp [Compatible, Demux.after]
  | cons c cs ih =>
    cases c with
    | nextPacket => exact ih _
    | nextData =>
      show (_ ∧ Compatible L d.nextData.2 (cs ++ cs')) ↔ (_ ∧ Compatible L d.nextData.2 cs) ∧ _
      rw [ih]
      exact ⟨fun ⟨a, b, c⟩ => ⟨⟨a, b⟩, c⟩, fun ⟨⟨a, b⟩, c⟩ => ⟨a, b, c⟩⟩

end Astits

namespace Astits

/-! ### the packets of the stream, as `NextPacket` delivers them -/

/-- the state after `k` calls of `NextPacket` -/
def Demux.pktIter (d : Demux) : Nat → Demux
  | 0 => d
  | k + 1 => d.nextPacket.2.pktIter k

/-- `x` is one of the packets repeated `NextPacket` calls deliver from the current state on (skipped packets are not) -/
def Demux.Delivers (d : Demux) (x : Packet) : Prop := ∃ k, (d.pktIter k).nextPacket.1 = .ok x

theorem SrcRel.of_srcSame {d d' : Demux} (h : SrcSame d d') : SrcRel d d' :=
  ⟨h.r.symm, h.opt.symm, h.skipper.symm, h.packetSize.symm, Or.inl h.skipIdx.symm⟩

theorem SrcRel.symm {d1 d2 : Demux} (h : SrcRel d1 d2) : SrcRel d2 d1 :=
  ⟨h.r.symm, h.opt.symm, h.skipper.symm, h.packetSize.symm, by
    rcases h.idx with hi | hi
    · exact Or.inl hi.symm
    · right; rw [← h.skipper]; exact hi⟩

theorem SrcRel.trans {d1 d2 d3 : Demux} (h : SrcRel d1 d2) (h' : SrcRel d2 d3) : SrcRel d1 d3 :=
  ⟨h.r.trans h'.r, h.opt.trans h'.opt, h.skipper.trans h'.skipper, h.packetSize.trans h'.packetSize, by
    rcases h.idx with hi | hi
    · rcases h'.idx with hj | hj
      · exact Or.inl (hi.trans hj)
      · right; rw [h.skipper]; exact hj
    · exact Or.inr hi⟩

theorem pktIter_lock (k : Nat) (d1 d2 : Demux) (h : SrcRel d1 d2) : SrcRel (d1.pktIter k) (d2.pktIter k) := by
  induction k generalizing d1 d2 with
  | zero => exact h
  | succ k ih => exact ih _ _ (nextPacket_lock d1 d2 h).2

theorem Delivers.of_srcRel {d1 d2 : Demux} (h : SrcRel d1 d2) {x : Packet} (hx : d1.Delivers x) : d2.Delivers x := by
  obtain ⟨k, hk⟩ := hx
  exact ⟨k, by rw [← (nextPacket_lock _ _ (pktIter_lock k d1 d2 h)).1]; exact hk⟩

theorem Delivers.of_next {d : Demux} {x : Packet} (hx : d.nextPacket.2.Delivers x) : d.Delivers x := by
  obtain ⟨k, hk⟩ := hx
  exact ⟨k + 1, hk⟩

theorem fed_delivers (fuel : Nat) (d : Demux) : ∀ x ∈ d.fed fuel, d.Delivers x := by
  induction fuel generalizing d with
  | zero => intro x hx; cases hx
  | succ fuel ih =>
    intro x hx
    unfold Demux.fed at hx
    cases hrp : d.nextPacket.1 with
    | panic => rw [hrp] at hx; cases hx
    | err e => rw [hrp] at hx; cases hx
    | ok p =>
      rw [hrp] at hx
      dsimp only at hx
      rcases List.mem_cons.mp hx with rfl | hx
      · exact ⟨0, hrp⟩
      · apply Delivers.of_next
        cases hf : (d.nextPacket.2.feed p).1 with
        | some r => rw [hf] at hx; cases hx
        | none =>
          rw [hf] at hx
          exact Delivers.of_srcRel (SrcRel.of_srcSame (feed_src _ p)).symm (ih _ x hx)

/-- the packet source after a `NextData` call is the source after some number of `NextPacket` calls -/
theorem dataLoop_src (fuel : Nat) (d : Demux) : ∃ k, SrcRel (d.pktIter k) (d.dataLoop fuel).2 := by
  induction fuel generalizing d with
  | zero => exact ⟨0, SrcRel.of_srcSame (SrcSame.refl d)⟩
  | succ fuel ih =>
    rw [dataLoop_succ']
    have h1 : SrcRel (d.pktIter 1) d.nextPacket.2 := SrcRel.of_srcSame (SrcSame.refl _)
    split
    · exact ⟨1, h1.trans (SrcRel.of_srcSame (drain_src _ _))⟩
    · cases d.nextPacket.1 with
      | panic => exact ⟨1, h1⟩
      | err e => exact ⟨1, h1⟩
      | ok p =>
        dsimp only
        have hs := feed_src d.nextPacket.2 p
        rcases hf : d.nextPacket.2.feed p with ⟨x, d'⟩
        rw [hf] at hs
        cases x with
        | some x => exact ⟨1, h1.trans (SrcRel.of_srcSame hs)⟩
        | none =>
          obtain ⟨k, hk⟩ := ih d'
          exact ⟨k + 1, (pktIter_lock k _ _ (SrcRel.of_srcSame hs)).trans hk⟩

theorem nextData_src (d : Demux) : ∃ k, SrcRel (d.pktIter k) d.nextData.2 := by
  unfold Demux.nextData
  split
  · exact ⟨0, ⟨rfl, rfl, rfl, rfl, Or.inl rfl⟩⟩
  · exact dataLoop_src _ d

theorem Delivers.of_pktIter {d : Demux} {x : Packet} (k : Nat) (hx : (d.pktIter k).Delivers x) : d.Delivers x := by
  induction k generalizing d with
  | zero => exact hx
  | succ k ih => exact Delivers.of_next (ih hx)

theorem Delivers.of_nextData {d : Demux} {x : Packet} (hx : d.nextData.2.Delivers x) : d.Delivers x := by
  obtain ⟨k, hk⟩ := nextData_src d
  exact Delivers.of_pktIter k (Delivers.of_srcRel hk.symm hx)

/-- **program-map irrelevance**: PIDs that no packet of the stream carries never matter -/
theorem compatible_of_absent (L : ProgramMap) (cs : List ApiCall) (d : Demux)
    (h : ∀ x, d.Delivers x → L.has x.header.pid = false) : Compatible L d cs := by
  induction cs generalizing d with
  | nil => trivial
  | cons c cs ih =>
    cases c with
    | nextPacket => exact ih _ (fun x hx => h x (Delivers.of_next hx))
    | nextData =>
      refine ⟨fun x hx hl => ?_, ih _ (fun x hx => h x (Delivers.of_nextData hx))⟩
      unfold Demux.fedByNextData at hx
      split at hx
      · cases hx
      · rw [h x (fed_delivers _ d x hx)] at hl; cases hl

end Astits
