/-
C17 support, T3 continued — the table packets the muxer MODEL emits, read back with the model's own parsers:
`parsePacket` on the 188 bytes and `parsePSIData` on the packet's payload return the PAT (program 1 ↦ PID 0x1000)
and the PMT listing exactly `m.streams` with PCR PID `m.pcrPID` and the version fields of T2.
Composes the whole-structure round trips of C11 (`PacketRT.parsePacket_written` = `C11.packet_roundtrip_padded`)
and C13 (`PSIRT.pat_section_rt` / `PSIRT.pmt_section_rt`, the cores of `C13.pat_roundtrip` / `C13.pmt_roundtrip`).
-/
import Astits.Proofs.MuxTables
import Astits.Proofs.PSIRT
import Astits.Proofs.PacketRTPkt
namespace Astits.MuxTables
open MuxCounters PSIRT PacketRT

/-- the section `parsePSISection` returns when it meets the stuffing byte 0xff behind the last section -/
def stopSection : PSISection := { header := some { tableID := 0xff, tableType := tableType 0xff } }

theorem parsePSISection_stop (bs : Bytes) (off : Int) (r : Bytes) (h : It.At ⟨bs, off⟩ (0xff :: r)) :
    parsePSISection ⟨bs, off⟩ = .ok ((stopSection, true), ⟨bs, off + 1⟩) := by
  unfold parsePSISection
  rw [P.bind_of_ok (offset_run _)]
  rw [P.bind_of_ok (nextByte_at _ _ _ _ h)]
  have : shouldStopPSIParsing 0xff = true := by decide
  simp only [this, if_true]
  rfl

/-- only stuffing left: the section loop returns nothing (no byte left) or the stop marker -/
theorem stuffing_sections (n : Nat) (bs : Bytes) (off : Int) (fuel : Nat) (hat : It.At ⟨bs, off⟩ (List.replicate n 0xff)) :
    ∃ i, parsePSISections (fuel + 1) ⟨bs, off⟩ = .ok ((if n = 0 then [] else [stopSection]), i) := by
  have hlen := It.At.len hat
  simp only [List.length_replicate] at hlen
  unfold parsePSISections
  rw [P.bind_of_ok (hasBytesLeft_run _)]
  cases n with
  | zero =>
    have hn2 : ¬ (off < (bs.length : Int)) := by omega
    simp only [hn2, decide_false, Bool.false_eq_true, if_false, P.pure_run, if_true]
    exact ⟨_, rfl⟩
  | succ k =>
    have hn2 : off < (bs.length : Int) := by omega
    simp only [hn2, decide_true, if_true]
    have a3 : It.At ⟨bs, off⟩ (0xff :: List.replicate k 0xff) := by
      simpa [List.replicate_succ] using hat
    rw [P.bind_of_ok (parsePSISection_stop _ _ _ a3)]
    simp only [if_true, P.pure_run]
    refine ⟨⟨bs, off + 1⟩, ?_⟩
    simp

/-- a written section followed by `n` stuffing bytes: the section loop returns it, and the stop marker if `n > 0` -/
theorem sections_padded (s' : PSISection) (sec : Bytes) (hpos : 0 < sec.length)
    (hp : ∀ (bs : Bytes) (off : Int) (post : Bytes), It.At ⟨bs, off⟩ (sec ++ post) →
      parsePSISection ⟨bs, off⟩ = .ok ((s', false), ⟨bs, off + ((sec.length : Nat) : Int)⟩))
    (n : Nat) (bs : Bytes) (off : Int) (fuel : Nat) (hat : It.At ⟨bs, off⟩ (sec ++ List.replicate n 0xff)) :
    ∃ i, parsePSISections (fuel + 2) ⟨bs, off⟩ = .ok (s' :: (if n = 0 then [] else [stopSection]), i) := by
  have hlen := It.At.len hat
  simp only [List.length_append, List.length_replicate] at hlen
  have a2 : It.At ⟨bs, off + ((sec.length : Nat) : Int)⟩ (List.replicate n 0xff) := It.At.advance hat _ rfl
  obtain ⟨i, hi⟩ := stuffing_sections n bs _ fuel a2
  unfold parsePSISections
  rw [P.bind_of_ok (hasBytesLeft_run _)]
  have hn1 : off < (bs.length : Int) := by omega
  simp only [hn1, decide_true, if_true]
  rw [P.bind_of_ok (hp bs off _ hat)]
  simp only [Bool.false_eq_true, if_false]
  rw [P.bind_of_ok hi]
  exact ⟨i, rfl⟩

/-- one written section behind pointer field 0, followed by `n` stuffing bytes (what `writePacket` appends):
`parsePSIData` returns the section, and the stop marker when there is stuffing -/
theorem parsePSIData_padded (s s' : PSISection) (h : SectionRT s s') (n : Nat) :
    ∃ payload, writePSIData { pointerField := 0, sections := [s] } = .ok payload ∧
      ∃ i, parsePSIData ⟨payload ++ List.replicate n 0xff, 0⟩ =
        .ok ({ pointerField := 0, sections := s' :: (if n = 0 then [] else [stopSection]) }, i) := by
  obtain ⟨sec, hw, hpos, hp⟩ := h
  refine ⟨0 :: sec, ?_, ?_⟩
  · unfold writePSIData
    simp [writePSISections, hw]
  · generalize hbs : (0 :: sec) ++ List.replicate n 0xff = bs
    have hbs' : bs = 0 :: (sec ++ List.replicate n 0xff) := by rw [← hbs]; rfl
    have hlen : bs.length = 1 + sec.length + n := by rw [hbs']; simp; omega
    unfold parsePSIData
    have a0 : It.At ⟨bs, 0⟩ (0 :: (sec ++ List.replicate n 0xff)) := ⟨[], by simpa using hbs', rfl⟩
    rw [P.bind_of_ok (nextByte_at _ _ _ _ a0)]
    have hs : It.skip ((0 : Nat) : Int) ⟨bs, 0 + 1⟩ = .ok ((), ⟨bs, 1⟩) := rfl
    rw [P.bind_of_ok hs]
    have hf : fuelOf ⟨bs, 1⟩ = .ok ((bs.length - 1) + 2, ⟨bs, 1⟩) := by
      show Res.ok (bs.length + 1, _) = _
      congr 2; omega
    rw [P.bind_of_ok hf]
    have a1 : It.At ⟨bs, 1⟩ (sec ++ List.replicate n 0xff) := ⟨[0], by simpa using hbs', rfl⟩
    obtain ⟨i, hi⟩ := sections_padded s' sec hpos hp n bs 1 (bs.length - 1) a1
    rw [P.bind_of_ok hi]
    exact ⟨i, rfl⟩

/-- what `parsePacket` returns for an emitted table packet: header and payload as written, stuffing appended -/
theorem tablePacket_parsed (pid ccv : Nat) (payload bs : Bytes) (hpid : pid < 8192) (hcc : ccv < 16)
    (hw : writePacket (tablePacket pid ccv payload) 188 = .ok bs) :
    payload.length ≤ 184 ∧
    (parsePacket none).val bs = .ok (tablePacket pid ccv (payload ++ List.replicate (184 - payload.length) 0xff)) := by
  have hwf : PacketWF (tablePacket pid ccv payload) :=
    ⟨hpid, by simp [tablePacket], hcc, by intro h; simp [tablePacket] at h⟩
  have hfit := (writePacket_ok _ bs hw).2.1
  have hhs : packetHeadSize (tablePacket pid ccv payload) = 4 := by simp [packetHeadSize, tablePacket]
  have hpl : (tablePacket pid ccv payload).payload = payload := rfl
  rw [hhs, hpl] at hfit
  have hp := parsePacket_written _ none hwf bs hw (fun _ hs => by cases hs)
  have hpad : padLen (tablePacket pid ccv payload) = 184 - payload.length := by
    unfold padLen
    rw [hhs]
    simp only [tablePacket, if_true]
    omega
  rw [hpad] at hp
  refine ⟨by omega, ?_⟩
  rw [hp]
  rfl

/-- hypothesis on the streams the caller added: 8-bit stream types, descriptors that round-trip (`DescOk`, e.g. none,
or user-defined ones: `userDescriptor_ok`), descriptor loops that fit their 12-bit length -/
structure StreamOk (es : PMTElementaryStream) : Prop where
  streamType : es.streamType < 256
  descs : ∀ d ∈ es.elementaryStreamDescriptors, DescOk d
  fits : descriptorsSize es.elementaryStreamDescriptors < 4096

/-- in a reachable state whose PCR PID is valid, the PMT satisfies the round-trip hypothesis of C13 as soon as the
streams do and the section fits its 12-bit length (it does whenever the packet could be written, but the writer's
check comes later) -/
theorem pmtOk_of_streams (m : Mux) (h : PidInv m) (hpcr : m.streams.any (·.elementaryPID == m.pcrPID) = true)
    (hs : ∀ es ∈ m.streams, StreamOk es) (hfit : 9 + pmtBodySize m.pmtData < 4096) : PMTOk m.pmtData := by
  refine ⟨?_, ?_, ?_, hfit⟩
  · show m.pcrPID < 8192
    rw [any_pid_eq] at hpcr
    obtain ⟨es, hes, he⟩ := List.mem_map.1 hpcr
    rw [← he]; exact (h.distinct.2 es hes).2.2
  · intro x hx; cases hx
  · intro es hes
    exact ⟨(hs es hes).streamType, (h.distinct.2 es hes).2.2, (hs es hes).descs, (hs es hes).fits⟩

theorem calcPMT_pos (d : PMTData) (hd : PMTOk d) : calcPMTSectionLength d > 0 := by
  have h1 := calcPMT d hd
  have h2 := hd.fits
  have h3 : calcPSISectionLength 2 { pmt := some d } = (5 + calcPMTSectionLength d + 4) % 65536 := by
    simp [calcPSISectionLength, hasPSISyntaxHeader, hasCRC32]
  have h4 : calcPMTSectionLength d < 65536 := by unfold calcPMTSectionLength; omega
  have h5 : pmtBodySize d ≥ 4 := by unfold pmtBodySize; omega
  omega

/-- a PSI unit whose first section is a PAT / PMT with this version and content -/
def FirstSectionIs (payload : Bytes) (ext version : Nat) (d : PSISectionSyntaxData) : Prop :=
  ∃ crc hdr rest i, parsePSIData ⟨payload, 0⟩ = .ok ({ pointerField := 0, sections := (parsedSection crc hdr { currentNextIndicator := true, tableIDExtension := ext, versionNumber := version } d :: rest) }, i) ∧
    (rest = [] ∨ rest = [stopSection])

/-- the emitted PMT packet read back -/
theorem pmt_packet_parses (m : Mux) (ccv v : Nat) (payload bs : Bytes) (hcc : ccv < 16) (hv : v < 32)
    (hd : PMTOk m.pmtData)
    (hpsi : writePSIData (tablePSI 2 (calcPMTSectionLength m.pmtData) 1 v { pmt := some m.pmtData }) = .ok payload)
    (hw : writePacket (tablePacket 4096 ccv payload) 188 = .ok bs) :
    ∃ pkt, (parsePacket none).val bs = .ok pkt ∧ pkt.header = (tablePacket 4096 ccv []).header ∧
      pkt.adaptationField = none ∧
      FirstSectionIs pkt.payload 1 v { pmt := some m.pmtData } := by
  obtain ⟨_, hp⟩ := tablePacket_parsed 4096 ccv payload bs (by decide) hcc hw
  have hsh : SyntaxHeaderOk { currentNextIndicator := true, tableIDExtension := 1, versionNumber := v } :=
    ⟨by simp, hv, by simp, by simp⟩
  have hsl : ({ sectionLength := calcPMTSectionLength m.pmtData, sectionSyntaxIndicator := true, tableID := 2 } : PSISectionHeader).sectionLength > 0 :=
    calcPMT_pos _ hd
  have hrt := pmt_section_rt 0 _ _ m.pmtData rfl hsl hsh hd
  obtain ⟨payload', hw', i, hpp⟩ := parsePSIData_padded _ _ hrt (184 - payload.length)
  have e : payload' = payload := by
    have : writePSIData (tablePSI 2 (calcPMTSectionLength m.pmtData) 1 v { pmt := some m.pmtData }) = .ok payload' := hw'
    rw [hpsi] at this
    cases this; rfl
  subst e
  refine ⟨_, hp, rfl, rfl, _, _, _, i, hpp, ?_⟩
  split
  · exact Or.inl rfl
  · exact Or.inr rfl

/-- the emitted PAT packet read back -/
theorem pat_packet_parses (ccv v : Nat) (payload bs : Bytes) (hcc : ccv < 16) (hv : v < 32)
    (hpsi : writePSIData (tablePSI 0 (calcPATSectionLength patData) 0 v { pat := some patData }) = .ok payload)
    (hw : writePacket (tablePacket 0 ccv payload) 188 = .ok bs) :
    ∃ pkt, (parsePacket none).val bs = .ok pkt ∧ pkt.header = (tablePacket 0 ccv []).header ∧
      pkt.adaptationField = none ∧
      FirstSectionIs pkt.payload 0 v { pat := some patData } := by
  obtain ⟨_, hp⟩ := tablePacket_parsed 0 ccv payload bs (by decide) hcc hw
  have hsh : SyntaxHeaderOk { currentNextIndicator := true, tableIDExtension := 0, versionNumber := v } :=
    ⟨by simp, hv, by simp, by simp⟩
  have hd : PATOk patData := ⟨by decide, by decide⟩
  have hsl : ({ sectionLength := calcPATSectionLength patData, sectionSyntaxIndicator := true, tableID := 0 } : PSISectionHeader).sectionLength > 0 := by
    decide
  have hrt := pat_section_rt 0 _ _ patData rfl hsl hsh hd
  obtain ⟨payload', hw', i, hpp⟩ := parsePSIData_padded _ _ hrt (184 - payload.length)
  have e : payload' = payload := by
    have : writePSIData (tablePSI 0 (calcPATSectionLength patData) 0 v { pat := some patData }) = .ok payload' := hw'
    rw [hpsi] at this
    cases this; rfl
  subst e
  refine ⟨_, hp, rfl, rfl, _, _, _, i, hpp, ?_⟩
  split
  · exact Or.inl rfl
  · exact Or.inr rfl

/-- **T3 (read back)**: in a reachable state, a call that emits the tables emits, first, a packet that `parsePacket`
reads as a PID-0 packet (payload unit start, no adaptation field) whose payload `parsePSIData` reads as the PAT
`program 1 ↦ PID 0x1000`, version `wPAT m` (= 0), and, second, a PID-0x1000 packet whose payload it reads as the
PMT of program 1 with `elementaryStreams = m.streams`, `pcrPID = m.pcrPID`, version `wPMT m` — provided the
streams satisfy `StreamOk` and the PMT section fits 12 bits -/
theorem emitted_tables_parse (m : Mux) (op : Op) (h : Reach m) (he : Emits m op)
    (hs : ∀ es ∈ m.streams, StreamOk es) (hfit : 9 + pmtBodySize m.pmtData < 4096) :
    ∃ pat pmt rest patPkt pmtPkt, (step m op).1 = pat :: pmt :: rest ∧
      (parsePacket none).val pat = .ok patPkt ∧ patPkt.header.pid = 0 ∧
      patPkt.header.payloadUnitStartIndicator = true ∧ patPkt.adaptationField = none ∧
      FirstSectionIs patPkt.payload 0 (wPAT m) { pat := some patData } ∧
      (parsePacket none).val pmt = .ok pmtPkt ∧ pmtPkt.header.pid = 4096 ∧
      pmtPkt.header.payloadUnitStartIndicator = true ∧ pmtPkt.adaptationField = none ∧
      FirstSectionIs pmtPkt.payload 1 (wPMT m)
        { pmt := some { elementaryStreams := m.streams, pcrPID := m.pcrPID, programDescriptors := [], programNumber := 1 } } := by
  obtain ⟨pat, pmt, rest, p1, p2, hc, a1, a2, a3, a4, hpcr⟩ := emits_payloads m op h.pid.inv he
  have hd := pmtOk_of_streams m h.pid hpcr hs hfit
  have hne : m.streams ≠ [] := by
    intro hh; rw [hh] at hpcr; cases hpcr
  have hv0 : m.pmtVersion.value ≤ 31 ∨ m.pmtUpdated = true := by
    cases hu : m.pmtUpdated
    · left
      have := h.ver.pmtLe
      have : m.pmtVersion.value ≠ 32 := fun hv => hne (h.ver.pmtFresh hv hu)
      omega
    · exact Or.inr rfl
  have hv := (wPMT_eq m h.ver hv0).2.1
  have hcc1 : m.patCC.inc.get < 16 := by
    rw [inc_get _ h.pid.inv.pat]; have := next_le m.patCC.value; omega
  have hcc2 : m.pmtCC.inc.get < 16 := by
    rw [inc_get _ h.pid.inv.pmt]; have := next_le m.pmtCC.value; omega
  obtain ⟨k1, b1, b2, b3, b4⟩ := pat_packet_parses _ (wPAT m) p1 pat hcc1 (by rw [(wPAT_zero m h.ver).1]; decide) a1 a2
  obtain ⟨k2, c1, c2, c3, c4⟩ := pmt_packet_parses m _ (wPMT m) p2 pmt hcc2 hv hd a3 a4
  refine ⟨pat, pmt, rest, k1, k2, hc, b1, by rw [b2]; rfl, by rw [b2]; rfl, b3, b4, c1, by rw [c2]; rfl, by rw [c2]; rfl, c3, c4⟩

end Astits.MuxTables
