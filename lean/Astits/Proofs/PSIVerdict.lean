/-
C09 — the PARSER's verdict is the CRC verdict.

Part 1: every parser reachable from `parsePSIData` leaves the iterator's byte slice untouched (`KB`, "keeps bytes").
Part 2: `parsePSISection` from offset `start`: exactly which bytes decide the header, the byte range the CRC is
        computed over, the bytes it is compared with, and where the next section starts.
Part 3: the invariant of the section loop (`SectionsAt`) and `parsePSIData`.
Part 4: bytes ↔ bits glue for burst errors confined to a section's byte range.
-/
import Astits.Model.PSI
import Astits.Model.Demux
import Astits.Proofs.NoPanic.PSI
import Astits.Proofs.CRCBurst
import Astits.Props.C10
namespace Astits.PSIVerdict

/-! ## Part 1 — parsers keep the bytes -/

/-- a successful run returns an iterator over the same bytes -/
def KB {α} (p : P α) : Prop := ∀ it a it', p it = .ok (a, it') → it'.bs = it.bs

theorem KB.bind {α β} {p : P α} {f : α → P β} (hp : KB p) (hf : ∀ a, KB (f a)) : KB (p >>= f) := by
  intro it b it' h
  rw [P.bind_run] at h
  split at h
  · rename_i a i1 e
    exact (hf a i1 b it' h).trans (hp it a i1 e)
  · cases h
  · cases h

theorem KB.pure {α} (a : α) : KB (pure a : P α) := by
  intro it b it' h
  simp only [P.pure_run, Res.ok.injEq, Prod.mk.injEq] at h
  exact h.2 ▸ rfl

theorem KB.fail {α} (e : Err) : KB (P.fail e : P α) := by
  intro it b it' h; cases h

theorem KB.panic {α} : KB (P.panic : P α) := by
  intro it b it' h; cases h

theorem KB.ite {α} {c : Prop} [Decidable c] {p q : P α} (hp : KB p) (hq : KB q) : KB (if c then p else q) := by
  split
  · exact hp
  · exact hq

theorem KB_nextByte : KB It.nextByte := by
  intro it b it' h
  unfold It.nextByte at h
  split at h
  · cases h
  · split at h
    · cases h
    · simp only [Res.ok.injEq, Prod.mk.injEq] at h
      rw [← h.2]

theorem KB_nextBytes (n : Int) : KB (It.nextBytes n) := by
  intro it b it' h
  unfold It.nextBytes at h
  split at h
  · cases h
  · split at h
    · cases h
    · simp only [Res.ok.injEq, Prod.mk.injEq] at h
      rw [← h.2]

theorem KB_seek (n : Int) : KB (It.seek n) := by
  intro it b it' h
  simp only [It.seek, Res.ok.injEq, Prod.mk.injEq] at h
  rw [← h.2]
theorem KB_skip (n : Int) : KB (It.skip n) := by
  intro it b it' h
  simp only [It.skip, Res.ok.injEq, Prod.mk.injEq] at h
  rw [← h.2]
theorem KB_offset : KB It.offset := by
  intro it b it' h
  simp only [It.offset, Res.ok.injEq, Prod.mk.injEq] at h
  rw [← h.2]
theorem KB_len : KB It.len := by
  intro it b it' h
  simp only [It.len, Res.ok.injEq, Prod.mk.injEq] at h
  rw [← h.2]
theorem KB_hasBytesLeft : KB It.hasBytesLeft := by
  intro it b it' h
  simp only [It.hasBytesLeft, Res.ok.injEq, Prod.mk.injEq] at h
  rw [← h.2]
theorem KB_dump : KB It.dump := by
  intro it b it' h
  unfold It.dump at h
  split at h
  · simp only [Res.ok.injEq, Prod.mk.injEq] at h; rw [← h.2]
  · split at h
    · cases h
    · simp only [Res.ok.injEq, Prod.mk.injEq] at h; rw [← h.2]
theorem KB_fuelOf : KB fuelOf := by
  intro it b it' h
  simp only [fuelOf, Res.ok.injEq, Prod.mk.injEq] at h
  rw [← h.2]
theorem KB_loopFuel : KB loopFuel := by
  intro it b it' h
  simp only [loopFuel, Res.ok.injEq, Prod.mk.injEq] at h
  rw [← h.2]
theorem KB_optP {α} {c : Bool} {p : P α} (hp : KB p) : KB (optP c p) := by
  unfold optP
  cases c
  · exact KB.pure _
  · exact KB.bind hp (fun _ => KB.pure _)

syntax "kb_leaf" : tactic
macro_rules | `(tactic| kb_leaf) => `(tactic| exact KB_nextByte)
macro_rules | `(tactic| kb_leaf) => `(tactic| exact KB_nextBytes _)
macro_rules | `(tactic| kb_leaf) => `(tactic| exact KB_offset)
macro_rules | `(tactic| kb_leaf) => `(tactic| exact KB_len)
macro_rules | `(tactic| kb_leaf) => `(tactic| exact KB_hasBytesLeft)
macro_rules | `(tactic| kb_leaf) => `(tactic| exact KB_dump)
macro_rules | `(tactic| kb_leaf) => `(tactic| exact KB_skip _)
macro_rules | `(tactic| kb_leaf) => `(tactic| exact KB_seek _)
macro_rules | `(tactic| kb_leaf) => `(tactic| exact KB_fuelOf)
macro_rules | `(tactic| kb_leaf) => `(tactic| exact KB_loopFuel)
macro_rules | `(tactic| kb_leaf) => `(tactic| exact KB.fail _)
macro_rules | `(tactic| kb_leaf) => `(tactic| exact KB.panic)
macro_rules | `(tactic| kb_leaf) => `(tactic| exact KB.pure _)
macro_rules | `(tactic| kb_leaf) => `(tactic| assumption)

syntax "kb_step" : tactic
macro_rules | `(tactic| kb_step) => `(tactic| first
  | (with_reducible kb_leaf)
  | (with_reducible refine KB.bind ?_ (fun _ => ?_))
  | (with_reducible refine KB.ite ?_ ?_)
  | (with_reducible refine KB_optP ?_)
  | (dsimp only)
  | (split))

macro "kb_auto" : tactic => `(tactic| repeat' kb_step)

theorem KB_parseDVBDurationSeconds : KB (parseDVBDurationSeconds) := by unfold parseDVBDurationSeconds; kb_auto
macro_rules | `(tactic| kb_leaf) => `(tactic| exact KB_parseDVBDurationSeconds )
theorem KB_parseDVBDurationMinutes : KB (parseDVBDurationMinutes) := by unfold parseDVBDurationMinutes; kb_auto
macro_rules | `(tactic| kb_leaf) => `(tactic| exact KB_parseDVBDurationMinutes )
theorem KB_parseDVBTime : KB (parseDVBTime) := by unfold parseDVBTime; kb_auto
macro_rules | `(tactic| kb_leaf) => `(tactic| exact KB_parseDVBTime )
theorem KB_restIfAny (e : Int): KB (restIfAny e) := by unfold restIfAny; kb_auto
macro_rules | `(tactic| kb_leaf) => `(tactic| exact KB_restIfAny _)
theorem KB_restTo (e : Int): KB (restTo e) := by unfold restTo; kb_auto
macro_rules | `(tactic| kb_leaf) => `(tactic| exact KB_restTo _)
theorem KB_byteIf (c : Bool): KB (byteIf c) := by unfold byteIf; kb_auto
macro_rules | `(tactic| kb_leaf) => `(tactic| exact KB_byteIf _)
theorem KB_newDescriptorAVCVideo : KB (newDescriptorAVCVideo) := by unfold newDescriptorAVCVideo; kb_auto
macro_rules | `(tactic| kb_leaf) => `(tactic| exact KB_newDescriptorAVCVideo )
theorem KB_newDescriptorDataStreamAlignment : KB (newDescriptorDataStreamAlignment) := by unfold newDescriptorDataStreamAlignment; kb_auto
macro_rules | `(tactic| kb_leaf) => `(tactic| exact KB_newDescriptorDataStreamAlignment )
theorem KB_newDescriptorExtendedEventItem : KB (newDescriptorExtendedEventItem) := by unfold newDescriptorExtendedEventItem; kb_auto
macro_rules | `(tactic| kb_leaf) => `(tactic| exact KB_newDescriptorExtendedEventItem )
theorem KB_newDescriptorMaximumBitrate : KB (newDescriptorMaximumBitrate) := by unfold newDescriptorMaximumBitrate; kb_auto
macro_rules | `(tactic| kb_leaf) => `(tactic| exact KB_newDescriptorMaximumBitrate )
theorem KB_newDescriptorPrivateDataIndicator : KB (newDescriptorPrivateDataIndicator) := by unfold newDescriptorPrivateDataIndicator; kb_auto
macro_rules | `(tactic| kb_leaf) => `(tactic| exact KB_newDescriptorPrivateDataIndicator )
theorem KB_newDescriptorPrivateDataSpecifier : KB (newDescriptorPrivateDataSpecifier) := by unfold newDescriptorPrivateDataSpecifier; kb_auto
macro_rules | `(tactic| kb_leaf) => `(tactic| exact KB_newDescriptorPrivateDataSpecifier )
theorem KB_newDescriptorService : KB (newDescriptorService) := by unfold newDescriptorService; kb_auto
macro_rules | `(tactic| kb_leaf) => `(tactic| exact KB_newDescriptorService )
theorem KB_newDescriptorShortEvent : KB (newDescriptorShortEvent) := by unfold newDescriptorShortEvent; kb_auto
macro_rules | `(tactic| kb_leaf) => `(tactic| exact KB_newDescriptorShortEvent )
theorem KB_newDescriptorStreamIdentifier : KB (newDescriptorStreamIdentifier) := by unfold newDescriptorStreamIdentifier; kb_auto
macro_rules | `(tactic| kb_leaf) => `(tactic| exact KB_newDescriptorStreamIdentifier )
theorem KB_newDescriptorAC3 (e : Int): KB (newDescriptorAC3 e) := by unfold newDescriptorAC3; kb_auto
macro_rules | `(tactic| kb_leaf) => `(tactic| exact KB_newDescriptorAC3 _)
theorem KB_newDescriptorComponent (e : Int): KB (newDescriptorComponent e) := by unfold newDescriptorComponent; kb_auto
macro_rules | `(tactic| kb_leaf) => `(tactic| exact KB_newDescriptorComponent _)
theorem KB_newDescriptorEnhancedAC3 (e : Int): KB (newDescriptorEnhancedAC3 e) := by unfold newDescriptorEnhancedAC3; kb_auto
macro_rules | `(tactic| kb_leaf) => `(tactic| exact KB_newDescriptorEnhancedAC3 _)
theorem KB_newDescriptorExtensionSupplementaryAudio (e : Int): KB (newDescriptorExtensionSupplementaryAudio e) := by unfold newDescriptorExtensionSupplementaryAudio; kb_auto
macro_rules | `(tactic| kb_leaf) => `(tactic| exact KB_newDescriptorExtensionSupplementaryAudio _)
theorem KB_newDescriptorRegistration (e : Int): KB (newDescriptorRegistration e) := by unfold newDescriptorRegistration; kb_auto
macro_rules | `(tactic| kb_leaf) => `(tactic| exact KB_newDescriptorRegistration _)
theorem KB_newDescriptorContentLoop (e : Int) (fuel : Nat) : KB (newDescriptorContentLoop e fuel) := by
  induction fuel with
  | zero => unfold newDescriptorContentLoop; exact KB.fail _
  | succ n ih => unfold newDescriptorContentLoop; kb_auto
macro_rules | `(tactic| kb_leaf) => `(tactic| exact KB_newDescriptorContentLoop _ _)
theorem KB_newDescriptorExtendedEventLoop (e : Int) (fuel : Nat) : KB (newDescriptorExtendedEventLoop e fuel) := by
  induction fuel with
  | zero => unfold newDescriptorExtendedEventLoop; exact KB.fail _
  | succ n ih => unfold newDescriptorExtendedEventLoop; kb_auto
macro_rules | `(tactic| kb_leaf) => `(tactic| exact KB_newDescriptorExtendedEventLoop _ _)
theorem KB_newDescriptorLocalTimeOffsetLoop (e : Int) (fuel : Nat) : KB (newDescriptorLocalTimeOffsetLoop e fuel) := by
  induction fuel with
  | zero => unfold newDescriptorLocalTimeOffsetLoop; exact KB.fail _
  | succ n ih => unfold newDescriptorLocalTimeOffsetLoop; kb_auto
macro_rules | `(tactic| kb_leaf) => `(tactic| exact KB_newDescriptorLocalTimeOffsetLoop _ _)
theorem KB_newDescriptorParentalRatingLoop (e : Int) (fuel : Nat) : KB (newDescriptorParentalRatingLoop e fuel) := by
  induction fuel with
  | zero => unfold newDescriptorParentalRatingLoop; exact KB.fail _
  | succ n ih => unfold newDescriptorParentalRatingLoop; kb_auto
macro_rules | `(tactic| kb_leaf) => `(tactic| exact KB_newDescriptorParentalRatingLoop _ _)
theorem KB_newDescriptorSubtitlingLoop (e : Int) (fuel : Nat) : KB (newDescriptorSubtitlingLoop e fuel) := by
  induction fuel with
  | zero => unfold newDescriptorSubtitlingLoop; exact KB.fail _
  | succ n ih => unfold newDescriptorSubtitlingLoop; kb_auto
macro_rules | `(tactic| kb_leaf) => `(tactic| exact KB_newDescriptorSubtitlingLoop _ _)
theorem KB_newDescriptorTeletextLoop (e : Int) (fuel : Nat) : KB (newDescriptorTeletextLoop e fuel) := by
  induction fuel with
  | zero => unfold newDescriptorTeletextLoop; exact KB.fail _
  | succ n ih => unfold newDescriptorTeletextLoop; kb_auto
macro_rules | `(tactic| kb_leaf) => `(tactic| exact KB_newDescriptorTeletextLoop _ _)
theorem KB_newDescriptorVBIDataDescLoop (id : Nat) (e : Int) (fuel : Nat) : KB (newDescriptorVBIDataDescLoop id e fuel) := by
  induction fuel with
  | zero => unfold newDescriptorVBIDataDescLoop; exact KB.fail _
  | succ n ih => unfold newDescriptorVBIDataDescLoop; kb_auto
macro_rules | `(tactic| kb_leaf) => `(tactic| exact KB_newDescriptorVBIDataDescLoop _ _ _)
theorem KB_newDescriptorVBIDataLoop (e : Int) (fuel : Nat) : KB (newDescriptorVBIDataLoop e fuel) := by
  induction fuel with
  | zero => unfold newDescriptorVBIDataLoop; exact KB.fail _
  | succ n ih => unfold newDescriptorVBIDataLoop; kb_auto
macro_rules | `(tactic| kb_leaf) => `(tactic| exact KB_newDescriptorVBIDataLoop _ _)
theorem KB_newDescriptorContent (e : Int): KB (newDescriptorContent e) := by unfold newDescriptorContent; kb_auto
macro_rules | `(tactic| kb_leaf) => `(tactic| exact KB_newDescriptorContent _)
theorem KB_newDescriptorLocalTimeOffset (e : Int): KB (newDescriptorLocalTimeOffset e) := by unfold newDescriptorLocalTimeOffset; kb_auto
macro_rules | `(tactic| kb_leaf) => `(tactic| exact KB_newDescriptorLocalTimeOffset _)
theorem KB_newDescriptorParentalRating (e : Int): KB (newDescriptorParentalRating e) := by unfold newDescriptorParentalRating; kb_auto
macro_rules | `(tactic| kb_leaf) => `(tactic| exact KB_newDescriptorParentalRating _)
theorem KB_newDescriptorSubtitling (e : Int): KB (newDescriptorSubtitling e) := by unfold newDescriptorSubtitling; kb_auto
macro_rules | `(tactic| kb_leaf) => `(tactic| exact KB_newDescriptorSubtitling _)
theorem KB_newDescriptorTeletext (e : Int): KB (newDescriptorTeletext e) := by unfold newDescriptorTeletext; kb_auto
macro_rules | `(tactic| kb_leaf) => `(tactic| exact KB_newDescriptorTeletext _)
theorem KB_newDescriptorVBIData (e : Int): KB (newDescriptorVBIData e) := by unfold newDescriptorVBIData; kb_auto
macro_rules | `(tactic| kb_leaf) => `(tactic| exact KB_newDescriptorVBIData _)
theorem KB_newDescriptorExtendedEvent : KB (newDescriptorExtendedEvent) := by unfold newDescriptorExtendedEvent; kb_auto
macro_rules | `(tactic| kb_leaf) => `(tactic| exact KB_newDescriptorExtendedEvent )
theorem KB_newDescriptorUnknown (tag : Nat) (length : Nat): KB (newDescriptorUnknown tag length) := by unfold newDescriptorUnknown; kb_auto
macro_rules | `(tactic| kb_leaf) => `(tactic| exact KB_newDescriptorUnknown _ _)
theorem KB_newDescriptorNetworkName (e : Int): KB (newDescriptorNetworkName e) := by unfold newDescriptorNetworkName; kb_auto
macro_rules | `(tactic| kb_leaf) => `(tactic| exact KB_newDescriptorNetworkName _)
theorem KB_newDescriptorISO639LanguageAndAudioType (e : Int): KB (newDescriptorISO639LanguageAndAudioType e) := by unfold newDescriptorISO639LanguageAndAudioType; kb_auto
macro_rules | `(tactic| kb_leaf) => `(tactic| exact KB_newDescriptorISO639LanguageAndAudioType _)
theorem KB_newDescriptorExtension (e : Int): KB (newDescriptorExtension e) := by unfold newDescriptorExtension; kb_auto
macro_rules | `(tactic| kb_leaf) => `(tactic| exact KB_newDescriptorExtension _)
theorem KB_parseDescriptorSwitch (d : Descriptor) (e : Int): KB (parseDescriptorSwitch d e) := by unfold parseDescriptorSwitch; kb_auto
macro_rules | `(tactic| kb_leaf) => `(tactic| exact KB_parseDescriptorSwitch _ _)
theorem KB_parseDescriptor : KB (parseDescriptor) := by unfold parseDescriptor; kb_auto
macro_rules | `(tactic| kb_leaf) => `(tactic| exact KB_parseDescriptor )
theorem KB_parseDescriptorsLoop (e : Int) (fuel : Nat) : KB (parseDescriptorsLoop e fuel) := by
  induction fuel with
  | zero => unfold parseDescriptorsLoop; exact KB.fail _
  | succ n ih => unfold parseDescriptorsLoop; kb_auto
macro_rules | `(tactic| kb_leaf) => `(tactic| exact KB_parseDescriptorsLoop _ _)
theorem KB_parseDescriptors : KB (parseDescriptors) := by unfold parseDescriptors; kb_auto
macro_rules | `(tactic| kb_leaf) => `(tactic| exact KB_parseDescriptors )
theorem KB_loopUntil {α} (fuel : Nat) (e : Int) (body : P α) (hb : KB body) : KB (loopUntil fuel e body) := by
  induction fuel with
  | zero => unfold loopUntil; exact KB.fail _
  | succ n ih => unfold loopUntil; kb_auto
macro_rules | `(tactic| kb_step) => `(tactic| with_reducible refine KB_loopUntil _ _ _ ?_)
theorem KB_parsePATSection (e : Int) (x : Nat): KB (parsePATSection e x) := by unfold parsePATSection; kb_auto
macro_rules | `(tactic| kb_leaf) => `(tactic| exact KB_parsePATSection _ _)
theorem KB_parsePMTSection (e : Int) (x : Nat): KB (parsePMTSection e x) := by unfold parsePMTSection; kb_auto
macro_rules | `(tactic| kb_leaf) => `(tactic| exact KB_parsePMTSection _ _)
theorem KB_parseSDTSection (e : Int) (x : Nat): KB (parseSDTSection e x) := by unfold parseSDTSection; kb_auto
macro_rules | `(tactic| kb_leaf) => `(tactic| exact KB_parseSDTSection _ _)
theorem KB_parseNITSection (x : Nat): KB (parseNITSection x) := by unfold parseNITSection; kb_auto
macro_rules | `(tactic| kb_leaf) => `(tactic| exact KB_parseNITSection _)
theorem KB_parseEITSection (e : Int) (x : Nat): KB (parseEITSection e x) := by unfold parseEITSection; kb_auto
macro_rules | `(tactic| kb_leaf) => `(tactic| exact KB_parseEITSection _ _)
theorem KB_parseTOTSection : KB (parseTOTSection) := by unfold parseTOTSection; kb_auto
macro_rules | `(tactic| kb_leaf) => `(tactic| exact KB_parseTOTSection )
theorem KB_parsePSISectionSyntaxHeader : KB (parsePSISectionSyntaxHeader) := by unfold parsePSISectionSyntaxHeader; kb_auto
macro_rules | `(tactic| kb_leaf) => `(tactic| exact KB_parsePSISectionSyntaxHeader )
theorem KB_parsePSISectionSyntaxData (t : Nat) (sh : Option PSISectionSyntaxHeader) (e : Int) :
    KB (parsePSISectionSyntaxData t sh e) := by
  unfold parsePSISectionSyntaxData
  dsimp only
  refine KB.ite ?_ ?_
  · intro it b it' h; cases h
  · kb_auto
macro_rules | `(tactic| kb_leaf) => `(tactic| exact KB_parsePSISectionSyntaxData _ _ _)
theorem KB_parsePSISection : KB (parsePSISection) := by unfold parsePSISection; kb_auto
macro_rules | `(tactic| kb_leaf) => `(tactic| exact KB_parsePSISection )

/-! ## Part 2 — one section -/

theorem bind_inv {α β} {x : P α} {f : α → P β} {i : It} {r : β × It} (h : (x >>= f) i = .ok r) :
    ∃ a i', x i = .ok (a, i') ∧ f a i' = .ok r := by
  rw [P.bind_run] at h
  split at h
  · exact ⟨_, _, ‹_›, h⟩
  · cases h
  · cases h

theorem nextByte_inv {i i' : It} {b : Nat} (h : It.nextByte i = .ok (b, i')) :
    0 ≤ i.off ∧ i.off + 1 ≤ i.bs.length ∧ b = i.bs.getD i.off.toNat 0 ∧ i' = ⟨i.bs, i.off + 1⟩ := by
  unfold It.nextByte at h
  split at h
  · cases h
  · split at h
    · cases h
    · simp only [Res.ok.injEq, Prod.mk.injEq] at h
      exact ⟨by omega, by omega, h.1.symm, h.2.symm⟩

theorem nextBytes_inv {n : Int} {i i' : It} {bs : Bytes} (h : It.nextBytes n i = .ok (bs, i')) :
    0 ≤ n ∧ 0 ≤ i.off ∧ i.off + n ≤ i.bs.length ∧ bs = (i.bs.drop i.off.toNat).take n.toNat ∧ i' = ⟨i.bs, i.off + n⟩ := by
  unfold It.nextBytes at h
  split at h
  · cases h
  · split at h
    · cases h
    · simp only [Res.ok.injEq, Prod.mk.injEq] at h
      exact ⟨by omega, by omega, by omega, h.1.symm, h.2.symm⟩

/-- `n` bytes of `bs` from position `a` -/
def slice (bs : Bytes) (a n : Nat) : Bytes := (bs.drop a).take n

theorem slice_getD (bs : Bytes) (a n k : Nat) (hk : k < n) : (slice bs a n).getD k 0 = bs.getD (a + k) 0 := by
  simp [slice, List.getD_eq_getElem?_getD, List.getElem?_take, hk]

/-- the section header decoded from the three bytes at `start` -/
def hdrAt (bs : Bytes) (start : Nat) : PSISectionHeader :=
  { privateBit := bs.getD (start + 1) 0 / 64 % 2 = 1
    sectionLength := (bs.getD (start + 1) 0 % 16) * 256 + bs.getD (start + 2) 0
    sectionSyntaxIndicator := bs.getD (start + 1) 0 / 128 % 2 = 1
    tableID := bs.getD start 0
    tableType := tableType (bs.getD start 0) }

/-- the 12-bit section_length field at `start + 1`, `start + 2` -/
def slAt (bs : Bytes) (start : Nat) : Nat := (bs.getD (start + 1) 0 % 16) * 256 + bs.getD (start + 2) 0

theorem hdrAt_sl (bs : Bytes) (start : Nat) : (hdrAt bs start).sectionLength = slAt bs start := rfl
theorem hdrAt_tid (bs : Bytes) (start : Nat) : (hdrAt bs start).tableID = bs.getD start 0 := rfl

/-- the CRC verdict on the section that starts at `start`: the four bytes that end the section, read as a
big-endian number, equal the CRC_32 of the `section_length - 1` bytes from `start` (table_id up to the byte before
the CRC field) -/
def CRCValidAt (bs : Bytes) (start : Nat) : Prop :=
  start + 3 + slAt bs start ≤ bs.length ∧
  (computeCRC32 (slice bs start (slAt bs start - 1))).toNat = beNat (slice bs (start + slAt bs start - 1) 4)

/-- what a successful `parsePSISection` from offset `start` has established; `next` = the offset it leaves -/
def SecAt (bs : Bytes) (start : Nat) (s : PSISection) (stop : Bool) (next : Int) : Prop :=
  start < bs.length ∧
  if shouldStopPSIParsing (bs.getD start 0) = true then
    stop = true ∧ next = start + 1 ∧
    s = { header := some { tableID := bs.getD start 0, tableType := tableType (bs.getD start 0) } }
  else
    stop = false ∧ start + 3 ≤ bs.length ∧ next = start + 3 + slAt bs start ∧
    s.header = some (hdrAt bs start) ∧
    (slAt bs start = 0 → s.syn = none ∧ s.crc32 = 0) ∧
    (slAt bs start > 0 → s.syn.isSome = true ∧
      (hasCRC32 (bs.getD start 0) = true →
        CRCValidAt bs start ∧ s.crc32 = beNat (slice bs (start + slAt bs start - 1) 4)) ∧
      (hasCRC32 (bs.getD start 0) = false → s.crc32 = 0))

theorem toNat_add_nat (a : Int) (h : 0 ≤ a) (k : Nat) : (a + k).toNat = a.toNat + k := by omega

theorem parsePSISection_spec (it it' : It) (s : PSISection) (stop : Bool) (h0 : 0 ≤ it.off)
    (h : parsePSISection it = .ok ((s, stop), it')) :
    it'.bs = it.bs ∧ SecAt it.bs it.off.toNat s stop it'.off := by
  refine ⟨KB_parsePSISection it _ it' h, ?_⟩
  obtain ⟨bs, off⟩ := it
  simp only at h0 ⊢
  obtain ⟨start, rfl⟩ : ∃ start : Nat, off = (start : Int) := ⟨off.toNat, by omega⟩
  simp only [Int.toNat_natCast]
  unfold parsePSISection at h
  obtain ⟨o, i1, h1, h⟩ := bind_inv h
  simp only [It.offset, Res.ok.injEq, Prod.mk.injEq] at h1
  obtain ⟨rfl, rfl⟩ := h1
  obtain ⟨t, i2, h2, h⟩ := bind_inv h
  obtain ⟨_, hlen, ht, rfl⟩ := nextByte_inv h2
  simp only [Int.toNat_natCast] at ht hlen
  subst ht
  unfold SecAt
  refine ⟨by omega, ?_⟩
  split at h
  · rename_i hstop
    simp only [P.pure_run, Res.ok.injEq, Prod.mk.injEq] at h
    obtain ⟨⟨rfl, rfl⟩, rfl⟩ := h
    rw [if_pos hstop]
    exact ⟨rfl, rfl, rfl⟩
  · rename_i hstop
    rw [if_neg hstop]
    obtain ⟨hb, i3, h3, h⟩ := bind_inv h
    obtain ⟨_, _, hlen3, hhb, rfl⟩ := nextBytes_inv h3
    simp only at hlen3 hhb
    have e1 : ((start : Int) + 1).toNat = start + 1 := by omega
    have e2 : (2 : Int).toNat = 2 := rfl
    rw [e1, e2] at hhb
    have g0 : hb.getD 0 0 = bs.getD (start + 1) 0 := by
      rw [hhb]; exact slice_getD bs (start + 1) 2 0 (by omega)
    have g1 : hb.getD 1 0 = bs.getD (start + 2) 0 := by
      rw [hhb]; exact slice_getD bs (start + 1) 2 1 (by omega)
    simp only [g0, g1] at h
    obtain ⟨o2, i4, h4, h⟩ := bind_inv h
    simp only [It.offset, Res.ok.injEq, Prod.mk.injEq] at h4
    obtain ⟨rfl, rfl⟩ := h4
    have esl : List.getD bs (start + 1) 0 % 16 * 256 + List.getD bs (start + 2) 0 = slAt bs start := rfl
    simp only [esl] at h
    have hlen3' : start + 3 ≤ bs.length := by omega
    split at h
    · rename_i hpos
      obtain ⟨sh, i5, h5, h⟩ := bind_inv h
      have k5 := KB_optP KB_parsePSISectionSyntaxHeader _ _ _ h5
      obtain ⟨d, i6, h6, h⟩ := bind_inv h
      have k6 := KB_parsePSISectionSyntaxData _ _ _ _ _ _ h6
      have hbs6 : i6.bs = bs := by rw [k6, k5]
      split at h
      · rename_i hcrc
        try simp only [hcrc, if_true] at h
        obtain ⟨_, i7, h7, h⟩ := bind_inv h
        simp only [It.seek, Res.ok.injEq, Prod.mk.injEq, true_and] at h7
        subst h7
        obtain ⟨cb, i8, h8, h⟩ := bind_inv h
        obtain ⟨_, hoff8, hlen8, hcb, rfl⟩ := nextBytes_inv h8
        simp only at hoff8 hlen8 hcb
        obtain ⟨_, i9, h9, h⟩ := bind_inv h
        simp only [It.seek, Res.ok.injEq, Prod.mk.injEq, true_and] at h9
        subst h9
        obtain ⟨data, i10, h10, h⟩ := bind_inv h
        obtain ⟨_, _, _, hdata, rfl⟩ := nextBytes_inv h10
        simp only at hdata
        rw [hbs6] at hcb hdata hlen8
        have ea : ((start : Int) + 1 + 2 + (slAt bs start : Nat) - 4).toNat = start + slAt bs start - 1 := by omega
        have eb : ((start : Int) + 1 + 2 + (slAt bs start : Nat) - 4 - start).toNat = slAt bs start - 1 := by omega
        have ec : (4 : Int).toNat = 4 := rfl
        rw [ea, ec] at hcb
        rw [eb, Int.toNat_natCast] at hdata
        split at h
        · cases h
        · rename_i hok
          obtain ⟨_, i11, h11, h⟩ := bind_inv h
          simp only [It.seek, Res.ok.injEq, Prod.mk.injEq, true_and] at h11
          subst h11
          simp only [P.pure_run, Res.ok.injEq, Prod.mk.injEq] at h
          obtain ⟨⟨rfl, rfl⟩, rfl⟩ := h
          have hok' : (computeCRC32 data).toNat = beNat cb := by
            by_cases hh : (computeCRC32 data).toNat = beNat cb
            · exact hh
            · exact absurd hh hok
          refine ⟨rfl, hlen3', by simp only; omega, rfl, fun h0 => by omega, fun _ => ⟨rfl, fun _ => ?_, fun hc => ?_⟩⟩
          · refine ⟨⟨by omega, ?_⟩, ?_⟩
            · rw [hdata, hcb] at hok'; exact hok'
            · simp only; rw [hcb]; rfl
          · rw [hcrc] at hc; cases hc
      · rename_i hcrc
        obtain ⟨_, i7, h7, h⟩ := bind_inv h
        simp only [It.seek, Res.ok.injEq, Prod.mk.injEq, true_and] at h7
        subst h7
        simp only [P.pure_run, Res.ok.injEq, Prod.mk.injEq] at h
        obtain ⟨⟨rfl, rfl⟩, rfl⟩ := h
        refine ⟨rfl, hlen3', by simp only; omega, rfl, fun h0 => by omega, fun _ => ⟨rfl, fun hc => absurd hc hcrc, fun _ => rfl⟩⟩
    · rename_i hpos
      obtain ⟨_, i7, h7, h⟩ := bind_inv h
      simp only [It.seek, Res.ok.injEq, Prod.mk.injEq, true_and] at h7
      subst h7
      simp only [P.pure_run, Res.ok.injEq, Prod.mk.injEq] at h
      obtain ⟨⟨rfl, rfl⟩, rfl⟩ := h
      refine ⟨rfl, hlen3', by simp only; omega, rfl, fun _ => ⟨rfl, rfl⟩, fun h0 => by omega⟩

/-! ## Part 3 — the section loop and `parsePSIData` -/

/-- does the section loop stop at the section starting at `off` (stuffing 0xff or an unknown table id)? -/
def stops (bs : Bytes) (off : Nat) : Bool := shouldStopPSIParsing (bs.getD off 0)

/-- where the section after the one at `off` starts -/
def nextStart (bs : Bytes) (off : Nat) : Nat := off + 3 + slAt bs off

/-- the invariant of the section loop: the returned sections, in order, are located at the offsets obtained by
following the section_length fields of the INPUT from `off`; each satisfies `SecAt` there (header decoded from the
three bytes at its start, CRC verdict valid on its byte range if its table id carries a CRC); the list ends exactly
where the input ends or a stop section (0xff / unknown table id) was met -/
def SectionsAt (bs : Bytes) : Nat → List PSISection → Prop
  | off, [] => bs.length ≤ off
  | off, s :: ss =>
    SecAt bs off s (stops bs off) (if stops bs off then off + 1 else nextStart bs off) ∧
    (if stops bs off then ss = [] else SectionsAt bs (nextStart bs off) ss)

theorem SecAt.stop_eq {bs : Bytes} {off : Nat} {s : PSISection} {stop : Bool} {next : Int} (h : SecAt bs off s stop next) :
    stop = stops bs off ∧ next = (if stops bs off then off + 1 else nextStart bs off : Nat) := by
  unfold SecAt at h
  unfold stops nextStart
  obtain ⟨_, h⟩ := h
  split at h
  · rename_i hs
    simp only [hs, if_true]
    exact ⟨h.1, by rw [h.2.1]; rfl⟩
  · rename_i hs
    have hs' : shouldStopPSIParsing (bs.getD off 0) = false := by simpa using hs
    simp only [hs', Bool.false_eq_true, if_false]
    exact ⟨h.1, by rw [h.2.2.1]; omega⟩

theorem parsePSISections_spec (fuel : Nat) : ∀ (it it' : It) (ss : List PSISection), 0 ≤ it.off →
    parsePSISections fuel it = .ok (ss, it') → it'.bs = it.bs ∧ SectionsAt it.bs it.off.toNat ss := by
  induction fuel with
  | zero => intro it it' ss _ h; cases h
  | succ fuel ih =>
    intro it it' ss h0 h
    unfold parsePSISections at h
    obtain ⟨more, i1, h1, h⟩ := bind_inv h
    simp only [It.hasBytesLeft, Res.ok.injEq, Prod.mk.injEq] at h1
    obtain ⟨rfl, rfl⟩ := h1
    split at h
    · rename_i hmore
      have hlt : it.off < it.bs.length := by simpa using hmore
      obtain ⟨x, i2, h2, h⟩ := bind_inv h
      obtain ⟨s, stop⟩ := x
      obtain ⟨hb2, hsec⟩ := parsePSISection_spec it i2 s stop h0 h2
      obtain ⟨e1, e2⟩ := hsec.stop_eq
      simp only at h
      split at h
      · rename_i hstop
        simp only [P.pure_run, Res.ok.injEq, Prod.mk.injEq] at h
        obtain ⟨rfl, rfl⟩ := h
        refine ⟨hb2, ?_⟩
        unfold SectionsAt
        rw [← e1, hstop]
        rw [hstop] at hsec
        rw [← e1, hstop] at e2
        simp only [if_true] at e2 ⊢
        rw [e2] at hsec
        exact ⟨hsec, trivial⟩
      · rename_i hstop
        have hstop' : stop = false := by simpa using hstop
        obtain ⟨r, i3, h3, h⟩ := bind_inv h
        simp only [P.pure_run, Res.ok.injEq, Prod.mk.injEq] at h
        obtain ⟨rfl, rfl⟩ := h
        rw [← e1, hstop'] at e2
        simp only [Bool.false_eq_true, if_false] at e2
        have h02 : 0 ≤ i2.off := by rw [e2]; omega
        obtain ⟨hb3, hrest⟩ := ih i2 i3 r h02 h3
        refine ⟨hb3.trans hb2, ?_⟩
        unfold SectionsAt
        rw [← e1, hstop']
        rw [hstop'] at hsec
        simp only [Bool.false_eq_true, if_false]
        rw [e2] at hsec
        refine ⟨hsec, ?_⟩
        rw [hb2, e2, Int.toNat_natCast] at hrest
        exact hrest
    · rename_i hmore
      have hge : ¬ it.off < it.bs.length := by simpa using hmore
      simp only [P.pure_run, Res.ok.injEq, Prod.mk.injEq] at h
      obtain ⟨rfl, rfl⟩ := h
      refine ⟨rfl, ?_⟩
      unfold SectionsAt
      omega

theorem val_ok_inv {α} {x : P α} {bs : Bytes} {a : α} (h : x.val bs = .ok a) : ∃ i', x ⟨bs, 0⟩ = .ok (a, i') := by
  unfold P.val at h
  split at h
  · rename_i a' i' hx
    simp only [Res.ok.injEq] at h
    subst h
    exact ⟨i', hx⟩
  · cases h
  · cases h

/-- **the parser's verdict, whole payload**: the pointer field is the first byte, and the sections returned are
located — and CRC-checked — as `SectionsAt` says, starting behind the pointer field's skip -/
theorem parsePSIData_spec (payload : Bytes) (d : PSIData) (h : parsePSIData.val payload = .ok d) :
    1 ≤ payload.length ∧ d.pointerField = payload.getD 0 0 ∧
    SectionsAt payload (1 + payload.getD 0 0) d.sections := by
  obtain ⟨i', h⟩ := val_ok_inv h
  unfold parsePSIData at h
  obtain ⟨b, i1, h1, h⟩ := bind_inv h
  obtain ⟨_, hl, hb, rfl⟩ := nextByte_inv h1
  simp only at hl hb
  obtain ⟨_, i2, h2, h⟩ := bind_inv h
  simp only [It.skip, Res.ok.injEq, Prod.mk.injEq, true_and] at h2
  subst h2
  obtain ⟨fuel, i3, h3, h⟩ := bind_inv h
  simp only [fuelOf, Res.ok.injEq, Prod.mk.injEq] at h3
  obtain ⟨rfl, rfl⟩ := h3
  obtain ⟨ss, i4, h4, h⟩ := bind_inv h
  simp only [P.pure_run, Res.ok.injEq, Prod.mk.injEq] at h
  obtain ⟨rfl, rfl⟩ := h
  obtain ⟨_, hs⟩ := parsePSISections_spec _ _ _ _ (by simp only; omega) h4
  simp only at hs
  have e : ((0 : Int) + 1 + (b : Nat)).toNat = 1 + b := by omega
  rw [e] at hs
  subst hb
  exact ⟨by omega, rfl, hs⟩

/-! ### indexed form -/

/-- start of the `k`-th section when following the section_length fields of `bs` from `off` -/
def startOf (bs : Bytes) (off : Nat) : Nat → Nat
  | 0 => off
  | k + 1 => startOf bs (nextStart bs off) k

/-- bytes a returned section occupies according to its own header: 3 + section_length -/
def secLen (s : PSISection) : Nat := 3 + (s.header.getD {}).sectionLength

theorem SectionsAt.get {bs : Bytes} : ∀ (k off : Nat) (ss : List PSISection) (s : PSISection),
    SectionsAt bs off ss → ss[k]? = some s →
    SecAt bs (startOf bs off k) s (stops bs (startOf bs off k))
      (if stops bs (startOf bs off k) then startOf bs off k + 1 else nextStart bs (startOf bs off k)) ∧
    (∀ j, j < k → stops bs (startOf bs off j) = false) ∧
    startOf bs off k = off + ((ss.take k).map secLen).sum := by
  intro k
  induction k with
  | zero =>
    intro off ss s h hk
    cases ss with
    | nil => cases hk
    | cons a r =>
      simp only [List.getElem?_cons_zero, Option.some.injEq] at hk
      subst hk
      unfold SectionsAt at h
      exact ⟨h.1, fun j hj => by omega, by simp [startOf]⟩
  | succ k ih =>
    intro off ss s h hk
    cases ss with
    | nil => cases hk
    | cons a r =>
      simp only [List.getElem?_cons_succ] at hk
      unfold SectionsAt at h
      obtain ⟨ha, hr⟩ := h
      cases hst : stops bs off with
      | true =>
        rw [hst] at hr
        simp only [if_true] at hr
        subst hr
        cases hk
      | false =>
        rw [hst] at hr ha
        simp only [Bool.false_eq_true, if_false] at hr ha
        obtain ⟨h1, h2, h3⟩ := ih (nextStart bs off) r s hr hk
        refine ⟨h1, ?_, ?_⟩
        · intro j hj
          cases j with
          | zero => exact hst
          | succ j => exact h2 j (by omega)
        · show startOf bs (nextStart bs off) k = _
          rw [h3]
          have hlen : secLen a = 3 + slAt bs off := by
            unfold SecAt at ha
            have hs' : ¬ shouldStopPSIParsing (bs.getD off 0) = true := by
              unfold stops at hst; rw [hst]; exact Bool.false_ne_true
            rw [if_neg hs'] at ha
            unfold secLen
            rw [ha.2.2.2.2.1]
            rfl
          simp only [List.take_succ_cons, List.map_cons, List.sum_cons, hlen, nextStart]
          omega

/-- what `SecAt` says about a CRC-carrying section with a non-empty body -/
theorem SecAt.crc {bs : Bytes} {start : Nat} {s : PSISection} {stop : Bool} {next : Int} (h : SecAt bs start s stop next)
    (hd : PSISectionHeader) (hh : s.header = some hd) (hcrc : hasCRC32 hd.tableID = true) (hsl : hd.sectionLength > 0) :
    hd = hdrAt bs start ∧ CRCValidAt bs start ∧ s.crc32 = beNat (slice bs (start + slAt bs start - 1) 4) := by
  unfold SecAt at h
  obtain ⟨_, h⟩ := h
  split at h
  · obtain ⟨_, _, rfl⟩ := h
    simp only [Option.some.injEq] at hh
    subst hh
    simp at hsl
  · obtain ⟨_, _, _, hhd, _, hpos⟩ := h
    rw [hhd] at hh
    simp only [Option.some.injEq] at hh
    subst hh
    have := hpos hsl
    exact ⟨rfl, (this.2.1 hcrc).1, (this.2.1 hcrc).2⟩

/-- start of the `k`-th returned section computed from the RESULT: behind the pointer field and its skip, plus
3 + section_length for every earlier section -/
def secStart (d : PSIData) (k : Nat) : Nat := 1 + d.pointerField.toNat + ((d.sections.take k).map secLen).sum

/-- **V1**: any CRC-carrying section (with a body) that `parsePSIData` returns, for ANY payload bytes, has its
header decoded from the three bytes at its start offset, lies inside the payload, and its stored CRC32 is both the
big-endian value of the last four bytes of the section and the CRC_32 computed over the section's bytes before them -/
theorem delivered_section_crc (payload : Bytes) (d : PSIData) (h : parsePSIData.val payload = .ok d)
    (k : Nat) (s : PSISection) (hk : d.sections[k]? = some s)
    (hd : PSISectionHeader) (hh : s.header = some hd) (hcrc : hasCRC32 hd.tableID = true) (hsl : hd.sectionLength > 0) :
    hd = hdrAt payload (secStart d k) ∧
    secStart d k + 3 + hd.sectionLength ≤ payload.length ∧
    s.crc32 = beNat (slice payload (secStart d k + hd.sectionLength - 1) 4) ∧
    (computeCRC32 (slice payload (secStart d k) (hd.sectionLength - 1))).toNat = s.crc32 := by
  obtain ⟨_, hpf, hs⟩ := parsePSIData_spec payload d h
  obtain ⟨h1, _, h3⟩ := SectionsAt.get k _ _ s hs hk
  have hst : startOf payload (1 + payload.getD 0 0) k = secStart d k := by
    rw [h3]; unfold secStart; rw [hpf]; simp
  rw [hst] at h1
  obtain ⟨e1, e2, e3⟩ := h1.crc hd hh hcrc hsl
  have esl : hd.sectionLength = slAt payload (secStart d k) := by rw [e1]; rfl
  rw [esl]
  refine ⟨e1, e2.1, e3, ?_⟩
  rw [e3]; exact e2.2

/-! ## Part 4 — bytes ↔ bits: a burst confined to a section's byte range -/

/-- the bits of a byte string, MSB first -/
def bits (l : Bytes) : List Bool := l.flatMap Spec.bitsOfByte

/-- an error pattern: `a` untouched bits, a flipped bit, up to 31 arbitrary bits, `t` untouched bits -/
def burst (a : Nat) (b : List Bool) (t : Nat) : List Bool :=
  List.replicate a false ++ (true :: b) ++ List.replicate t false

theorem burst_length (a : Nat) (b : List Bool) (t : Nat) : (burst a b t).length = a + (b.length + 1) + t := by
  simp [burst]; omega

theorem bitsOfByte_length (x : Nat) : (Spec.bitsOfByte x).length = 8 := rfl

theorem bits_cons (x : Nat) (l : Bytes) : bits (x :: l) = Spec.bitsOfByte x ++ bits l := rfl

theorem bits_length (l : Bytes) : (bits l).length = 8 * l.length := by
  induction l with
  | nil => rfl
  | cons x r ih => rw [bits_cons, List.length_append, ih, bitsOfByte_length, List.length_cons]; omega

theorem bits_drop (l : Bytes) (n : Nat) : bits (l.drop n) = (bits l).drop (8 * n) := by
  induction n generalizing l with
  | zero => rfl
  | succ n ih =>
    cases l with
    | nil => simp [bits]
    | cons x r =>
      rw [List.drop_succ_cons, ih, bits_cons, List.drop_append, bitsOfByte_length]
      have h1 : (Spec.bitsOfByte x).drop (8 * (n + 1)) = [] := by
        apply List.drop_eq_nil_of_le; rw [bitsOfByte_length]; omega
      have h2 : 8 * (n + 1) - 8 = 8 * n := by omega
      rw [h1, h2, List.nil_append]

theorem bits_take (l : Bytes) (n : Nat) : bits (l.take n) = (bits l).take (8 * n) := by
  induction n generalizing l with
  | zero => rfl
  | succ n ih =>
    cases l with
    | nil => simp [bits]
    | cons x r =>
      rw [List.take_succ_cons, bits_cons, ih, bits_cons, List.take_append, bitsOfByte_length]
      have h1 : (Spec.bitsOfByte x).take (8 * (n + 1)) = Spec.bitsOfByte x := by
        apply List.take_of_length_le; rw [bitsOfByte_length]; omega
      have h2 : 8 * (n + 1) - 8 = 8 * n := by omega
      rw [h1, h2]

theorem bits_slice (l : Bytes) (a n : Nat) : bits (slice l a n) = ((bits l).drop (8 * a)).take (8 * n) := by
  unfold slice; rw [bits_take, bits_drop]

theorem xorBits_eq_zipWith (m e : List Bool) : xorBits m e = List.zipWith (· ^^ ·) m e := by
  induction m generalizing e with
  | nil => cases e <;> rfl
  | cons a r ih =>
    cases e with
    | nil => rfl
    | cons b s => simp only [xorBits, List.zipWith_cons_cons, ih]

theorem xorBits_window (m e : List Bool) (i n : Nat) :
    ((xorBits m e).drop i).take n = xorBits ((m.drop i).take n) ((e.drop i).take n) := by
  simp only [xorBits_eq_zipWith, List.drop_zipWith, List.take_zipWith]

/-- the part of a burst pattern seen through a window that contains the burst is again a burst pattern -/
theorem burst_window (a t s n : Nat) (b : List Bool) (h1 : s ≤ a) (h2 : a + (b.length + 1) ≤ s + n)
    (h3 : s + n ≤ a + (b.length + 1) + t) :
    ((burst a b t).drop s).take n = burst (a - s) b (s + n - (a + (b.length + 1))) := by
  obtain ⟨a', rfl⟩ : ∃ a', a = s + a' := ⟨a - s, by omega⟩
  obtain ⟨t2, ht⟩ : ∃ t2, t = (s + n - (s + a' + (b.length + 1))) + t2 := ⟨t - (s + n - (s + a' + (b.length + 1))), by omega⟩
  generalize ht1 : s + n - (s + a' + (b.length + 1)) = t1 at ht
  subst ht
  have e : burst (s + a') b (t1 + t2) = List.replicate s false ++ (burst a' b t1 ++ List.replicate t2 false) := by
    unfold burst
    rw [← List.replicate_append_replicate (n := s) (m := a'), ← List.replicate_append_replicate (n := t1) (m := t2)]
    simp only [List.append_assoc, List.cons_append]
  rw [e, List.drop_left' (by simp), List.take_left' (by rw [burst_length]; omega)]
  congr 1
  omega

theorem bitsOfByte_inj (x y : Nat) (hx : x < 256) (hy : y < 256) (h : Spec.bitsOfByte x = Spec.bitsOfByte y) : x = y := by
  apply Nat.eq_of_testBit_eq
  intro i
  simp only [Spec.bitsOfByte, List.cons.injEq, and_true] at h
  obtain ⟨h7, h6, h5, h4, h3, h2, h1, h0⟩ := h
  by_cases hi : i < 8
  · have : i = 0 ∨ i = 1 ∨ i = 2 ∨ i = 3 ∨ i = 4 ∨ i = 5 ∨ i = 6 ∨ i = 7 := by omega
    rcases this with rfl | rfl | rfl | rfl | rfl | rfl | rfl | rfl <;> assumption
  · have hx' : x < 2 ^ i := Nat.lt_of_lt_of_le hx (by
      have : (256 : Nat) = 2 ^ 8 := rfl
      rw [this]; exact Nat.pow_le_pow_right (by decide) (by omega))
    have hy' : y < 2 ^ i := Nat.lt_of_lt_of_le hy (by
      have : (256 : Nat) = 2 ^ 8 := rfl
      rw [this]; exact Nat.pow_le_pow_right (by decide) (by omega))
    rw [Nat.testBit_lt_two_pow hx', Nat.testBit_lt_two_pow hy']

theorem bits_inj (l l' : Bytes) (hl : ∀ x ∈ l, x < 256) (hl' : ∀ x ∈ l', x < 256) (h : bits l = bits l') : l = l' := by
  induction l generalizing l' with
  | nil =>
    cases l' with
    | nil => rfl
    | cons y r' =>
      have := congrArg List.length h
      rw [bits_length, bits_length] at this
      simp at this
  | cons x r ih =>
    cases l' with
    | nil =>
      have := congrArg List.length h
      rw [bits_length, bits_length] at this
      simp at this
    | cons y r' =>
      rw [bits_cons, bits_cons] at h
      have h8 := List.append_inj h (by rw [bitsOfByte_length, bitsOfByte_length])
      have e1 := bitsOfByte_inj x y (hl x (by simp)) (hl' y (by simp)) h8.1
      have e2 := ih r' (fun z hz => hl z (by simp [hz])) (fun z hz => hl' z (by simp [hz])) h8.2
      rw [e1, e2]

/-! ### the residue of an accepted section -/

/-- the CRC verdict on the byte range `[start, start + 3 + sl)` -/
def CRCValidOn (bs : Bytes) (start sl : Nat) : Prop :=
  start + 3 + sl ≤ bs.length ∧
  (computeCRC32 (slice bs start (sl - 1))).toNat = beNat (slice bs (start + sl - 1) 4)

theorem CRCValidAt_iff (bs : Bytes) (start : Nat) : CRCValidAt bs start ↔ CRCValidOn bs start (slAt bs start) := Iff.rfl

theorem slice_add (bs : Bytes) (a n m : Nat) : slice bs a (n + m) = slice bs a n ++ slice bs (a + n) m := by
  unfold slice
  rw [List.take_add, List.drop_drop]

theorem slice_length (bs : Bytes) (a n : Nat) (h : a + n ≤ bs.length) : (slice bs a n).length = n := by
  unfold slice; rw [List.length_take, List.length_drop]; omega

theorem slice_mem (bs : Bytes) (a n : Nat) (x : Nat) (h : x ∈ slice bs a n) : x ∈ bs :=
  List.mem_of_mem_drop (List.mem_of_mem_take h)

theorem beBytes4_beNat (cb : Bytes) (hl : cb.length = 4) (hb : ∀ x ∈ cb, x < 256) : beBytes 4 (beNat cb) = cb := by
  match cb, hl with
  | [w, x, y, z], _ =>
    have hw := hb w (by simp)
    have hx := hb x (by simp)
    have hy := hb y (by simp)
    have hz := hb z (by simp)
    simp only [beNat, List.foldl_cons, List.foldl_nil, beBytes, Nat.reducePow, Nat.zero_mul, Nat.zero_add,
      Nat.pow_zero, Nat.div_one, Nat.pow_one]
    simp only [List.cons.injEq, and_true]
    refine ⟨?_, ?_, ?_, ?_⟩ <;> omega

theorem crcFrom_bits (c : BitVec 32) (bs : Bytes) : Spec.crcFrom c bs = feedBits c (bits bs) := by
  induction bs generalizing c with
  | nil => rfl
  | cons b r ih =>
    simp only [Spec.crcFrom, List.foldl_cons, bits, List.flatMap_cons, feedBits, List.foldl_append] at *
    exact ih _

/-- a section accepted by the CRC check has residue 0 over its whole byte range, CRC field included, when read
as a bit string by the reference register -/
theorem valid_residue (bs : Bytes) (hb : ∀ x ∈ bs, x < 256) (start sl : Nat) (hsl : 0 < sl)
    (hv : CRCValidOn bs start sl) :
    feedBits 0xFFFFFFFF#32 (bits (slice bs start (sl + 3))) = 0#32 := by
  obtain ⟨hlen, hcrc⟩ := hv
  have e : sl + 3 = (sl - 1) + 4 := by omega
  have e2 : start + (sl - 1) = start + sl - 1 := by omega
  have hS : slice bs start (sl + 3) = slice bs start (sl - 1) ++ slice bs (start + sl - 1) 4 := by
    rw [e, slice_add, e2]
  have hcb : slice bs (start + sl - 1) 4 = be32 (computeCRC32 (slice bs start (sl - 1))) := by
    unfold be32
    rw [hcrc]
    exact (beBytes4_beNat _ (slice_length _ _ _ (by omega)) (fun x hx => hb x (slice_mem _ _ _ _ hx))).symm
  have h0 : computeCRC32 (slice bs start (sl + 3)) = 0#32 := by
    rw [hS, hcb]; exact C10.residue_zero _
  rw [C10.crc_eq_spec _ (fun x hx => hb x (slice_mem _ _ _ _ hx))] at h0
  unfold Spec.crc at h0
  rw [crcFrom_bits] at h0
  exact h0

/-! ### what a burst leaves unchanged -/

theorem xorBits_length (m e : List Bool) (h : m.length = e.length) : (xorBits m e).length = m.length := by
  rw [xorBits_eq_zipWith, List.length_zipWith]; omega

theorem xorBits_false (m : List Bool) (k : Nat) (h : m.length = k) : xorBits m (List.replicate k false) = m := by
  induction m generalizing k with
  | nil => cases k <;> rfl
  | cons a r ih =>
    cases k with
    | zero => simp at h
    | succ k =>
      simp only [List.replicate_succ, xorBits, Bool.xor_false]
      rw [ih k (by simpa using h)]

/-- a corrupted copy: same number of bytes, all bytes still bytes, and bitwise the original XOR the pattern -/
structure Corrupted (p p' : Bytes) (a : Nat) (b : List Bool) (t : Nat) : Prop where
  bytes : ∀ x ∈ p, x < 256
  bytes' : ∀ x ∈ p', x < 256
  len : 8 * p.length = a + (b.length + 1) + t
  xor : bits p' = xorBits (bits p) (burst a b t)

theorem Corrupted.length_eq {p p' : Bytes} {a t : Nat} {b : List Bool} (h : Corrupted p p' a b t) :
    p'.length = p.length := by
  have := congrArg List.length h.xor
  rw [bits_length, xorBits_length _ _ (by rw [bits_length, burst_length]; exact h.len), bits_length] at this
  omega

/-- the bytes in front of the burst are unchanged -/
theorem Corrupted.take_eq {p p' : Bytes} {a t : Nat} {b : List Bool} (h : Corrupted p p' a b t) (n : Nat)
    (hn : 8 * n ≤ a) : p'.take n = p.take n := by
  apply bits_inj _ _ (fun x hx => h.bytes' x (List.mem_of_mem_take hx)) (fun x hx => h.bytes x (List.mem_of_mem_take hx))
  rw [bits_take, bits_take, h.xor]
  have := xorBits_window (bits p) (burst a b t) 0 (8 * n)
  simp only [List.drop_zero] at this
  rw [this]
  have e : (burst a b t).take (8 * n) = List.replicate (8 * n) false := by
    unfold burst
    rw [List.append_assoc, List.take_append_of_le_length (by simp; omega), List.take_replicate]
    congr 1; omega
  rw [e]
  apply xorBits_false
  rw [List.length_take, bits_length]
  have := h.len
  omega

theorem Corrupted.getD_eq {p p' : Bytes} {a t : Nat} {b : List Bool} (h : Corrupted p p' a b t) (j : Nat)
    (hj : 8 * (j + 1) ≤ a) : p'.getD j 0 = p.getD j 0 := by
  have := h.take_eq (j + 1) hj
  have e1 : (p'.take (j + 1)).getD j 0 = p'.getD j 0 := by
    simp [List.getD_eq_getElem?_getD, List.getElem?_take]
  have e2 : (p.take (j + 1)).getD j 0 = p.getD j 0 := by
    simp [List.getD_eq_getElem?_getD, List.getElem?_take]
  rw [← e1, ← e2, this]

/-- the bits of a section's byte range in the corrupted copy are those of the original XOR a burst pattern of the
same shape, when the burst lies inside the range -/
theorem Corrupted.section_bits {p p' : Bytes} {a t : Nat} {b : List Bool} (h : Corrupted p p' a b t)
    (start n : Nat) (h1 : 8 * start ≤ a) (h2 : a + (b.length + 1) ≤ 8 * (start + n)) (h3 : start + n ≤ p.length) :
    bits (slice p' start n) = xorBits (bits (slice p start n)) (burst (a - 8 * start) b (8 * (start + n) - (a + (b.length + 1)))) ∧
    (bits (slice p start n)).length = (a - 8 * start) + (b.length + 1) + (8 * (start + n) - (a + (b.length + 1))) := by
  constructor
  · rw [bits_slice, bits_slice, h.xor, xorBits_window,
      burst_window a t (8 * start) (8 * n) b h1 (by omega) (by have := h.len; omega)]
    congr 2
    omega
  · rw [bits_length, slice_length _ _ _ h3]; omega

/-! ## Part 5 — a corrupted section is not delivered -/

/-- the burst-detection property of the CRC register (instantiated in `Props/C09.lean` with
`corrupted_section_rejected`, i.e. `burst32_detected`) -/
def Detects : Prop :=
  ∀ (sec : List Bool) (a t : Nat) (b : List Bool), b.length ≤ 31 → sec.length = a + (b.length + 1) + t →
    feedBits 0xFFFFFFFF#32 sec = 0#32 →
    feedBits 0xFFFFFFFF#32 (xorBits sec (List.replicate a false ++ (true :: b) ++ List.replicate t false)) ≠ 0#32

/-- the same byte range cannot pass the CRC check both before and after a burst of at most 32 bits inside it -/
theorem not_both_valid (det : Detects) {p p' : Bytes} {a t : Nat} {b : List Bool} (h : Corrupted p p' a b t)
    (hb : b.length ≤ 31) (start sl : Nat) (hsl : 0 < sl) (h1 : 8 * start ≤ a)
    (h2 : a + (b.length + 1) ≤ 8 * (start + 3 + sl))
    (hv : CRCValidOn p start sl) (hv' : CRCValidOn p' start sl) : False := by
  have hn : start + (sl + 3) ≤ p.length := by have := hv.1; omega
  obtain ⟨e1, e2⟩ := h.section_bits start (sl + 3) h1 (by omega) hn
  have r := valid_residue p h.bytes start sl hsl hv
  have r' := valid_residue p' h.bytes' start sl hsl hv'
  rw [e1] at r'
  exact det _ _ _ b hb e2 r r'

theorem startOf_ge (bs : Bytes) (off k : Nat) : off ≤ startOf bs off k := by
  induction k generalizing off with
  | zero => exact Nat.le_refl _
  | succ k ih =>
    have := ih (nextStart bs off)
    unfold nextStart at this
    show off ≤ startOf bs (nextStart bs off) k
    unfold nextStart
    omega

theorem startOf_succ_ge (bs : Bytes) (off k : Nat) : off + 3 ≤ startOf bs off (k + 1) := by
  have := startOf_ge bs (nextStart bs off) k
  unfold nextStart at this
  show off + 3 ≤ startOf bs (nextStart bs off) k
  unfold nextStart
  omega

/-- two inputs of the same length that agree on every byte up to the three header bytes of the `k`-th section of
the first: the second's section loop reaches the same offset with its `k`-th section -/
theorem chain_agree (p p' : Bytes) (hlen : p'.length = p.length) : ∀ (k off : Nat) (ss ss' : List PSISection)
    (s : PSISection), SectionsAt p off ss → SectionsAt p' off ss' → ss[k]? = some s →
    (∀ j, j < startOf p off k + 3 → p'.getD j 0 = p.getD j 0) →
    startOf p' off k = startOf p off k ∧ ∃ s', ss'[k]? = some s' := by
  intro k
  induction k with
  | zero =>
    intro off ss ss' s h h' hk _
    cases ss with
    | nil => cases hk
    | cons a r =>
      unfold SectionsAt at h
      have hoff := h.1.1
      cases ss' with
      | nil => unfold SectionsAt at h'; omega
      | cons a' r' => exact ⟨rfl, a', rfl⟩
  | succ k ih =>
    intro off ss ss' s h h' hk hag
    cases ss with
    | nil => cases hk
    | cons a r =>
      simp only [List.getElem?_cons_succ] at hk
      unfold SectionsAt at h
      have hoff := h.1.1
      have h3 := startOf_succ_ge p off k
      cases hst : stops p off with
      | true =>
        have hr := h.2
        rw [hst] at hr
        simp only [if_true] at hr
        subst hr
        cases hk
      | false =>
        have hr := h.2
        rw [hst] at hr
        simp only [Bool.false_eq_true, if_false] at hr
        have g0 := hag off (by omega)
        have g1 := hag (off + 1) (by omega)
        have g2 := hag (off + 2) (by omega)
        have hst' : stops p' off = false := by unfold stops at hst ⊢; rw [g0]; exact hst
        have hns : nextStart p' off = nextStart p off := by unfold nextStart slAt; rw [g1, g2]
        cases ss' with
        | nil => unfold SectionsAt at h'; omega
        | cons a' r' =>
          unfold SectionsAt at h'
          have hr' := h'.2
          rw [hst'] at hr'
          simp only [Bool.false_eq_true, if_false] at hr'
          rw [hns] at hr'
          obtain ⟨e1, s', e2⟩ := ih (nextStart p off) r r' s hr hr' hk hag
          refine ⟨?_, s', by simpa using e2⟩
          show startOf p' (nextStart p' off) k = startOf p (nextStart p off) k
          rw [hns]; exact e1

theorem SecAt.not_stop {bs : Bytes} {start : Nat} {s : PSISection} {stop : Bool} {next : Int} (h : SecAt bs start s stop next)
    (hd : PSISectionHeader) (hh : s.header = some hd) (hsl : hd.sectionLength > 0) :
    stops bs start = false ∧ s.header = some (hdrAt bs start) := by
  unfold SecAt at h
  obtain ⟨_, h⟩ := h
  split at h
  · obtain ⟨_, _, rfl⟩ := h
    simp only [Option.some.injEq] at hh
    subst hh
    simp at hsl
  · rename_i hs
    unfold stops
    exact ⟨by simpa using hs, h.2.2.2.1⟩

/-- `secStart` (computed from the result) is the offset reached by following the input's length fields -/
theorem secStart_eq (payload : Bytes) (d : PSIData) (h : parsePSIData.val payload = .ok d) (k : Nat) (s : PSISection)
    (hk : d.sections[k]? = some s) : secStart d k = startOf payload (1 + payload.getD 0 0) k := by
  obtain ⟨_, hpf, hs⟩ := parsePSIData_spec payload d h
  obtain ⟨_, _, h3⟩ := SectionsAt.get k _ _ s hs hk
  rw [h3]; unfold secStart; rw [hpf]; simp

/-- **V2, general form** (whatever the burst hits inside the section, header bytes included): if the corrupted
payload is parsed successfully at all, NO section of the result that carries a CRC occupies the byte range of the
corrupted section (same start offset, same section_length) -/
theorem corrupted_range_not_delivered (det : Detects) {payload payload' : Bytes} {a t : Nat} {b : List Bool}
    (hc : Corrupted payload payload' a b t) (hb : b.length ≤ 31)
    (d : PSIData) (h : parsePSIData.val payload = .ok d)
    (k : Nat) (s : PSISection) (hk : d.sections[k]? = some s)
    (hd : PSISectionHeader) (hh : s.header = some hd) (hcrc : hasCRC32 hd.tableID = true) (hsl : hd.sectionLength > 0)
    (h1 : 8 * secStart d k ≤ a) (h2 : a + (b.length + 1) ≤ 8 * (secStart d k + 3 + hd.sectionLength))
    (d' : PSIData) (h' : parsePSIData.val payload' = .ok d')
    (k' : Nat) (s' : PSISection) (hk' : d'.sections[k']? = some s')
    (hd' : PSISectionHeader) (hh' : s'.header = some hd') (hcrc' : hasCRC32 hd'.tableID = true)
    (hstart : secStart d' k' = secStart d k) (hlen : hd'.sectionLength = hd.sectionLength) : False := by
  obtain ⟨_, v1, v2, v3⟩ := delivered_section_crc payload d h k s hk hd hh hcrc hsl
  obtain ⟨_, w1, w2, w3⟩ := delivered_section_crc payload' d' h' k' s' hk' hd' hh' hcrc' (by rw [hlen]; exact hsl)
  rw [hstart, hlen] at w1 w2 w3
  exact not_both_valid det hc hb (secStart d k) hd.sectionLength hsl h1 h2
    ⟨v1, by rw [v3, v2]⟩ ⟨w1, by rw [w3, w2]⟩

/-- **V2, table_id and section_length untouched**: if the burst lies inside the section but behind its three
header bytes, the corrupted payload is rejected with an error — nothing at all is delivered -/
theorem corrupted_body_rejected (det : Detects) {payload payload' : Bytes} {a t : Nat} {b : List Bool}
    (hc : Corrupted payload payload' a b t) (hb : b.length ≤ 31)
    (d : PSIData) (h : parsePSIData.val payload = .ok d)
    (k : Nat) (s : PSISection) (hk : d.sections[k]? = some s)
    (hd : PSISectionHeader) (hh : s.header = some hd) (hcrc : hasCRC32 hd.tableID = true) (hsl : hd.sectionLength > 0)
    (h1 : 8 * (secStart d k + 3) ≤ a) (h2 : a + (b.length + 1) ≤ 8 * (secStart d k + 3 + hd.sectionLength)) :
    ∃ e, parsePSIData.val payload' = .err e := by
  cases hr : parsePSIData.val payload' with
  | err e => exact ⟨e, rfl⟩
  | panic => exact absurd hr (NP_parsePSIData.val_ne_panic payload')
  | ok d' =>
    exfalso
    obtain ⟨_, hpf, hs⟩ := parsePSIData_spec payload d h
    obtain ⟨_, hpf', hs'⟩ := parsePSIData_spec payload' d' hr
    have hS := secStart_eq payload d h k s hk
    have hag : ∀ j, j < startOf payload (1 + payload.getD 0 0) k + 3 → payload'.getD j 0 = payload.getD j 0 := by
      intro j hj
      rw [← hS] at hj
      exact hc.getD_eq j (by omega)
    have hS0 := startOf_ge payload (1 + payload.getD 0 0) k
    have hp0 : payload'.getD 0 0 = payload.getD 0 0 := hag 0 (by omega)
    rw [hp0] at hs'
    obtain ⟨e1, s', hk'⟩ := chain_agree payload payload' hc.length_eq k _ _ _ s hs hs' hk hag
    obtain ⟨g1, _, _⟩ := SectionsAt.get k _ _ s hs hk
    obtain ⟨g1', _, _⟩ := SectionsAt.get k _ _ s' hs' hk'
    rw [e1] at g1'
    rw [← hS] at g1 g1' hag
    obtain ⟨n1, n2⟩ := g1.not_stop hd hh hsl
    rw [hh] at n2
    simp only [Option.some.injEq] at n2
    have b0 := hag (secStart d k) (by omega)
    have b1 := hag (secStart d k + 1) (by omega)
    have b2 := hag (secStart d k + 2) (by omega)
    have hhdr : hdrAt payload' (secStart d k) = hdrAt payload (secStart d k) := by
      unfold hdrAt; rw [b0, b1, b2]
    have hst' : stops payload' (secStart d k) = false := by
      unfold stops at n1 ⊢; rw [b0]; exact n1
    have hh' : s'.header = some hd := by
      unfold SecAt at g1'
      have hs'' : ¬ shouldStopPSIParsing (payload'.getD (secStart d k) 0) = true := by
        unfold stops at hst'; rw [hst']; exact Bool.false_ne_true
      rw [if_neg hs''] at g1'
      rw [g1'.2.2.2.2.1, hhdr, ← n2]
    have hS' : secStart d' k = secStart d k := by
      rw [secStart_eq payload' d' hr k s' hk', hp0, e1, ← hS]
    exact corrupted_range_not_delivered det hc hb d h k s hk hd hh hcrc hsl (by omega) h2 d' hr k s' hk' hd hh' hcrc hS' rfl

/-! ## Part 6 — what reaches the demuxer's caller -/

/-- the table ids for which `PSIData.toData` produces data all carry a CRC -/
theorem toData_ids_have_crc (t : Nat)
    (h : (t = 0x40 ∨ t = 0x41) ∨ t = 0 ∨ t = 2 ∨ (t = 0x42 ∨ t = 0x46) ∨ t = 0x73 ∨ isEIT t = true) : hasCRC32 t = true := by
  unfold hasCRC32
  rcases h with (h | h) | h | h | (h | h) | h | h <;> simp [h]

/-- a section that contributes a `DemuxerData` has a syntax section, a header, and a CRC-carrying table id -/
theorem psiToData_source (d : PSIData) (fp : Packet) (pid : Nat) (x : DemuxerData) (hx : x ∈ psiToData d fp pid) :
    ∃ s ∈ d.sections, ∃ hd, s.header = some hd ∧ s.syn.isSome = true ∧ hasCRC32 hd.tableID = true := by
  unfold psiToData at hx
  obtain ⟨l, hl, hxl⟩ := List.mem_flatten.mp hx
  obtain ⟨s, hs, rfl⟩ := List.mem_map.mp hl
  refine ⟨s, hs, ?_⟩
  split at hxl
  · cases hxl
  · rename_i syn hsyn
    split at hxl
    · rename_i sd h hsd hh
      refine ⟨h, hh, by rw [hsyn]; rfl, ?_⟩
      apply toData_ids_have_crc
      simp only at hxl
      by_cases c1 : h.tableID = 0x40 ∨ h.tableID = 0x41
      · exact Or.inl c1
      by_cases c2 : h.tableID = 0
      · exact Or.inr (Or.inl c2)
      by_cases c3 : h.tableID = 2
      · exact Or.inr (Or.inr (Or.inl c3))
      by_cases c4 : h.tableID = 0x42 ∨ h.tableID = 0x46
      · exact Or.inr (Or.inr (Or.inr (Or.inl c4)))
      by_cases c5 : h.tableID = 0x73
      · exact Or.inr (Or.inr (Or.inr (Or.inr (Or.inl c5))))
      by_cases c6 : isEIT h.tableID = true
      · exact Or.inr (Or.inr (Or.inr (Or.inr (Or.inr c6))))
      · simp [c1, c2, c3, c4, c5, c6] at hxl
    · cases hxl

/-- a returned section with a syntax part has a non-zero section_length -/
theorem syn_some_sl_pos (payload : Bytes) (d : PSIData) (h : parsePSIData.val payload = .ok d) (k : Nat) (s : PSISection)
    (hk : d.sections[k]? = some s) (hd : PSISectionHeader) (hh : s.header = some hd) (hsyn : s.syn.isSome = true) :
    hd.sectionLength > 0 := by
  obtain ⟨_, _, hs⟩ := parsePSIData_spec payload d h
  obtain ⟨h1, _, _⟩ := SectionsAt.get k _ _ s hs hk
  unfold SecAt at h1
  obtain ⟨_, h1⟩ := h1
  split at h1
  · obtain ⟨_, _, rfl⟩ := h1
    cases hsyn
  · obtain ⟨_, _, _, hhd, hz, _⟩ := h1
    rw [hhd] at hh
    simp only [Option.some.injEq] at hh
    subst hh
    apply Nat.pos_of_ne_zero
    intro h0
    have := (hz h0).1
    rw [this] at hsyn
    cases hsyn

/-- **every `DemuxerData` the PSI path hands out comes from a section whose CRC_32 was checked and valid** on the
bytes of the payload — sections with section_length 0 (never checked) contribute nothing -/
theorem delivered_data_crc_valid (payload : Bytes) (d : PSIData) (h : parsePSIData.val payload = .ok d)
    (fp : Packet) (pid : Nat) (x : DemuxerData) (hx : x ∈ psiToData d fp pid) :
    ∃ k s hd, d.sections[k]? = some s ∧ s.header = some hd ∧ hasCRC32 hd.tableID = true ∧ hd.sectionLength > 0 ∧
      CRCValidOn payload (secStart d k) hd.sectionLength := by
  obtain ⟨s, hs, hd, hh, hsyn, hcrc⟩ := psiToData_source d fp pid x hx
  obtain ⟨k, hk⟩ := List.mem_iff_getElem?.mp hs
  have hsl := syn_some_sl_pos payload d h k s hk hd hh hsyn
  obtain ⟨_, v1, v2, v3⟩ := delivered_section_crc payload d h k s hk hd hh hcrc hsl
  exact ⟨k, s, hd, hk, hh, hcrc, hsl, v1, by rw [v3, v2]⟩

end Astits.PSIVerdict
