/-
C02, whole-stream form: `Demux.nextData` on the bytes of the reference multiplexer (`Spec.RefMux`) delivers exactly what
the stream model says (`StreamModel.expected`).  Parts: `RefMuxDelivers/UnitsDI` (units whose start packet may announce a
discontinuity), `…/Defs` (well-formed units), `…/Packets` (D1: the packets of the model), `…/Run`, `…/NoErr` (the demuxer
run, all PIDs at once, no errors), `…/Chains` (one PID's units through the accumulator), `…/Tables` (D3: PAT/PMT units,
the first PAT), `…/QSortPerm` (`Array.qsort` permutes).  This file composes them (D2, D4, D5).
-/
import Astits.Proofs.RefMuxDelivers.Packets
import Astits.Proofs.RefMuxDelivers.Chains
import Astits.Proofs.RefMuxDelivers.QSortPerm
import Astits.Proofs.RefMuxDelivers.Tables
import Astits.Proofs.SIRT
import Astits.Props.C12
import Astits.Proofs.SpecEq.PSI
namespace Astits.RefMux
open Astits Astits.Spec Astits.MuxDemux Astits.PerPid Astits.PacketRT

/-! ## the packets of one PID, as the demuxer's pool sees them -/

theorem packets_plain (m : StreamModel) (h : ∀ u ∈ m.units, UnitWF u) : ∀ p ∈ m.packets, StartPayload p := by
  intro p hp
  obtain ⟨u, hu, cc, hpc⟩ := packets_mem m p hp
  exact (packetsOf_wf u cc (h u hu) p hpc).2.2.2

/-- the packets of `pid` the pool accepts are all the packets of `pid`: the units of the PID, counters running on -/
theorem accepted_packets (m : StreamModel) (h : ∀ u ∈ m.units, UnitWF u) (pid : Nat) :
    m.packets.filter (accepted pid) = chainPk 0 (unitsOn m pid) := by
  rw [← packets_filter m pid]
  apply List.filter_congr
  intro p hp
  have := packets_plain m h p hp
  simp [accepted, this.1, this.2.1]

theorem unitsOn_wf (m : StreamModel) (h : ∀ u ∈ m.units, UnitWF u) (pid : Nat) : ∀ u ∈ unitsOn m pid, UnitWF u :=
  fun u hu => h u (List.mem_filter.mp hu).1

/-! ## a PID whose units are handed over whole (no early flush): elementary streams, DVB SI -/

/-- the unit's packets, handed to `parseData` as one group, parse to the unit's expected data -/
def UnitDelivers (pmR : ProgramMap) (u : TSUnit) : Prop :=
  ∀ cc, parseData (packetsOf u cc) .none pmR = .ok (expectedOf u cc)

/-- what is delivered on a PID, what the stream model expects there, and that nothing fails to parse -/
structure PidOK (pmR : ProgramMap) (m : StreamModel) (pid : Nat) : Prop where
  data : pidData pmR pid (chainPk 0 (unitsOn m pid)) = chainExp 0 (unitsOn m pid)
  groups : ∀ g ∈ groupsFromP pmR pid [] (chainPk 0 (unitsOn m pid)), ∃ ds, parseData g .none pmR = .ok ds
  safe : ∀ y ∈ chainExp 0 (unitsOn m pid), PatSafe pmR y

/-- two lists related element by element -/
inductive Forall₂ {α β : Type} (R : α → β → Prop) : List α → List β → Prop
  | nil : Forall₂ R [] []
  | cons {a b l₁ l₂} : R a b → Forall₂ R l₁ l₂ → Forall₂ R (a :: l₁) (b :: l₂)

theorem chain_forall2 (pmR : ProgramMap) (us : List TSUnit) (hw : ∀ u ∈ us, UnitWF u) (hd : ∀ u ∈ us, UnitDelivers pmR u)
    (cc : Nat) :
    ∃ outs : List (List DemuxerData), outs.flatten = chainExp cc us ∧
      Forall₂ (fun (U : UnitPk) o => parseData U.packets .none pmR = .ok o) (chainUnits cc us) outs := by
  induction us generalizing cc with
  | nil => exact ⟨[], rfl, .nil⟩
  | cons u r ih =>
    obtain ⟨outs, h1, h2⟩ := ih (fun x hx => hw x (by simp [hx])) (fun x hx => hd x (by simp [hx])) (nextCC u cc)
    refine ⟨expectedOf u cc :: outs, by simp [chainExp, h1], .cons ?_ h2⟩
    rw [← packetsOf_eq_unit u cc (hw u (by simp))]
    exact hd u (by simp) cc

theorem pidData_forall2 (pm : ProgramMap) (pid : Nat) (hnp : early pid pm = false) (us : List UnitPk)
    (hc : ChainOK' [] us) (outs : List (List DemuxerData))
    (hp : Forall₂ (fun (U : UnitPk) o => parseData U.packets .none pm = .ok o) us outs) :
    pidData pm pid (us.flatMap UnitPk.packets) = outs.flatten ∧
    ∀ g ∈ groupsFromP pm pid [] (us.flatMap UnitPk.packets), ∃ ds, parseData g .none pm = .ok ds := by
  unfold pidData parsedOn
  rw [groupsFromP_units pm pid hnp us hc]
  constructor
  · rw [List.map_map]
    clear hc
    induction hp with
    | nil => rfl
    | cons h _ ih =>
      simp only [List.map_cons, Function.comp, okAll_cons, h, List.flatten_cons]
      rw [← ih]
  · intro g hg
    obtain ⟨u, hu, rfl⟩ := List.mem_map.mp hg
    clear hc hg
    induction hp with
    | nil => cases hu
    | cons h _ ih =>
      rcases List.mem_cons.mp hu with rfl | hu'
      · exact ⟨_, h⟩
      · exact ih hu'

/-- **a PID without early flush** (`early pid pmR = false`: not PID 0, not a PMT PID of the reference map) whose units are
well-formed and parse: the per-PID function of its packets is the expected data of its units, one group per unit -/
theorem whole_unit_pid (pmR : ProgramMap) (m : StreamModel) (pid : Nat) (hnp : early pid pmR = false)
    (hw : ∀ u ∈ m.units, UnitWF u) (hd : ∀ u ∈ unitsOn m pid, UnitDelivers pmR u)
    (hsafe : ∀ u ∈ unitsOn m pid, ∀ y ∈ u.data, y.pat = none) : PidOK pmR m pid := by
  have hwp := unitsOn_wf m hw pid
  obtain ⟨outs, h1, h2⟩ := chain_forall2 pmR (unitsOn m pid) hwp hd 0
  have hc : ChainOK' [] (chainUnits 0 (unitsOn m pid)) := chain_ok _ hwp 0 (by omega) [] (Or.inl rfl)
  obtain ⟨a1, a2⟩ := pidData_forall2 pmR pid hnp _ hc outs h2
  rw [← chainPk_eq 0 _ hwp, h1] at a1
  rw [← chainPk_eq 0 _ hwp] at a2
  refine ⟨a1, a2, ?_⟩
  -- no PAT among the expected data
  have key : ∀ (us : List TSUnit) (cc : Nat), (∀ u ∈ us, UnitWF u) → (∀ u ∈ us, ∀ y ∈ u.data, y.pat = none) →
      ∀ y ∈ chainExp cc us, y.pat = none := by
    intro us
    induction us with
    | nil => intro cc _ _ y hy; cases hy
    | cons u r ih =>
      intro cc hwf hs y hy
      simp only [chainExp, List.mem_append] at hy
      rcases hy with hy | hy
      · rw [expectedOf_eq u cc (hwf u (by simp))] at hy
        obtain ⟨d, hd, rfl⟩ := List.mem_map.mp hy
        exact hs u (by simp) d hd
      · exact ih _ (fun x hx => hwf x (by simp [hx])) (fun x hx => hs x (by simp [hx])) y hy
  intro y hy pat hp
  rw [key _ 0 hwp hsafe y hy] at hp
  cases hp

/-! ## D2 — elementary-stream PIDs -/

/-- a PES unit: the payload is a PES packet (it starts with the start code prefix and parses), the expected datum is
the parsed PES, and the last packet is not padded -/
structure PESUnit (u : TSUnit) : Prop where
  start : isPESPayload u.payload = true
  parses : ∃ pd, parsePESData.val u.payload = .ok pd ∧ u.data = [{ pes := some pd }]
  nopad : u.psi = false

theorem padLen_of_not_psi (u : TSUnit) (h : u.psi = false) : padLen u = 0 := by
  simp [padLen, h]

theorem pes_unit_delivers (pmR : ProgramMap) (u : TSUnit) (hw : UnitWF u) (hes : ESPid u.pid pmR) (hp : PESUnit u) :
    UnitDelivers pmR u := by
  intro cc
  obtain ⟨pd, hpd, hdata⟩ := hp.parses
  have hc := concat_packetsOf u cc hw
  rw [padLen_of_not_psi u hp.nopad] at hc
  simp only [List.replicate_zero, List.append_nil] at hc
  have hpk := packetsOf_eq_unit u cc hw
  rw [hpk] at hc
  simp only [UnitPk.packets] at hc
  have hpid : (unitPk u cc).first.header.pid = u.pid :=
    packetsOf_pid u cc _ (by rw [hpk]; simp [UnitPk.packets])
  rw [expectedOf_eq u cc hw, hdata]
  have h1 : (u.pid == 1) = false := by simpa using hes.1
  unfold parseData
  simp only [hc, hpk, UnitPk.packets, List.headD_cons, hpid, h1, hes.2, hp.start, hpd, Bool.false_eq_true, if_false,
    if_true, List.map_cons, List.map_nil]

/-- **D2 (per PID)**: an elementary-stream PID of the reference map whose units are well-formed PES units -/
theorem pes_pid_ok (pmR : ProgramMap) (m : StreamModel) (pid : Nat) (hes : ESPid pid pmR)
    (hw : ∀ u ∈ m.units, UnitWF u) (hp : ∀ u ∈ unitsOn m pid, PESUnit u) : PidOK pmR m pid := by
  apply whole_unit_pid pmR m pid (by unfold early; exact hes.notEarly) hw
  · intro u hu
    have hpid := unitsOn_pid m pid u hu
    exact pes_unit_delivers pmR u (unitsOn_wf m hw pid u hu) (by rw [hpid]; exact hes) (hp u hu)
  · intro u hu y hy
    obtain ⟨pd, _, hdata⟩ := (hp u hu).parses
    rw [hdata] at hy
    simp only [List.mem_cons, List.not_mem_nil, or_false] at hy
    rw [hy]

/-- the PATs among the expected data of a chain are the PATs among the units' data -/
theorem chainExp_pat (us : List TSUnit) (cc : Nat) (hw : ∀ u ∈ us, UnitWF u) :
    ∀ y ∈ chainExp cc us, ∃ u ∈ us, ∃ d ∈ u.data, y.pat = d.pat := by
  induction us generalizing cc with
  | nil => intro y hy; cases hy
  | cons u r ih =>
    intro y hy
    simp only [chainExp, List.mem_append] at hy
    rcases hy with hy | hy
    · rw [expectedOf_eq u cc (hw u (by simp))] at hy
      obtain ⟨d, hd, rfl⟩ := List.mem_map.mp hy
      exact ⟨u, by simp, d, hd, rfl⟩
    · obtain ⟨u', hu', d, hd, e⟩ := ih _ (fun x hx => hw x (by simp [hx])) y hy
      exact ⟨u', by simp [hu'], d, hd, e⟩

/-! ## D3 — table PIDs (PID 0 and the PMT PIDs of the reference map) -/

/-- **D3 (per PID)**: a table PID whose units are well-formed PAT/PMT units cut at conformant points -/
theorem table_pid_ok (pmR : ProgramMap) (m : StreamModel) (pid : Nat) (htab : early pid pmR = true) (hcat : pid ≠ 1)
    (hw : ∀ u ∈ m.units, UnitWF u) (hT : ∀ u ∈ unitsOn m pid, TableUnitE u)
    (hsafe : ∀ u ∈ unitsOn m pid, ∀ y ∈ u.data, PatSafe pmR y) : PidOK pmR m pid := by
  have hwp := unitsOn_wf m hw pid
  obtain ⟨a1, a2⟩ := table_pid_data pmR pid htab hcat (unitsOn m pid) (unitsOn_pid m pid) hwp hT
  refine ⟨a1, a2, ?_⟩
  intro y hy pat hp
  obtain ⟨u, hu, d, hd, e⟩ := chainExp_pat _ 0 hwp y hy
  exact hsafe u hu d hd pat (by rw [← e]; exact hp)

/-! ## D4 — DVB SI PIDs (0x10–0x14, 0x1e, 0x1f): parsed as PSI, no early flush -/

/-- a DVB SI unit: pointer_field, sections that each parse wherever they stand (`SIRT.SecAt`: the SDT, NIT, EIT, TOT
round trips), 0xFF stuffing; the expected data are the data of the parsed sections -/
structure SIUnit (u : TSUnit) (ptr stuff : Nat) (secs : List (Bytes × PSISection)) : Prop where
  bytes : u.payload = Spec.unitEncode ptr (secs.map (·.1)) stuff
  secAt : ∀ p ∈ secs, SIRT.SecAt p
  data : ∀ fp, psiToData { pointerField := (ptr : Int), sections := secs.map (·.2) } fp u.pid =
    u.data.map fun d => { d with firstPacket := some fp, pid := u.pid }

theorem psiToData_append (pf : Int) (a b : List PSISection) (fp : Packet) (pid : Nat) :
    psiToData { pointerField := pf, sections := a ++ b } fp pid =
      psiToData { pointerField := pf, sections := a } fp pid ++ psiToData { pointerField := pf, sections := b } fp pid := by
  unfold psiToData
  simp only [List.map_append, List.flatten_append]

theorem psiToData_stop (pf : Int) (n : Nat) (fp : Packet) (pid : Nat) :
    psiToData { pointerField := pf, sections := SIRT.stopSections n } fp pid = [] := by
  unfold SIRT.stopSections
  split <;> rfl

theorem unitEncode_pad (ptr : Nat) (secs : List Bytes) (a b : Nat) :
    Spec.unitEncode ptr secs a ++ List.replicate b 0xff = Spec.unitEncode ptr secs (a + b) := by
  unfold Spec.unitEncode
  rw [← List.replicate_append_replicate]
  simp only [List.append_assoc]

theorem si_unit_delivers (pmR : ProgramMap) (u : TSUnit) (hw : UnitWF u) (hpsi : isPSIPayload u.pid pmR = true)
    (hcat : u.pid ≠ 1) (ptr stuff : Nat) (secs : List (Bytes × PSISection)) (S : SIUnit u ptr stuff secs) :
    UnitDelivers pmR u := by
  intro cc
  have hc := concat_packetsOf u cc hw
  rw [S.bytes, unitEncode_pad] at hc
  have hpk := packetsOf_eq_unit u cc hw
  rw [hpk] at hc
  simp only [UnitPk.packets] at hc
  have hpid : (unitPk u cc).first.header.pid = u.pid :=
    packetsOf_pid u cc _ (by rw [hpk]; simp [UnitPk.packets])
  have h1 : (u.pid == 1) = false := by simpa using hcat
  have hv : parsePSIData.val (Spec.unitEncode ptr (secs.map (·.1)) (stuff + padLen u)) =
      .ok { pointerField := (ptr : Int), sections := secs.map (·.2) ++ SIRT.stopSections (stuff + padLen u) } := by
    unfold P.val
    rw [SIRT.parsePSIData_unit ptr (stuff + padLen u) secs S.secAt]
  rw [expectedOf_eq u cc hw]
  unfold parseData
  simp only [hpk, UnitPk.packets, List.headD_cons, hpid, h1, hpsi, hc, hv, Bool.false_eq_true, if_false, if_true]
  rw [psiToData_append, psiToData_stop, List.append_nil, S.data]

/-- **D4 (per PID)**: a DVB SI PID (not PID 0, not a PMT PID of the reference map) whose units are well-formed SI units -/
theorem si_pid_ok (pmR : ProgramMap) (m : StreamModel) (pid : Nat) (hnp : early pid pmR = false)
    (hpsi : isPSIPayload pid pmR = true) (hcat : pid ≠ 1) (hw : ∀ u ∈ m.units, UnitWF u)
    (hS : ∀ u ∈ unitsOn m pid, ∃ ptr stuff secs, SIUnit u ptr stuff secs)
    (hsafe : ∀ u ∈ unitsOn m pid, ∀ y ∈ u.data, y.pat = none) : PidOK pmR m pid := by
  apply whole_unit_pid pmR m pid hnp hw _ hsafe
  intro u hu
  have hpid := unitsOn_pid m pid u hu
  obtain ⟨ptr, stuff, secs, S⟩ := hS u hu
  exact si_unit_delivers pmR u (unitsOn_wf m hw pid u hu) (by rw [hpid]; exact hpsi) (by rw [hpid]; exact hcat) ptr stuff secs S

/-! ## D5 — the whole stream -/

/-- a stream all of whose PIDs deliver what is expected, the first PAT unit standing first -/
structure StreamOK (pmR : ProgramMap) (m : StreamModel) : Prop where
  wf : ∀ u ∈ m.units, UnitWF u
  first : FirstPAT pmR m.packets
  pids : ∀ pid ∈ pidsOf m, PidOK pmR m pid

theorem unitsOn_nil_of_not_mem (m : StreamModel) (pid : Nat) (h : pid ∉ pidsOf m) : unitsOn m pid = [] := by
  unfold unitsOn
  rw [List.filter_eq_nil_iff]
  intro u hu hp
  apply h
  have : u.pid = pid := by simpa using hp
  unfold pidsOf
  rw [List.mem_eraseDups]
  exact List.mem_map.mpr ⟨u, hu, this⟩

theorem pidOK_all (pmR : ProgramMap) (m : StreamModel) (h : StreamOK pmR m) (pid : Nat) : PidOK pmR m pid := by
  by_cases hp : pid ∈ pidsOf m
  · exact h.pids pid hp
  · have e := unitsOn_nil_of_not_mem m pid hp
    refine ⟨?_, ?_, ?_⟩
    · rw [e]; rfl
    · rw [e]; intro g hg; simp [chainPk, groupsFromP, accRun] at hg
    · rw [e]; intro y hy; cases hy


theorem mem_expected (m : StreamModel) (e : Nat × List DemuxerData) :
    e ∈ m.expected ↔ e.1 ∈ pidsOf m ∧ e.2 = chainExp 0 (unitsOn m e.1) := by
  rw [expected_eq, mem_qsort, List.toList_toArray, expectedList_eq]
  constructor
  · intro h
    obtain ⟨pid, hp, rfl⟩ := List.mem_map.mp h
    exact ⟨hp, rfl⟩
  · intro ⟨h1, h2⟩
    exact List.mem_map.mpr ⟨e.1, h1, by rw [← h2]⟩

/-- **D5 — the whole stream.**  For a stream model all of whose PIDs are fine (`StreamOK`): the sequence of `NextData`
calls on `m.bytes` (fresh demuxer, `DemuxerOptPacketSize(188)`) reaches `ErrNoMorePackets` after finitely many calls `n`;
every call before returns a datum (no error, no panic); for every PID the data returned with that PID are, in order,
the expected data of the PID's units; hence the per-PID view of all data returned is `m.expected`: every entry
`(pid, ds)` of `m.expected` is what was returned on `pid`, and nothing is returned on a PID without an entry. -/
theorem stream_delivers (pmR : ProgramMap) (m : StreamModel) (h : StreamOK pmR m) :
    ∃ n, (collect n (demuxOf m.bytes)).2 = true ∧
      (∀ r ∈ (collect n (demuxOf m.bytes)).1, ∃ x, r = .ok x) ∧
      (∀ pid, pidOut pid (collect n (demuxOf m.bytes)).1 = chainExp 0 (unitsOn m pid)) ∧
      (∀ e ∈ m.expected, pidOut e.1 (collect n (demuxOf m.bytes)).1 = e.2) ∧
      (∀ pid, pid ∉ m.expected.map (·.1) → pidOut pid (collect n (demuxOf m.bytes)).1 = []) := by
  obtain ⟨hpt, hlen⟩ := chunks_parse m h.wf
  obtain ⟨n, hn⟩ := nextData_terminates (chunksOf m) m.packets hpt hlen
  have hacc := accepted_packets m h.wf
  have hall := pidOK_all pmR m h
  have hsafe : ∀ pid, ∀ y ∈ pidData pmR pid (m.packets.filter (accepted pid)), PatSafe pmR y := by
    intro pid y hy
    rw [hacc pid, (hall pid).data] at hy
    exact (hall pid).safe y hy
  have hgok : ∀ pid, ∀ g ∈ groupsFromP pmR pid [] (m.packets.filter (accepted pid)),
      ∃ ds, parseData g .none pmR = .ok ds := by
    intro pid g hg
    rw [hacc pid] at hg
    exact (hall pid).groups g hg
  have hdel : ∀ pid, pidOut pid (collect n (demuxOf m.bytes)).1 = chainExp 0 (unitsOn m pid) := by
    intro pid
    rw [bytes_eq, run_delivers pmR (chunksOf m) m.packets hpt hlen h.first hsafe n hn pid, hacc pid, (hall pid).data]
  refine ⟨n, hn, ?_, hdel, ?_, ?_⟩
  · rw [bytes_eq]
    exact run_fine pmR (chunksOf m) m.packets hpt hlen h.first hsafe hgok n
  · intro e he
    rw [hdel e.1, ((mem_expected m e).mp he).2]
  · intro pid hp
    rw [hdel pid]
    have : pid ∉ pidsOf m := by
      intro hm
      apply hp
      exact List.mem_map.mpr ⟨(pid, chainExp 0 (unitsOn m pid)), (mem_expected m _).mpr ⟨hm, rfl⟩, rfl⟩
    rw [unitsOn_nil_of_not_mem m pid this]; rfl


/-! ## the classification of the units of a well-formed stream -/

/-- what a unit must be, depending on the kind of its PID under the reference map `pmR`: a PAT/PMT unit on PID 0 and on
the PMT PIDs (its PATs listing only PMT PIDs of `pmR`); a DVB SI unit (delivering no PAT) on the other PIDs parsed as
PSI; a PES unit on an elementary-stream PID -/
def UnitKind (pmR : ProgramMap) (u : TSUnit) : Prop :=
  (early u.pid pmR = true ∧ u.pid ≠ 1 ∧ TableUnitE u ∧ ∀ y ∈ u.data, PatSafe pmR y) ∨
  (early u.pid pmR = false ∧ isPSIPayload u.pid pmR = true ∧ u.pid ≠ 1 ∧
    (∃ ptr stuff secs, SIUnit u ptr stuff secs) ∧ ∀ y ∈ u.data, y.pat = none) ∨
  (ESPid u.pid pmR ∧ PESUnit u)

theorem psi_of_early {pid : Nat} {pm : ProgramMap} (h : early pid pm = true) : isPSIPayload pid pm = true := by
  unfold early at h
  unfold isPSIPayload
  rw [h]; rfl

/-- **a well-formed stream**: every unit is well-formed and of the kind its PID requires under the reference map defined
by the first PAT unit `u0` (the first unit of PID 0, which announces at least one table), and the schedule starts with
the packets of `u0` -/
structure StreamWF (m : StreamModel) (u0 : TSUnit) (r : List TSUnit) (sh : List Nat) : Prop where
  wf : ∀ u ∈ m.units, UnitWF u
  pat0 : unitsOn m 0 = u0 :: r
  sched : m.schedule = List.replicate u0.chunks.length 0 ++ sh
  pat0data : u0.data ≠ []
  kinds : ∀ u ∈ m.units, UnitKind (pmLearn u0.data []) u

theorem streamOK_of_wf (m : StreamModel) (u0 : TSUnit) (r : List TSUnit) (sh : List Nat) (h : StreamWF m u0 r sh) :
    StreamOK (pmLearn u0.data []) m := by
  have hu0 : u0 ∈ m.units := by
    have : u0 ∈ unitsOn m 0 := by rw [h.pat0]; simp
    exact (List.mem_filter.mp this).1
  have hp0 : u0.pid = 0 := unitsOn_pid m 0 u0 (by rw [h.pat0]; simp)
  have hT0 : TableUnitE u0 := by
    rcases h.kinds u0 hu0 with ⟨_, _, hT, _⟩ | ⟨he, _⟩ | ⟨he, _⟩
    · exact hT
    · rw [hp0] at he; cases he
    · have := he.notEarly; rw [hp0] at this; cases this
  refine ⟨h.wf, firstPAT_of m h.wf u0 r h.pat0 hT0 h.pat0data sh h.sched, ?_⟩
  intro pid hpid
  have hkinds := h.kinds
  generalize pmLearn u0.data [] = pmR at hkinds ⊢
  have hk : ∀ u ∈ unitsOn m pid, UnitKind pmR u := fun u hu => hkinds u (List.mem_filter.mp hu).1
  have hpu := unitsOn_pid m pid
  by_cases he : early pid pmR = true
  · apply table_pid_ok pmR m pid he
    · -- the PID is not 1
      unfold pidsOf at hpid
      rw [List.mem_eraseDups] at hpid
      obtain ⟨u, hu, rfl⟩ := List.mem_map.mp hpid
      rcases hkinds u hu with ⟨_, h1, _⟩ | ⟨he', _⟩ | ⟨he', _⟩
      · exact h1
      · rw [he] at he'; cases he'
      · exact he'.1
    · exact h.wf
    · intro u hu
      rcases hk u hu with ⟨_, _, hT, _⟩ | ⟨he', _⟩ | ⟨he', _⟩
      · exact hT
      · rw [hpu u hu, he] at he'; cases he'
      · have := he'.notEarly; rw [hpu u hu] at this; unfold early at he; rw [he] at this; cases this
    · intro u hu
      rcases hk u hu with ⟨_, _, _, hs⟩ | ⟨he', _⟩ | ⟨he', _⟩
      · exact hs
      · rw [hpu u hu, he] at he'; cases he'
      · have := he'.notEarly; rw [hpu u hu] at this; unfold early at he; rw [he] at this; cases this
  · have he' : early pid pmR = false := by simpa using he
    by_cases hpsi : isPSIPayload pid pmR = true
    · have hcat : pid ≠ 1 := by
        unfold pidsOf at hpid
        rw [List.mem_eraseDups] at hpid
        obtain ⟨u, hu, rfl⟩ := List.mem_map.mp hpid
        rcases hkinds u hu with ⟨_, h1, _⟩ | ⟨_, _, h1, _⟩ | ⟨h1, _⟩
        · exact h1
        · exact h1
        · exact h1.1
      apply si_pid_ok pmR m pid he' hpsi hcat h.wf
      · intro u hu
        rcases hk u hu with ⟨h1, _⟩ | ⟨_, _, _, hS, _⟩ | ⟨h1, _⟩
        · rw [hpu u hu, he'] at h1; cases h1
        · exact hS
        · have := h1.2; rw [hpu u hu, hpsi] at this; cases this
      · intro u hu
        rcases hk u hu with ⟨h1, _⟩ | ⟨_, _, _, _, hs⟩ | ⟨h1, _⟩
        · rw [hpu u hu, he'] at h1; cases h1
        · exact hs
        · have := h1.2; rw [hpu u hu, hpsi] at this; cases this
    · have hpsi' : isPSIPayload pid pmR = false := by simpa using hpsi
      have hes : ESPid pid pmR := by
        unfold pidsOf at hpid
        rw [List.mem_eraseDups] at hpid
        obtain ⟨u, hu, rfl⟩ := List.mem_map.mp hpid
        rcases hkinds u hu with ⟨h1, _⟩ | ⟨_, h1, _⟩ | ⟨h1, _⟩
        · rw [psi_of_early h1] at hpsi'; cases hpsi'
        · rw [h1] at hpsi'; cases hpsi'
        · exact h1
      apply pes_pid_ok pmR m pid hes h.wf
      intro u hu
      rcases hk u hu with ⟨h1, _⟩ | ⟨_, h1, _⟩ | ⟨_, h1⟩
      · rw [hpu u hu] at h1
        rw [psi_of_early h1] at hpsi'; cases hpsi'
      · rw [hpu u hu, hpsi'] at h1; cases h1
      · exact h1


/-- **the whole stream, from the unit-level hypotheses** -/
theorem refmux_delivers (m : StreamModel) (u0 : TSUnit) (r : List TSUnit) (sh : List Nat) (h : StreamWF m u0 r sh) :
    ∃ n, (collect n (demuxOf m.bytes)).2 = true ∧
      (∀ r ∈ (collect n (demuxOf m.bytes)).1, ∃ x, r = .ok x) ∧
      (∀ pid, pidOut pid (collect n (demuxOf m.bytes)).1 = chainExp 0 (unitsOn m pid)) ∧
      (∀ e ∈ m.expected, pidOut e.1 (collect n (demuxOf m.bytes)).1 = e.2) ∧
      (∀ pid, pid ∉ m.expected.map (·.1) → pidOut pid (collect n (demuxOf m.bytes)).1 = []) :=
  stream_delivers _ m (streamOK_of_wf m u0 r sh h)

/-- **one PID, the others abstract**: the first PAT unit stands first and fixes the reference map (`FirstPAT`); nothing
deliverable on any PID carries a PAT listing a PID outside the reference map (`hsafe`); then a PID that is fine
(`PidOK`: `pes_pid_ok`, `table_pid_ok`, `si_pid_ok`) delivers the expected data of its units, in order -/
theorem pid_delivered (pmR : ProgramMap) (m : StreamModel) (hw : ∀ u ∈ m.units, UnitWF u) (hfirst : FirstPAT pmR m.packets)
    (hsafe : ∀ pid, ∀ y ∈ pidData pmR pid (chainPk 0 (unitsOn m pid)), PatSafe pmR y)
    (pid : Nat) (hok : PidOK pmR m pid) (n : Nat) (hend : (collect n (demuxOf m.bytes)).2 = true) :
    pidOut pid (collect n (demuxOf m.bytes)).1 = chainExp 0 (unitsOn m pid) := by
  obtain ⟨hpt, hlen⟩ := chunks_parse m hw
  have hacc := accepted_packets m hw
  rw [bytes_eq, run_delivers pmR (chunksOf m) m.packets hpt hlen hfirst (fun k y hy => hsafe k y (by rw [← hacc k]; exact hy))
    n hend pid, hacc pid, hok.data]

/-! ## the units the reference encoders produce -/

/-- a PES unit carrying the reference encoding (no header stuffing) of a header the PES round trip covers, with the
PES_packet_length the standard prescribes -/
theorem pesUnit_of_encode (u : TSUnit) (h : PESHeader) (data : Bytes) (ok : PESRT.PESHeaderOk h)
    (hl : h.packetLength = pesPacketLengthFor h data.length) (hb : u.payload = Spec.pesEncode h 0 data)
    (hd : u.data = [{ pes := some { data := data, header := h } }]) (hpsi : u.psi = false) : PESUnit u := by
  refine ⟨?_, ⟨{ data := data, header := h }, ?_, hd⟩, hpsi⟩
  · rw [hb, ← C12.pes_written_eq_spec_ok h data ok hl]
    exact isPESPayload_written h data.length data
  · rw [hb]; exact C12.parse_pesEncode h data ok hl


theorem secBytes_eq_spec (s : PSISection) (h : SpecEq.SecAgree s) : PSIComplete.secBytes s = Spec.sectionEncode s := by
  unfold PSIComplete.secBytes
  rw [SpecEq.writePSISection_eq_spec s h]

/-- a PAT/PMT unit carrying the reference encoding `unitEncode pf (sections ↦ sectionEncode) stuff` of sections on which
reference and writer agree (`SpecEq.SecAgree`: C13 W3) and that round-trip (C13), cut at conformant points, is a
`TableUnit` -/
theorem tableUnit_of_reference (u : TSUnit) (pf : Nat) (hpf : pf < 256) (ss ss' : List PSISection)
    (hrt : PSIRT.SectionsRT ss ss') (hag : ∀ s ∈ ss, SpecEq.SecAgree s) (hne : ss ≠ []) (stuff : Nat)
    (hb : u.payload = Spec.unitEncode pf (ss.map Spec.sectionEncode) stuff)
    (hcut : ∀ i, 0 < i → i < u.chunks.length → ∀ j, 0 < j → j < ss.length →
      (u.chunks.take i).sum ≠ 1 + pf + ((ss.map Spec.sectionEncode).take j).flatten.length)
    (htail : stuff + padLen u ≤ 256)
    (hdata : ∀ fp, psiToData { pointerField := (pf : Int), sections := ss' } fp u.pid =
      u.data.map fun d => { d with firstPacket := some fp, pid := u.pid }) :
    TableUnit u pf ss ss' (List.replicate stuff 0xff) := by
  have hmap : ss.map PSIComplete.secBytes = ss.map Spec.sectionEncode :=
    List.map_congr_left (fun s hs => secBytes_eq_spec s (hag s hs))
  refine ⟨⟨hpf, hrt, hne, fun b hb' => (List.mem_replicate.mp hb').2, ?_⟩, ?_, by simpa using htail, hdata⟩
  · refine ⟨_, SpecEq.writePSIData_eq_spec pf hpf ss hag, ?_⟩
    rw [hb, unitEncode_pad, Nat.zero_add]
  · intro i hi hil j hj hjl
    rw [hmap]
    exact hcut i hi hil j hj hjl

end Astits.RefMux
