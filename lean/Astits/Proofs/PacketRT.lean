/-
C11 helper — whole-structure round trip, part 1: a small "parses exactly these bytes" calculus for the parser monad `P`,
bit-layout lemmas for the adaptation-field-extension parts, and the extension round trip.
-/
import Astits.Proofs.Layout
namespace Astits.PacketRT
open Astits

def ParsesAt {α} (pre : Bytes) (p : P α) (xs : Bytes) (a : α) : Prop :=
  ∀ post : Bytes, p ⟨pre ++ (xs ++ post), (pre.length : Int)⟩
     = .ok (a, ⟨pre ++ (xs ++ post), (pre.length : Int) + (xs.length : Int)⟩)

theorem ParsesAt.pure {α} (pre : Bytes) (a : α) : ParsesAt pre (pure a : P α) [] a := by
  intro post
  simp [P.pure_run]

theorem ParsesAt.bind {α β} {pre xs ys : Bytes} {p : P α} {f : α → P β} {a : α} {b : β}
    (h1 : ParsesAt pre p xs a) (h2 : ParsesAt (pre ++ xs) (f a) ys b) :
    ParsesAt pre (p >>= f) (xs ++ ys) b := by
  intro post
  rw [P.bind_run]
  have e1 := h1 (ys ++ post)
  have e2 := h2 post
  simp only [List.append_assoc, List.length_append, Int.natCast_add] at e1 e2 ⊢
  rw [e1]
  simp only
  rw [e2, Int.add_assoc]

theorem nextByte_at (pre : Bytes) (x : Nat) : ParsesAt pre It.nextByte [x] x := by
  intro post
  unfold It.nextByte
  have h1 : ¬ (((pre ++ ([x] ++ post)).length : Int) < (pre.length : Int) + 1) := by
    simp only [List.length_append, List.length_cons, List.length_nil, Int.natCast_add]; omega
  have h2 : ¬ ((pre.length : Int) < 0) := by omega
  simp only [h1, h2, if_false]
  simp

theorem nextBytes_at (pre xs : Bytes) (n : Int) (hn : n = xs.length) : ParsesAt pre (It.nextBytes n) xs xs := by
  intro post
  subst hn
  unfold It.nextBytes
  have h1 : ¬ (((pre ++ (xs ++ post)).length : Int) < (pre.length : Int) + (xs.length : Int)) := by
    simp only [List.length_append, Int.natCast_add]; omega
  have h2 : ¬ ((xs.length : Int) < 0 ∨ (pre.length : Int) < 0) := by omega
  simp only [h1, h2, if_false]
  simp

theorem offset_at (pre : Bytes) : ParsesAt pre It.offset [] (pre.length : Int) := by
  intro post
  simp [It.offset]

theorem opt_at {α} (pre : Bytes) (c : Bool) (p : P α) (d : α) (xs : Bytes) (v : α)
    (h : c = true → ParsesAt pre p xs v) :
    ParsesAt pre (if c = true then p else pure d) (if c = true then xs else []) (if c = true then v else d) := by
  cases c
  · simp only [Bool.false_eq_true, if_false]; exact ParsesAt.pure _ _
  · simp only [if_true]; exact h rfl

def extFlagByte (e : PacketAdaptationExtensionField) : Nat :=
  ((b2n e.hasLegalTimeWindow * 2 + b2n e.hasPiecewiseRate) * 2 + b2n e.hasSeamlessSplice) * 32 + 31

theorem extFlag_bytes (e : PacketAdaptationExtensionField) :
    packFields [(b2n e.hasLegalTimeWindow, 1), (b2n e.hasPiecewiseRate, 1), (b2n e.hasSeamlessSplice, 1), (0x1f, 5)]
      = [extFlagByte e] := by
  simp only [packFields, fieldsWidth, fieldsValue, beBytes, extFlagByte, Nat.reducePow]
  have h1 := b2n_le e.hasLegalTimeWindow
  have h2 := b2n_le e.hasPiecewiseRate
  have h3 := b2n_le e.hasSeamlessSplice
  congr 1; omega

theorem b2n_eq_one (b : Bool) : (b2n b = 1) = (b = true) := by cases b <;> simp [b2n]

theorem extFlag_decode (e : PacketAdaptationExtensionField) :
    (extFlagByte e / 128 % 2 = 1) = (e.hasLegalTimeWindow = true) ∧
    (extFlagByte e / 64 % 2 = 1) = (e.hasPiecewiseRate = true) ∧
    (extFlagByte e / 32 % 2 = 1) = (e.hasSeamlessSplice = true) := by
  have h1 := b2n_le e.hasLegalTimeWindow
  have h2 := b2n_le e.hasPiecewiseRate
  have h3 := b2n_le e.hasSeamlessSplice
  rw [← b2n_eq_one, ← b2n_eq_one, ← b2n_eq_one]
  unfold extFlagByte
  refine ⟨?_, ?_, ?_⟩ <;> (apply congrArg (· = 1); omega)

/-- legal time window: 1 valid bit + 15-bit offset -/
def ltwVal (v : Bool) (off : Nat) : Nat := b2n v * 32768 + off % 32768

theorem ltw_bytes (v : Bool) (off : Nat) :
    packFields [(b2n v, 1), (off, 15)] = [ltwVal v off / 256 % 256, ltwVal v off % 256] := by
  simp only [packFields, fieldsWidth, fieldsValue, beBytes, Nat.reducePow, Nat.reduceAdd, Nat.reduceDiv, ltwVal]
  have := b2n_le v
  simp only [List.cons.injEq, and_true]
  refine ⟨?_, ?_⟩ <;> omega

theorem ltw_decode (v : Bool) (off : Nat) (h : off < 32768) :
    decide (ltwVal v off / 256 % 256 / 128 % 2 = 1) = v ∧
      ltwVal v off / 256 % 256 % 128 * 256 + ltwVal v off % 256 = off := by
  have h1 : ltwVal v off / 256 % 256 / 128 % 2 = b2n v := by
    have := b2n_le v
    unfold ltwVal; omega
  rw [h1]
  refine ⟨decide_b2n v, ?_⟩
  have := b2n_le v
  unfold ltwVal; omega

def prVal (pr : Nat) : Nat := 3 * 4194304 + pr % 4194304

theorem pr_bytes (pr : Nat) :
    packFields [(3, 2), (pr, 22)] = [prVal pr / 65536 % 256, prVal pr / 256 % 256, prVal pr % 256] := by
  simp only [packFields, fieldsWidth, fieldsValue, beBytes, Nat.reducePow, Nat.reduceAdd, Nat.reduceDiv, prVal]
  simp only [List.cons.injEq, and_true]
  refine ⟨?_, ?_, ?_⟩ <;> first | trivial | omega

theorem pr_decode (pr : Nat) (h : pr < 4194304) :
    prVal pr / 65536 % 256 % 64 * 65536 + prVal pr / 256 % 256 * 256 + prVal pr % 256 = pr := by
  unfold prVal; omega


/-- seamless splice: the first byte is peeked (splice type in its high nibble), then the five bytes are read as a DTS -/
theorem ss_at (pre : Bytes) (b0 : Nat) (r : Bytes) (hr : r.length = 4) :
    ParsesAt pre (do let b ← It.nextByte; It.skip (-1); let d ← parsePTSOrDTS; pure (b / 16 % 16, some d) : P (Nat × Option ClockReference))
      (b0 :: r) (b0 / 16 % 16, some (ptsOfBytes (b0 :: r))) := by
  intro post
  have e1 := nextByte_at pre b0 (r ++ post)
  have e2 := nextBytes_at pre (b0 :: r) 5 (by simp [hr]) post
  simp only [List.cons_append, List.nil_append, List.length_cons, List.length_nil] at e1 e2 ⊢
  simp only [P.bind_run, e1, It.skip, parsePTSOrDTS]
  have e3 : (pre.length : Int) + ((0 + 1 : Nat) : Int) + -1 = pre.length := by omega
  rw [e3, e2]
  rfl

theorem ptsBytes_base (flag : Nat) (c : ClockReference) (n : Nat) (h : c.base = n) :
    ptsBytes flag c = beBytes 5 (ptsValue flag n) := by
  rw [← ptsBytes_eq]
  unfold ptsBytes
  rw [h]

theorem ptsValue_first (flag n : Nat) (hf : flag < 16) : ptsValue flag n / 4294967296 % 256 / 16 % 16 = flag := by
  simp only [ptsValue, fieldsValue, Nat.reducePow]
  omega

/-- a DTS_next_AU the writer encodes without truncation: 33 bits -/
def DtsOK : Option ClockReference → Prop
  | some d => 0 ≤ d.base ∧ d.base < 8589934592
  | none => False

instance : (c : Option ClockReference) → Decidable (DtsOK c)
  | some d => inferInstanceAs (Decidable (0 ≤ d.base ∧ d.base < 8589934592))
  | none => inferInstanceAs (Decidable False)

/-- well-formed adaptation extension field: the values of the parts that are present fit their bit widths -/
structure ExtWF (e : PacketAdaptationExtensionField) : Prop where
  ltw : e.hasLegalTimeWindow = true → e.legalTimeWindowOffset < 32768
  pr : e.hasPiecewiseRate = true → e.piecewiseRate < 4194304
  ss : e.hasSeamlessSplice = true → e.spliceType < 16 ∧ DtsOK e.dtsNextAccessUnit

/-- what the parser returns for the bytes written for `e`: absent parts take Go's zero values, `length` is recomputed,
the DTS carries no extension -/
def normExt (e : PacketAdaptationExtensionField) : PacketAdaptationExtensionField :=
  { dtsNextAccessUnit := if e.hasSeamlessSplice = true then e.dtsNextAccessUnit.map (fun d => { d with extension := 0 }) else none
    hasLegalTimeWindow := e.hasLegalTimeWindow
    hasPiecewiseRate := e.hasPiecewiseRate
    hasSeamlessSplice := e.hasSeamlessSplice
    legalTimeWindowIsValid := if e.hasLegalTimeWindow = true then e.legalTimeWindowIsValid else false
    legalTimeWindowOffset := if e.hasLegalTimeWindow = true then e.legalTimeWindowOffset else 0
    length := (afExtSize e : Int)
    piecewiseRate := if e.hasPiecewiseRate = true then e.piecewiseRate else 0
    spliceType := if e.hasSeamlessSplice = true then e.spliceType else 0 }

theorem ParsesAt.bind_last {α β} {pre xs : Bytes} {p : P α} {f : α → P β} {a : α} {b : β}
    (h1 : ParsesAt pre p xs a) (h2 : ParsesAt (pre ++ xs) (f a) [] b) :
    ParsesAt pre (p >>= f) xs b := by
  have := ParsesAt.bind h1 h2
  simpa using this

theorem ParsesAt.congr_val {α} {pre xs : Bytes} {p : P α} {a a' : α} (h : ParsesAt pre p xs a) (e : a = a') :
    ParsesAt pre p xs a' := e ▸ h

theorem ss_at' (pre xs : Bytes) (hx : xs.length = 5) :
    ParsesAt pre (do let b ← It.nextByte; It.skip (-1); let d ← parsePTSOrDTS; pure (b / 16 % 16, some d) : P (Nat × Option ClockReference))
      xs (xs.getD 0 0 / 16 % 16, some (ptsOfBytes xs)) := by
  cases xs with
  | nil => simp at hx
  | cons b0 r => exact ss_at pre b0 r (by simpa using hx)

theorem afExtSize_bounds (e : PacketAdaptationExtensionField) : 1 ≤ afExtSize e ∧ afExtSize e ≤ 11 := by
  unfold afExtSize ptsOrDTSByteLength
  constructor <;> (split <;> split <;> split <;> omega)

theorem afext_at (pre : Bytes) (e : PacketAdaptationExtensionField) (h : ExtWF e) :
    ParsesAt pre parseAFExtension (afExtBytes e) (normExt e) := by
  have hsz := afExtSize_bounds e
  have hlen : calcAFExtLength e = afExtSize e := by unfold calcAFExtLength; omega
  unfold parseAFExtension afExtBytes
  rw [extFlag_bytes, hlen]
  simp only [List.append_assoc]
  refine ParsesAt.bind (nextByte_at _ _) ?_
  rw [if_pos (by omega)]
  refine ParsesAt.bind (nextByte_at _ _) ?_
  obtain ⟨d1, d2, d3⟩ := extFlag_decode e
  simp only [d1, d2, d3]
  refine ParsesAt.bind (opt_at _ _ _ _ _ (e.legalTimeWindowIsValid, e.legalTimeWindowOffset) ?_) ?_
  · intro hc
    rw [ltw_bytes]
    obtain ⟨k1, k2⟩ := ltw_decode e.legalTimeWindowIsValid e.legalTimeWindowOffset (h.ltw hc)
    refine ParsesAt.congr_val (ParsesAt.bind_last (nextBytes_at _ _ 2 rfl) (ParsesAt.pure _ _)) ?_
    simp only [List.getD_cons_zero, List.getD_cons_succ, k1, k2]
  refine ParsesAt.bind (opt_at _ _ _ _ _ e.piecewiseRate ?_) ?_
  · intro hc
    rw [pr_bytes]
    have k := pr_decode e.piecewiseRate (h.pr hc)
    refine ParsesAt.congr_val (ParsesAt.bind_last (nextBytes_at _ _ 3 rfl) (ParsesAt.pure _ _)) ?_
    simp only [List.getD_cons_zero, List.getD_cons_succ, k]
  refine ParsesAt.bind_last (opt_at _ _ _ _ _ (e.spliceType, e.dtsNextAccessUnit.map (fun d => { d with extension := 0 })) ?_) ?_
  · intro hc
    obtain ⟨hst, hd⟩ := h.ss hc
    cases hdts : e.dtsNextAccessUnit with
    | none => rw [hdts] at hd; exact hd.elim
    | some d =>
      rw [hdts] at hd
      obtain ⟨hd0, hd1⟩ := hd
      have hb : d.base = (d.base.toNat : Int) := (Int.toNat_of_nonneg hd0).symm
      have hn : d.base.toNat < 8589934592 := by omega
      simp only [Option.getD_some, Option.map_some]
      rw [ptsBytes_base _ _ _ hb]
      refine ParsesAt.congr_val (ss_at' _ _ (beBytes_length _ _)) ?_
      have r1 := pts_roundtrip e.spliceType d.base.toNat hn
      rw [ptsBytes_eq] at r1
      rw [r1]
      have r2 : (beBytes 5 (ptsValue e.spliceType d.base.toNat)).getD 0 0 = ptsValue e.spliceType d.base.toNat / 4294967296 % 256 := by
        rw [beBytes5]; rfl
      rw [r2, ptsValue_first _ _ hst, ← hb]
  refine ParsesAt.congr_val (ParsesAt.pure _ _) ?_
  unfold normExt
  cases e.hasLegalTimeWindow <;> cases e.hasPiecewiseRate <;> cases e.hasSeamlessSplice <;> simp

end Astits.PacketRT
