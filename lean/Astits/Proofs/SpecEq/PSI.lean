/-
SpecEq W3 — the model's PAT / PMT section writer and `writePSIData` emit exactly the reference encoding
`Spec.sectionEncode` / `Spec.unitEncode` (ISO/IEC 13818-1 tables 2-30, 2-33 and the generic section syntax transcribed
with `Spec.enc`, CRC_32 from the bit-serial register `Spec.crc`).
-/
import Astits.Proofs.SpecEq.Enc
import Astits.Spec.PSI
import Astits.Props.C14
namespace Astits.SpecEq
open Astits Astits.SIRT

/-! ### fixed-layout parts -/

theorem syntaxHeader_eq (h : PSISectionSyntaxHeader) : Spec.syntaxHeader h = syntaxHeaderBytes h := by
  unfold Spec.syntaxHeader syntaxHeaderBytes
  rw [enc_pack _ (by wd)]; rfl

theorem syntaxHeader_length (h : PSISectionSyntaxHeader) : (syntaxHeaderBytes h).length = 5 := by
  simp [syntaxHeaderBytes, packFields, fieldsWidth, beBytes]

theorem patBody_eq (d : PATData) : Spec.patBody d = patSectionBytes d := by
  unfold Spec.patBody patSectionBytes
  congr 1
  apply List.map_congr_left
  intro p _
  rw [enc_pack _ (by wd)]; rfl

theorem patBody_length (d : PATData) : (patSectionBytes d).length = 4 * d.programs.length := by
  unfold patSectionBytes
  induction d.programs with
  | nil => rfl
  | cons p r ih =>
    simp only [List.map_cons, List.flatten_cons, List.length_append, ih, List.length_cons]
    have : (packFields [(p.programNumber, 16), (7, 3), (p.programMapID, 13)]).length = 4 := by
      simp [packFields, fieldsWidth, beBytes]
    omega

/-- CRC_32 field -/
theorem be32_eq (c : BitVec 32) : Spec.be32' c.toNat = be32 c := by
  unfold Spec.be32' be32
  rw [enc_pack _ (by wd)]
  have := c.isLt
  simp only [swapFields, List.map_cons, List.map_nil, packFields, fieldsWidth, fieldsValue]
  congr 1
  simp only [Nat.zero_mul, Nat.zero_add]
  exact Nat.mod_eq_of_lt this

/-! ### descriptor loops -/

/-- every descriptor is written on the number of bytes the length calculator announces (C14 `length_matches`: true
whenever the body fits 255 bytes; this is also the `len` half of `PSIRT.DescOk`) -/
def DescsFit (ds : List Descriptor) : Prop := ∀ d ∈ ds, (writeDescriptor d).length = 2 + calcDescriptorLength d

theorem descsFit_of_bodyFits (ds : List Descriptor) (h : ∀ d ∈ ds, C14.BodyFits d) : DescsFit ds :=
  fun d hd => (C14.length_matches d (h d hd)).1

theorem loop_bytes (ds : List Descriptor) (h : DescsFit ds) : (writeDescriptors ds).length = descriptorsSize ds := by
  induction ds with
  | nil => rfl
  | cons d r ih =>
    have hd := h d (by simp)
    have hr := ih (fun x hx => h x (by simp [hx]))
    simp only [writeDescriptors, List.length_append, descriptorsSize, hd, hr]

/-- `packFields` sees a 4-bit and a 12-bit value modulo their widths -/
theorem loopHead_congr (a b x y : Nat) (ha : a % 16 = b % 16) (hx : x % 4096 = y % 4096) :
    packFields [(a, 4), (x, 12)] = packFields [(b, 4), (y, 12)] := by
  simp only [packFields, fieldsWidth, fieldsValue, Nat.reducePow, ha, hx]

theorem descLoop_eq (ds : List Descriptor) (h : DescsFit ds) : Spec.descLoop ds = writeDescriptorsWithLength ds := by
  unfold Spec.descLoop writeDescriptorsWithLength
  simp only []
  rw [enc_pack _ (by wd)]
  congr 1
  have hb := loop_bytes ds h
  show packFields [(15, 4), ((writeDescriptors ds).length, 12)] = _
  apply loopHead_congr
  · rfl
  · rw [hb]; unfold calcDescriptorsLength; omega

theorem descLoop_length (ds : List Descriptor) (h : DescsFit ds) :
    (writeDescriptorsWithLength ds).length = 2 + descriptorsSize ds := by
  unfold writeDescriptorsWithLength
  rw [List.length_append, loop_bytes ds h]
  simp [packFields, fieldsWidth, beBytes]

/-! ### PMT -/

structure PMTFits (d : PMTData) : Prop where
  prog : DescsFit d.programDescriptors
  streams : ∀ es ∈ d.elementaryStreams, DescsFit es.elementaryStreamDescriptors

theorem pmtBody_eq (d : PMTData) (h : PMTFits d) : Spec.pmtBody d = pmtSectionBytes d := by
  unfold Spec.pmtBody pmtSectionBytes
  rw [descLoop_eq _ h.prog]
  have e0 : Spec.enc [(3, 7), (13, d.pcrPID)] = packFields [(7, 3), (d.pcrPID, 13)] := by
    rw [enc_pack _ (by wd)]; rfl
  rw [e0]
  congr 2
  apply List.map_congr_left
  intro es hes
  rw [descLoop_eq _ (h.streams es hes), enc_pack _ (by wd)]; rfl

def pmtSize (d : PMTData) : Nat :=
  4 + descriptorsSize d.programDescriptors
    + (d.elementaryStreams.map fun es => 5 + descriptorsSize es.elementaryStreamDescriptors).sum

theorem pmtBody_length (d : PMTData) (h : PMTFits d) : (pmtSectionBytes d).length = pmtSize d := by
  unfold pmtSectionBytes pmtSize
  rw [List.length_append, List.length_append, descLoop_length _ h.prog]
  have h0 : (packFields [(7, 3), (d.pcrPID, 13)]).length = 2 := by simp [packFields, fieldsWidth, beBytes]
  have hs := h.streams
  have : ∀ l : List PMTElementaryStream, (∀ es ∈ l, DescsFit es.elementaryStreamDescriptors) →
      ((l.map fun es => packFields [(es.streamType, 8), (7, 3), (es.elementaryPID, 13)]
        ++ writeDescriptorsWithLength es.elementaryStreamDescriptors).flatten).length
      = (l.map fun es => 5 + descriptorsSize es.elementaryStreamDescriptors).sum := by
    intro l
    induction l with
    | nil => intro _; rfl
    | cons es r ih =>
      intro hl
      simp only [List.map_cons, List.flatten_cons, List.length_append, List.sum_cons]
      rw [ih (fun x hx => hl x (by simp [hx])), descLoop_length _ (hl es (by simp))]
      have : (packFields [(es.streamType, 8), (7, 3), (es.elementaryPID, 13)]).length = 3 := by
        simp [packFields, fieldsWidth, beBytes]
      omega
  rw [this _ hs, h0]
  omega

theorem sum_mod_congr {α} (f g : α → Nat) (l : List α) (m : Nat) (h : ∀ a ∈ l, f a % m = g a % m) :
    (l.map f).sum % m = (l.map g).sum % m := by
  induction l with
  | nil => rfl
  | cons a r ih =>
    simp only [List.map_cons, List.sum_cons]
    have h1 := h a (by simp)
    have h2 := ih (fun x hx => h x (by simp [hx]))
    rw [Nat.add_mod, h1, h2, ← Nat.add_mod]

/-- the `uint16` arithmetic of `calcPMTSectionLength` agrees with the true size modulo 4096 (so: in the 12-bit field) -/
theorem calcPMT_mod (d : PMTData) : calcPMTSectionLength d % 4096 = pmtSize d % 4096 := by
  unfold calcPMTSectionLength pmtSize calcDescriptorsLength
  have hs := sum_mod_congr (fun es : PMTElementaryStream => 5 + descriptorsSize es.elementaryStreamDescriptors % 65536)
    (fun es => 5 + descriptorsSize es.elementaryStreamDescriptors) d.elementaryStreams 4096 (by intro a _; omega)
  omega

/-! ### the section head and the whole section -/

theorem secHead_congr (a b c x y : Nat) (hx : x % 4096 = y % 4096) :
    packFields [(a, 8), (b, 1), (c, 1), (3, 2), (x, 12)] = packFields [(a, 8), (b, 1), (c, 1), (3, 2), (y, 12)] := by
  simp only [packFields, fieldsWidth, fieldsValue, Nat.reducePow, hx]

/-- the sections `writePSISection` accepts and on which it agrees with the reference encoder: a PAT or PMT with all
sub-structures present (else Go dereferences nil), a positive `SectionLength` field (delivered form; with 0 the writer
stops after the 3 header bytes), and — PMT — descriptor bodies of the announced length -/
structure SecAgree (s : PSISection) : Prop where
  ex : ∃ h syn d sh, s.header = some h ∧ s.syn = some syn ∧ syn.data = some d ∧ syn.header = some sh ∧
    h.sectionLength > 0 ∧
    ((h.tableID = 0 ∧ d.pat.isSome = true) ∨ (h.tableID = 2 ∧ ∃ m, d.pmt = some m ∧ PMTFits m))

theorem mkSec_eq (t : Nat) (ssi priv : Bool) (body : Bytes) (cl : Nat) (hc : cl % 4096 = (body.length + 4) % 4096) :
    Spec.mkSec t ssi priv body true =
      (packFields [(t, 8), (b2n ssi, 1), (b2n priv, 1), (3, 2), (cl, 12)] ++ body)
      ++ be32 (computeCRC32 (packFields [(t, 8), (b2n ssi, 1), (b2n priv, 1), (3, 2), (cl, 12)] ++ body)) := by
  unfold Spec.mkSec
  simp only [if_true]
  rw [enc_pack _ (by wd)]
  have : packFields (swapFields [(8, t), Spec.bit ssi, Spec.bit priv, (2, 3), (12, body.length + 4)])
      = packFields [(t, 8), (b2n ssi, 1), (b2n priv, 1), (3, 2), (cl, 12)] := by
    show packFields [(t, 8), (b2n ssi, 1), (b2n priv, 1), (3, 2), (body.length + 4, 12)] = _
    exact secHead_congr _ _ _ _ _ hc.symm
  rw [this, ← crc_eq_spec_all, be32_eq]

/-- **one section** -/
theorem writePSISection_eq_spec (s : PSISection) (h : SecAgree s) : writePSISection s = .ok (Spec.sectionEncode s) := by
  obtain ⟨hd, syn, d, sh, e1, e2, e3, e4, hsl, ht⟩ := h.ex
  unfold writePSISection Spec.sectionEncode
  simp only [e1, e2, e3, e4, Option.getD_some]
  rcases ht with ⟨ht, hp⟩ | ⟨ht, m, hm, hfit⟩
  · have hp' : d.pat.isNone = false := by cases hx : d.pat <;> simp_all
    simp only [ht, hp', hsl]
    simp only [ne_eq, not_true_eq_false, reduceCtorEq, not_false_eq_true, and_true, ↓reduceIte,
      Bool.false_eq_true, and_false, Option.isNone_iff_eq_none, false_and, or_self, List.append_assoc, Res.ok.injEq]
    have hc : calcPSISectionLength 0 d % 4096 = ((syntaxHeaderBytes sh ++ patSectionBytes (d.pat.getD {})).length + 4) % 4096 := by
      have h1 : hasPSISyntaxHeader 0 = true := by decide
      have h2 : hasCRC32 0 = true := by decide
      simp only [calcPSISectionLength, calcPATSectionLength, List.length_append, syntaxHeader_length, patBody_length,
        h1, h2, if_true]
      omega
    rw [syntaxHeader_eq, patBody_eq, mkSec_eq 0 hd.sectionSyntaxIndicator hd.privateBit _ _ hc]
    simp only [List.append_assoc]
  · simp only [ht, hsl, hm, Option.getD_some]
    simp only [ne_eq, reduceCtorEq, not_false_eq_true, not_true_eq_false, and_false, ↓reduceIte,
      Option.isNone_iff_eq_none, false_and, Option.isNone_some, Bool.false_eq_true, or_self, List.append_assoc,
      Res.ok.injEq]
    have hc : calcPSISectionLength 2 d % 4096 = ((syntaxHeaderBytes sh ++ pmtSectionBytes m).length + 4) % 4096 := by
      have h1 : hasPSISyntaxHeader 2 = true := by decide
      have h2 : hasCRC32 2 = true := by decide
      have := calcPMT_mod m
      simp only [calcPSISectionLength, List.length_append, syntaxHeader_length, pmtBody_length m hfit, hm, Option.getD_some,
        h1, h2, if_true]
      simp only [reduceCtorEq, ↓reduceIte, Nat.reduceDvd, Nat.mod_mod_of_dvd]
      omega
    rw [syntaxHeader_eq, pmtBody_eq m hfit, mkSec_eq 2 hd.sectionSyntaxIndicator hd.privateBit _ _ hc]
    simp only [List.append_assoc]

/-! ### several sections, the unit -/

theorem writePSISections_eq_spec (ss : List PSISection) (h : ∀ s ∈ ss, SecAgree s) :
    writePSISections ss = .ok (ss.map Spec.sectionEncode).flatten := by
  induction ss with
  | nil => rfl
  | cons s r ih =>
    rw [writePSISections, writePSISection_eq_spec s (h s (by simp)), ih (fun x hx => h x (by simp [hx]))]
    rfl

/-- **W3**: a PSI unit — pointer_field `pf` (a byte), `pf` filler bytes, any number of PAT / PMT sections -/
theorem writePSIData_eq_spec (pf : Nat) (hpf : pf < 256) (ss : List PSISection) (h : ∀ s ∈ ss, SecAgree s) :
    writePSIData { pointerField := (pf : Int), sections := ss } = .ok (Spec.unitEncode pf (ss.map Spec.sectionEncode) 0) := by
  unfold writePSIData Spec.unitEncode
  simp only []
  rw [writePSISections_eq_spec ss h]
  simp only [Res.bind_ok, Res.pure_eq, List.replicate_zero, List.append_nil, Int.toNat_natCast]
  congr 4
  omega

/-! ### the generator's sections (`Gen/PSI.lean` `mkSection`: value in delivered form + reference bytes) -/

theorem mkSec_length (t : Nat) (ssi priv : Bool) (body : Bytes) : (Spec.mkSec t ssi priv body true).length = 3 + body.length + 4 := by
  unfold Spec.mkSec Spec.be32'
  simp only [if_true, List.length_append]
  rw [enc_len _ (by wd), enc_len _ (by wd)]
  simp [W, swapFields, fieldsWidth, Spec.bit]

theorem sectionEncode_length (s : PSISection) : 7 ≤ (Spec.sectionEncode s).length := by
  unfold Spec.sectionEncode
  simp only []
  rw [mkSec_length]
  omega

end Astits.SpecEq
