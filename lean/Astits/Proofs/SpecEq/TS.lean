/-
SpecEq W1 — the model's `writePacket` emits exactly the reference encoding `Spec.tsEncode` (ISO/IEC 13818-1 table 2-2 /
2-6 transcribed field by field with the bit-serial encoder `Spec.enc`).
-/
import Astits.Proofs.SpecEq.Enc
import Astits.Proofs.PacketRTCanon
namespace Astits.SpecEq
open Astits Astits.SIRT Astits.PacketRT

/-! ### header -/

theorem hdr_eq (h : PacketHeader) :
    Spec.enc [(8, 0x47), Spec.bit h.transportErrorIndicator, Spec.bit h.payloadUnitStartIndicator, Spec.bit h.transportPriority,
       (13, h.pid), (2, h.transportScramblingControl), Spec.bit h.hasAdaptationField, Spec.bit h.hasPayload,
       (4, h.continuityCounter)] = [syncByte] ++ hdrBytes h := by
  rw [enc_cons_byte, enc_pack _ (by wd)]
  rfl

/-! ### clock references -/

theorem pcr_eq (c : ClockReference) (hb : 0 ≤ c.base) (he : 0 ≤ c.extension) :
    Spec.enc (Spec.pcrFields c) = pcrBytes c := by
  unfold Spec.pcrFields pcrBytes
  rw [enc_pack _ (by wd), lowBits_nonneg _ _ hb, lowBits_nonneg _ _ he]
  simp only [swapFields, List.map_cons, List.map_nil, packFields, fieldsWidth, fieldsValue, Nat.mod_mod]

/-- the 5-byte PTS / DTS / DTS_next_AU layout: 4-bit prefix, 3 + 15 + 15 bits with marker bits -/
theorem pts_eq (f : Nat) (c : ClockReference) (hb : 0 ≤ c.base) :
    Spec.enc [(4, f), (3, Spec.i2n c.base / 2 ^ 30), (1, 1), (15, Spec.i2n c.base / 2 ^ 15 % 2 ^ 15), (1, 1),
      (15, Spec.i2n c.base % 2 ^ 15), (1, 1)] = ptsBytes f c := by
  unfold ptsBytes
  have h1 : lowBits (c.base / 1073741824) 3 = Spec.i2n c.base / 1073741824 % 2 ^ 3 := lowBits_div_nonneg c.base 1073741824 3 hb
  have h2 : lowBits (c.base / 32768) 15 = Spec.i2n c.base / 32768 % 2 ^ 15 := lowBits_div_nonneg c.base 32768 15 hb
  rw [enc_pack _ (by wd), h1, h2, lowBits_nonneg _ _ hb]
  simp only [swapFields, List.map_cons, List.map_nil, packFields, fieldsWidth, fieldsValue, Nat.mod_mod, Nat.reducePow]

/-! ### adaptation field extension -/

theorem sum_widths (fs : List (Nat × Nat)) : (fs.map (·.1)).sum = W fs := by
  induction fs with
  | nil => rfl
  | cons f r ih => obtain ⟨w, v⟩ := f; simp only [List.map_cons, List.sum_cons, ih, W_cons]

theorem W_ite_mod8 (c : Bool) (a : List (Nat × Nat)) (h : W a % 8 = 0) : W (if c = true then a else []) % 8 = 0 := by
  cases c
  · rfl
  · exact h

/-- `hss`: a seamless-splice DTS_next_AU that is announced is not negative (the reference reads the `int64` as a natural
number, Go converts it to `uint64`: they differ below zero) -/
theorem afExt_eq (e : PacketAdaptationExtensionField)
    (hss : e.hasSeamlessSplice = true → 0 ≤ (e.dtsNextAccessUnit.getD default).base) :
    Spec.enc (Spec.afExtFields e) = afExtBytes e := by
  unfold Spec.afExtFields afExtBytes
  simp only []
  have hA : W [Spec.bit e.hasLegalTimeWindow, Spec.bit e.hasPiecewiseRate, Spec.bit e.hasSeamlessSplice, (5, 0x1f)] % 8 = 0 := by wd
  have hL : W (if e.hasLegalTimeWindow = true then [Spec.bit e.legalTimeWindowIsValid, (15, e.legalTimeWindowOffset)] else []) % 8 = 0 :=
    W_ite_mod8 _ _ (by wd)
  have hR : W (if e.hasPiecewiseRate = true then [(2, 3), (22, e.piecewiseRate)] else []) % 8 = 0 :=
    W_ite_mod8 _ _ (by wd)
  rw [enc_cons_byte, sum_widths]
  rw [enc_append _ _ (by rw [W_append, W_append]; omega), enc_append _ _ (by rw [W_append]; omega), enc_append _ _ hA,
    enc_ite, enc_ite]
  have hlen : W ([Spec.bit e.hasLegalTimeWindow, Spec.bit e.hasPiecewiseRate, Spec.bit e.hasSeamlessSplice, (5, 0x1f)] ++
      (if e.hasLegalTimeWindow = true then [Spec.bit e.legalTimeWindowIsValid, (15, e.legalTimeWindowOffset)] else []) ++
      (if e.hasPiecewiseRate = true then [(2, 3), (22, e.piecewiseRate)] else []) ++
      (if e.hasSeamlessSplice = true then
        [(4, e.spliceType), (3, Spec.i2n (e.dtsNextAccessUnit.getD default).base / 2 ^ 30), (1, 1),
         (15, Spec.i2n (e.dtsNextAccessUnit.getD default).base / 2 ^ 15 % 2 ^ 15), (1, 1),
         (15, Spec.i2n (e.dtsNextAccessUnit.getD default).base % 2 ^ 15), (1, 1)] else [])) / 8 % 256 = calcAFExtLength e := by
    unfold calcAFExtLength afExtSize
    cases e.hasLegalTimeWindow <;> cases e.hasPiecewiseRate <;> cases e.hasSeamlessSplice <;>
      simp [W, swapFields, fieldsWidth, Spec.bit, ptsOrDTSByteLength]
  rw [hlen]
  have e1 : Spec.enc [Spec.bit e.hasLegalTimeWindow, Spec.bit e.hasPiecewiseRate, Spec.bit e.hasSeamlessSplice, (5, 0x1f)]
      = packFields [(b2n e.hasLegalTimeWindow, 1), (b2n e.hasPiecewiseRate, 1), (b2n e.hasSeamlessSplice, 1), (0x1f, 5)] := by
    rw [enc_pack _ hA]; rfl
  have e2 : Spec.enc [Spec.bit e.legalTimeWindowIsValid, (15, e.legalTimeWindowOffset)]
      = packFields [(b2n e.legalTimeWindowIsValid, 1), (e.legalTimeWindowOffset, 15)] := by
    rw [enc_pack _ (by wd)]; rfl
  have e3 : Spec.enc [(2, 3), (22, e.piecewiseRate)] = packFields [(3, 2), (e.piecewiseRate, 22)] := by
    rw [enc_pack _ (by wd)]; rfl
  rw [e1, e2, e3]
  have e4 : Spec.enc (if e.hasSeamlessSplice = true then
        [(4, e.spliceType), (3, Spec.i2n (e.dtsNextAccessUnit.getD default).base / 2 ^ 30), (1, 1),
         (15, Spec.i2n (e.dtsNextAccessUnit.getD default).base / 2 ^ 15 % 2 ^ 15), (1, 1),
         (15, Spec.i2n (e.dtsNextAccessUnit.getD default).base % 2 ^ 15), (1, 1)] else [])
      = if e.hasSeamlessSplice = true then ptsBytes e.spliceType (e.dtsNextAccessUnit.getD default) else [] := by
    rw [enc_ite]
    by_cases h : e.hasSeamlessSplice = true
    · rw [if_pos h, if_pos h, pts_eq _ _ (hss h)]
    · rw [if_neg h, if_neg h]
  rw [e4]
  simp only [List.append_assoc]

/-! ### adaptation field -/

/-- an adaptation field (not the one-byte form) on which the reference encoder and the writer agree: the delivered
`length` is the computed adaptation_field_length and fits one byte, `int64` values that are announced are not negative.
(Values wider than their bit field are masked identically by both sides, so no upper bounds are needed; the redundant
field TransportPrivateDataLength is read by neither side — both derive the length byte from the data — so it is free.) -/
structure AFAgree (a : PacketAdaptationField) : Prop where
  length : a.length = afSize a
  pcr : a.hasPCR = true → 0 ≤ (a.pcr.getD default).base ∧ 0 ≤ (a.pcr.getD default).extension
  opcr : a.hasOPCR = true → 0 ≤ (a.opcr.getD default).base ∧ 0 ≤ (a.opcr.getD default).extension
  splice : a.hasSplicingCountdown = true → 0 ≤ a.spliceCountdown
  ext : a.hasAdaptationExtensionField = true → (a.adaptationExtensionField.getD {}).hasSeamlessSplice = true →
    0 ≤ ((a.adaptationExtensionField.getD {}).dtsNextAccessUnit.getD default).base

/-- the writer's bytes between the length byte and the stuffing -/
def afBody (a : PacketAdaptationField) : Bytes :=
  [afFlagByte a]
    ++ ((if a.hasPCR = true then pcrBytes (a.pcr.getD default) else [])
    ++ ((if a.hasOPCR = true then pcrBytes (a.opcr.getD default) else [])
    ++ ((if a.hasSplicingCountdown = true then [lowBits a.spliceCountdown 8] else [])
    ++ ((if a.hasTransportPrivateData = true then
          [lowBits a.transportPrivateData.length 8] ++ a.transportPrivateData
        else [])
    ++ (if a.hasAdaptationExtensionField = true then afExtBytes (a.adaptationExtensionField.getD defaultExt) else [])))))

theorem afCore_body (a : PacketAdaptationField) (h1 : a.isOneByteStuffing = false) :
    afCore a = [calcAFLength a] ++ afBody a := by
  unfold afCore afBody
  rw [if_neg (by simp [h1])]

theorem afBody_length (a : PacketAdaptationField) (h1 : a.isOneByteStuffing = false) :
    ((afBody a).length : Int) + a.stuffingLength.toNat = afSize a := by
  have := afCore_stuffing_length a h1
  rw [afCore_body a h1] at this
  unfold afStuffing at this
  rw [if_neg (by simp [h1])] at this
  simp only [List.length_append, List.length_cons, List.length_nil, List.length_replicate] at this
  omega

theorem afSize_pos (a : PacketAdaptationField) : 1 ≤ afSize a := by
  unfold afSize
  have : (0 : Int) ≤ if a.stuffingLength > 0 then a.stuffingLength else 0 := by split <;> omega
  have h1 : (0 : Int) ≤ if a.hasPCR = true then 6 else 0 := by split <;> omega
  have h2 : (0 : Int) ≤ if a.hasOPCR = true then 6 else 0 := by split <;> omega
  have h3 : (0 : Int) ≤ if a.hasSplicingCountdown = true then 1 else 0 := by split <;> omega
  have h4 : (0 : Int) ≤ if a.hasTransportPrivateData = true then 1 + (a.transportPrivateData.length : Int) else 0 := by
    split <;> omega
  have h5 : (0 : Int) ≤ if a.hasAdaptationExtensionField = true then
      1 + (afExtSize (a.adaptationExtensionField.getD defaultExt) : Int) else 0 := by split <;> omega
  omega

/-- the reference's field part + private data + extension = the writer's bytes after the length byte -/
theorem afBody_eq (a : PacketAdaptationField) (h : AFAgree a) :
    Spec.enc ([Spec.bit a.discontinuityIndicator, Spec.bit a.randomAccessIndicator, Spec.bit a.elementaryStreamPriorityIndicator,
        Spec.bit a.hasPCR, Spec.bit a.hasOPCR, Spec.bit a.hasSplicingCountdown, Spec.bit a.hasTransportPrivateData,
        Spec.bit a.hasAdaptationExtensionField]
      ++ (if a.hasPCR = true then Spec.pcrFields (a.pcr.getD default) else [])
      ++ (if a.hasOPCR = true then Spec.pcrFields (a.opcr.getD default) else [])
      ++ (if a.hasSplicingCountdown = true then [(8, Spec.i2n a.spliceCountdown)] else [])
      ++ (if a.hasTransportPrivateData = true then [(8, a.transportPrivateData.length)] else []))
      ++ (if a.hasTransportPrivateData = true then a.transportPrivateData else [])
      ++ (if a.hasAdaptationExtensionField = true then Spec.enc (Spec.afExtFields (a.adaptationExtensionField.getD {})) else [])
    = afBody a := by
  have hF : W [Spec.bit a.discontinuityIndicator, Spec.bit a.randomAccessIndicator, Spec.bit a.elementaryStreamPriorityIndicator,
        Spec.bit a.hasPCR, Spec.bit a.hasOPCR, Spec.bit a.hasSplicingCountdown, Spec.bit a.hasTransportPrivateData,
        Spec.bit a.hasAdaptationExtensionField] % 8 = 0 := by wd
  have hP : W (if a.hasPCR = true then Spec.pcrFields (a.pcr.getD default) else []) % 8 = 0 := W_ite_mod8 _ _ (by unfold Spec.pcrFields; wd)
  have hO : W (if a.hasOPCR = true then Spec.pcrFields (a.opcr.getD default) else []) % 8 = 0 := W_ite_mod8 _ _ (by unfold Spec.pcrFields; wd)
  have hS : W (if a.hasSplicingCountdown = true then [(8, Spec.i2n a.spliceCountdown)] else []) % 8 = 0 := W_ite_mod8 _ _ (by wd)
  rw [enc_append _ _ (by rw [W_append, W_append, W_append]; omega), enc_append _ _ (by rw [W_append, W_append]; omega),
    enc_append _ _ (by rw [W_append]; omega), enc_append _ _ hF]
  rw [enc_ite, enc_ite, enc_ite, enc_ite, enc_byte, enc_byte, enc_pack _ hF]
  have e0 : packFields (swapFields [Spec.bit a.discontinuityIndicator, Spec.bit a.randomAccessIndicator,
        Spec.bit a.elementaryStreamPriorityIndicator,
        Spec.bit a.hasPCR, Spec.bit a.hasOPCR, Spec.bit a.hasSplicingCountdown, Spec.bit a.hasTransportPrivateData,
        Spec.bit a.hasAdaptationExtensionField]) = [afFlagByte a] := afFlag_bytes a
  have e1 : (if a.hasPCR = true then Spec.enc (Spec.pcrFields (a.pcr.getD default)) else [])
      = if a.hasPCR = true then pcrBytes (a.pcr.getD default) else [] := by
    by_cases hc : a.hasPCR = true
    · rw [if_pos hc, if_pos hc, pcr_eq _ (h.pcr hc).1 (h.pcr hc).2]
    · rw [if_neg hc, if_neg hc]
  have e2 : (if a.hasOPCR = true then Spec.enc (Spec.pcrFields (a.opcr.getD default)) else [])
      = if a.hasOPCR = true then pcrBytes (a.opcr.getD default) else [] := by
    by_cases hc : a.hasOPCR = true
    · rw [if_pos hc, if_pos hc, pcr_eq _ (h.opcr hc).1 (h.opcr hc).2]
    · rw [if_neg hc, if_neg hc]
  have e3 : (if a.hasSplicingCountdown = true then [Spec.i2n a.spliceCountdown % 256] else [])
      = if a.hasSplicingCountdown = true then [lowBits a.spliceCountdown 8] else [] := by
    by_cases hc : a.hasSplicingCountdown = true
    · rw [if_pos hc, if_pos hc, lowBits_nonneg _ _ (h.splice hc)]
    · rw [if_neg hc, if_neg hc]
  have e5 : (if a.hasAdaptationExtensionField = true then Spec.enc (Spec.afExtFields (a.adaptationExtensionField.getD {})) else [])
      = if a.hasAdaptationExtensionField = true then afExtBytes (a.adaptationExtensionField.getD defaultExt) else [] := by
    by_cases hc : a.hasAdaptationExtensionField = true
    · rw [if_pos hc, if_pos hc, afExt_eq _ (h.ext hc)]; rfl
    · rw [if_neg hc, if_neg hc]
  rw [e0, e1, e2, e3, e5]
  unfold afBody
  simp only [List.append_assoc]
  congr 4
  by_cases hc : a.hasTransportPrivateData = true
  · simp only [if_pos hc, lowBits_nat]
    simp
  · simp [hc]

/-- **adaptation field**: `Spec.afEncode a = afBytes a` -/
theorem af_eq (a : PacketAdaptationField) (h1 : a.isOneByteStuffing = false) (h : AFAgree a) (hsm : afSize a < 256) :
    Spec.afEncode a = afBytes a := by
  have hpos := afSize_pos a
  have hlen := afBody_length a h1
  unfold Spec.afEncode
  rw [if_neg (by rw [h.length]; omega)]
  simp only []
  rw [afBody_eq a h, afBytes_split, afCore_body a h1]
  unfold afStuffing
  rw [if_neg (by simp [h1])]
  have hl : Spec.i2n a.length = calcAFLength a := by
    unfold calcAFLength Spec.i2n
    rw [h.length]
    congr 1
    omega
  have hs : Spec.i2n a.length - (afBody a).length = a.stuffingLength.toNat := by
    unfold Spec.i2n
    rw [h.length]
    omega
  rw [hs, hl]

/-- the one-byte form -/
theorem af_one_eq (a : PacketAdaptationField) (h1 : a.isOneByteStuffing = true) (hl : a.length = 0) :
    Spec.afEncode a = afBytes a := by
  unfold Spec.afEncode afBytes
  rw [if_pos hl, if_pos h1]

/-! ### whole packet -/

/-- a packet on which the reference encoder `Spec.tsEncode` and `writePacket` agree:
* an announced adaptation field is present, with every announced pointer-typed part present (else Go panics), in the
  delivered form (`length` = adaptation_field_length) and with non-negative `int64` values (`AFAgree`);
* header + adaptation field + payload are exactly 188 bytes (the reference encoder does not pad), and no payload bytes are
  carried when the header says there is none. -/
structure TSAgree (p : Packet) : Prop where
  af : p.header.hasAdaptationField = true → ∃ a, p.adaptationField = some a ∧ afNilDeref a = false ∧
    (a.isOneByteStuffing = true → a.length = 0) ∧ (a.isOneByteStuffing = false → AFAgree a)
  size : packetHeadSize p + p.payload.length = 188
  payload : p.header.hasPayload = false → p.payload = []

theorem afBytes_len (a : PacketAdaptationField) (h1 : a.isOneByteStuffing = false) :
    ((afBytes a).length : Int) = 1 + afSize a + (if a.stuffingLength > 0 then 0 else 0) := by
  have := afBody_length a h1
  rw [afBytes_split, afCore_body a h1]
  unfold afStuffing
  rw [if_neg (by simp [h1])]
  simp only [List.length_append, List.length_cons, List.length_nil, List.length_replicate]
  split <;> omega

theorem tsEncode_hdr (p : Packet) : Spec.tsEncode p = [syncByte] ++ hdrBytes p.header
    ++ (if p.header.hasAdaptationField = true then Spec.afEncode (p.adaptationField.getD {}) else [])
    ++ (if p.header.hasPayload = true then p.payload else []) := by
  unfold Spec.tsEncode
  simp only []
  rw [hdr_eq]

/-- **W1**: on every agreeing packet the writer emits exactly the reference encoding -/
theorem writePacket_eq_spec (p : Packet) (h : TSAgree p) : writePacket p 188 = .ok (Spec.tsEncode p) := by
  have hsize := h.size
  unfold writePacket
  by_cases hc : p.header.hasAdaptationField = true
  · obtain ⟨a, ha, hnil, hone, hag⟩ := h.af hc
    rw [if_neg (by simp [ha]), if_neg (by simp [ha, hnil]), if_neg (by omega)]
    simp only [hc, if_true, ha, Option.getD_some]
    rw [tsEncode_hdr]
    simp only [hc, if_true, ha, Option.getD_some]
    have hsz : packetHeadSize p = 4 + (if a.isOneByteStuffing = true then 1 else 1 + afSize a) := by
      unfold packetHeadSize
      simp only [hc, if_true, ha]
    have haf : Spec.afEncode a = afBytes a ∧ ((afBytes a).length : Int) = if a.isOneByteStuffing = true then 1 else 1 + afSize a := by
      cases h1 : a.isOneByteStuffing
      · have hsm : afSize a < 256 := by
          rw [hsz] at hsize; simp only [h1, Bool.false_eq_true, if_false] at hsize; omega
        refine ⟨af_eq a h1 (hag h1) hsm, ?_⟩
        have := afBytes_len a h1
        simp only [Bool.false_eq_true, if_false]
        split at this <;> omega
      · refine ⟨af_one_eq a h1 (hone h1), ?_⟩
        simp [afBytes, h1]
    rw [haf.1]
    have hl := haf.2
    by_cases hp : p.header.hasPayload = true
    · simp only [hp, if_true]
      have hn : 188 - (([syncByte] ++ hdrBytes p.header ++ afBytes a).length + p.payload.length) = 0 := by
        simp only [List.length_append, List.length_cons, List.length_nil, hdrBytes_length]
        omega
      rw [hn]; simp
    · have hp' : p.header.hasPayload = false := by simpa using hp
      have hpl := h.payload hp'
      simp only [hp', Bool.false_eq_true, if_false]
      rw [hpl] at hsize
      have hn : 188 - (([syncByte] ++ hdrBytes p.header ++ afBytes a).length + ([] : Bytes).length) = 0 := by
        simp only [List.length_append, List.length_cons, List.length_nil, hdrBytes_length]
        simp only [List.length_nil] at hsize
        omega
      rw [hn]; simp
  · have hc' : p.header.hasAdaptationField = false := by simpa using hc
    have hsz : packetHeadSize p = 4 := by unfold packetHeadSize; simp [hc']
    rw [if_neg (by simp [hc']), if_neg (by simp [hc']), if_neg (by omega)]
    rw [tsEncode_hdr]
    simp only [hc', Bool.false_eq_true, if_false]
    by_cases hp : p.header.hasPayload = true
    · simp only [hp, if_true]
      have hn : 188 - (([syncByte] ++ hdrBytes p.header ++ []).length + p.payload.length) = 0 := by
        simp only [List.length_append, List.length_cons, List.length_nil, hdrBytes_length]
        omega
      rw [hn]; simp
    · have hpl := h.payload (by simpa using hp)
      rw [hpl] at hsize
      simp only [List.length_nil] at hsize
      omega

/-! ### from the predicates of the round-trip theorems -/

theorem afAgree_of_wf_canon (a : PacketAdaptationField) (h : AFWF a) (hc : AFCanon a) : AFAgree a := by
  refine ⟨hc.length, ?_, ?_, fun hs => (h.splice hs).1, ?_⟩
  · intro hp
    have := h.pcr hp
    cases hpcr : a.pcr with
    | none => rw [hpcr] at this; exact this.elim
    | some c => rw [hpcr] at this; exact ⟨this.1, this.2.2.1⟩
  · intro hp
    have := h.opcr hp
    cases hpcr : a.opcr with
    | none => rw [hpcr] at this; exact this.elim
    | some c => rw [hpcr] at this; exact ⟨this.1, this.2.2.1⟩
  · intro he hs
    have := h.ext he
    cases hx : a.adaptationExtensionField with
    | none => rw [hx] at this; exact this.elim
    | some e =>
      rw [hx] at this hs
      simp only [Option.getD_some] at hs ⊢
      have hd := (this.ss hs).2
      cases hdts : e.dtsNextAccessUnit with
      | none => rw [hdts] at hd; exact hd.elim
      | some d => rw [hdts] at hd; exact hd.1

theorem afNilDeref_of_wf (a : PacketAdaptationField) (h : a.isOneByteStuffing = false → AFWF a) : afNilDeref a = false := by
  unfold afNilDeref
  cases h1 : a.isOneByteStuffing
  · have hw := h h1
    have e1 : (a.hasPCR && a.pcr.isNone) = false := by
      cases hp : a.hasPCR
      · rfl
      · have := hw.pcr hp
        cases hx : a.pcr with
        | none => rw [hx] at this; exact this.elim
        | some c => rfl
    have e2 : (a.hasOPCR && a.opcr.isNone) = false := by
      cases hp : a.hasOPCR
      · rfl
      · have := hw.opcr hp
        cases hx : a.opcr with
        | none => rw [hx] at this; exact this.elim
        | some c => rfl
    rw [e1, e2]
    cases hp : a.hasAdaptationExtensionField
    · rfl
    · have := hw.ext hp
      cases hx : a.adaptationExtensionField with
      | none => rw [hx] at this; exact this.elim
      | some e =>
        rw [hx] at this
        cases hs : e.hasSeamlessSplice
        · simp [hs]
        · have hd := (this.ss hs).2
          cases hdts : e.dtsNextAccessUnit with
          | none => rw [hdts] at hd; exact hd.elim
          | some d => simp [hs, hdts]
  · rfl

/-- header + adaptation field + payload are exactly 188 bytes -/
def PacketExact (p : Packet) : Prop := packetHeadSize p + p.payload.length = 188

/-- the predicates of `C11.packet_roundtrip_exact` (well-formed, in the demuxer's delivered form) plus exact size imply
`TSAgree` -/
theorem tsAgree_of_wf_canon (p : Packet) (h : PacketWF p) (hc : PacketCanon p) (hx : PacketExact p) : TSAgree p := by
  refine ⟨?_, hx, hc.payload⟩
  intro haf
  have hok := h.af haf
  cases ha : p.adaptationField with
  | none => rw [ha] at hok; exact hok.elim
  | some a =>
    rw [ha] at hok
    have hca := hc.afc a ha
    refine ⟨a, rfl, afNilDeref_of_wf a hok, ?_, ?_⟩
    · intro h1
      rw [hca.1 h1]; rfl
    · intro h1
      exact afAgree_of_wf_canon a (hok h1) (hca.2 h1)

end Astits.SpecEq
