/-
SpecEq (W1/W2/W3 helper) — algebra of the bit-serial reference field encoder `Spec.enc`:
byte-aligned concatenation, optional parts, equality with `packFields`, and the value-masking lemmas that relate the
model's `lowBits` (Go `uint64(int64)` + `WriteN`) to the reference's `Int.toNat` on non-negative values.
-/
import Astits.Proofs.SIRT.Enc
import Astits.Spec.TS
namespace Astits.SpecEq
open Astits Astits.SIRT

/-- total width of a reference field list -/
def W (fs : List (Nat × Nat)) : Nat := fieldsWidth (swapFields fs)

theorem W_nil : W [] = 0 := rfl
theorem W_cons (w v : Nat) (r : List (Nat × Nat)) : W ((w, v) :: r) = w + W r := rfl
theorem W_append (a b : List (Nat × Nat)) : W (a ++ b) = W a + W b := by
  induction a with
  | nil => simp [W_nil]
  | cons f r ih => obtain ⟨w, v⟩ := f; simp only [List.cons_append, W_cons, ih]; omega
theorem W_ite (c : Bool) (a : List (Nat × Nat)) : W (if c = true then a else []) = if c = true then W a else 0 := by
  cases c <;> rfl
theorem W_bit (b : Bool) (r : List (Nat × Nat)) : W (Spec.bit b :: r) = 1 + W r := rfl

theorem packBits_append (n : Nat) : ∀ xs ys : List Bool, xs.length = 8 * n →
    Spec.packBits (xs ++ ys) = Spec.packBits xs ++ Spec.packBits ys := by
  induction n with
  | zero =>
    intro xs ys h
    have : xs = [] := List.eq_nil_of_length_eq_zero (by omega)
    subst this
    simp [Spec.packBits]
  | succ n ih =>
    intro xs ys h
    match xs, h with
    | b7 :: b6 :: b5 :: b4 :: b3 :: b2 :: b1 :: b0 :: r, h =>
      have hr : r.length = 8 * n := by simp only [List.length_cons] at h; omega
      simp only [List.cons_append]
      rw [Spec.packBits, Spec.packBits, ih r ys hr]
      rfl

/-- side condition "this literal field list fills whole bytes" -/
macro "wd" : tactic => `(tactic| simp [W, swapFields, fieldsWidth, Spec.bit])

/-- byte-aligned concatenation -/
theorem enc_append (a b : List (Nat × Nat)) (h : W a % 8 = 0) :
    Spec.enc (a ++ b) = Spec.enc a ++ Spec.enc b := by
  unfold Spec.enc
  rw [List.map_append, List.flatten_append]
  have hl := fieldBits_length a
  unfold W at h
  have h8 : (fieldBits a).length = 8 * (fieldsWidth (swapFields a) / 8) := by omega
  exact packBits_append (fieldsWidth (swapFields a) / 8) _ _ h8

theorem enc_nil : Spec.enc [] = [] := rfl

theorem enc_ite (c : Bool) (a : List (Nat × Nat)) :
    Spec.enc (if c = true then a else []) = if c = true then Spec.enc a else [] := by
  cases c <;> rfl

theorem enc_pack (fs : List (Nat × Nat)) (h : W fs % 8 = 0) : Spec.enc fs = packFields (swapFields fs) :=
  enc_eq_packFields fs h

theorem enc_len (fs : List (Nat × Nat)) (h : W fs % 8 = 0) : (Spec.enc fs).length = W fs / 8 :=
  enc_length fs h

/-- one byte -/
theorem enc_byte (v : Nat) : Spec.enc [(8, v)] = [v % 256] := by
  rw [enc_pack _ (by wd)]
  simp [swapFields, packFields, fieldsWidth, fieldsValue, beBytes]

theorem enc_cons_byte (v : Nat) (r : List (Nat × Nat)) : Spec.enc ((8, v) :: r) = [v % 256] ++ Spec.enc r := by
  have := enc_append [(8, v)] r (by wd)
  simp only [List.cons_append, List.nil_append] at this
  rw [this, enc_byte]

/-! ### masking -/

theorem fieldsValue_mod (v w : Nat) (r : List (Nat × Nat)) (acc : Nat) :
    fieldsValue ((v % 2 ^ w, w) :: r) acc = fieldsValue ((v, w) :: r) acc := by
  simp only [fieldsValue, Nat.mod_mod]

/-- `packFields` only sees each value modulo its width -/
theorem packFields_mod_head (v w : Nat) (r : List (Nat × Nat)) :
    packFields ((v % 2 ^ w, w) :: r) = packFields ((v, w) :: r) := by
  unfold packFields
  rw [fieldsValue_mod]; rfl

theorem lowBits_nonneg (x : Int) (n : Nat) (h : 0 ≤ x) : lowBits x n = Spec.i2n x % 2 ^ n := by
  obtain ⟨k, rfl⟩ := Int.eq_ofNat_of_zero_le h
  rw [lowBits_nat]; rfl

theorem lowBits_div_nonneg (x : Int) (k n : Nat) (h : 0 ≤ x) : lowBits (x / (k : Int)) n = Spec.i2n x / k % 2 ^ n := by
  obtain ⟨m, rfl⟩ := Int.eq_ofNat_of_zero_le h
  rw [lowBits_div_nat]; rfl

theorem b2n_bit (b : Bool) : (Spec.bit b) = (1, b2n b) := rfl

end Astits.SpecEq
