/-
SpecEq W2 — the model's PES header writer (`pesHeaderBytes` / `pesOptionalHeaderBytes`, and the first-packet bytes of
`writePESData`) emits exactly the reference encoding `Spec.pesEncode` (ISO/IEC 13818-1 table 2-21 transcribed with
`Spec.enc`).
-/
import Astits.Proofs.SpecEq.TS
import Astits.Spec.PES
import Astits.Proofs.PESRT
namespace Astits.SpecEq
open Astits Astits.SIRT

/-! ### parts -/

theorem escr_eq (c : ClockReference) (hb : 0 ≤ c.base) (he : 0 ≤ c.extension) :
    Spec.enc [(2, 3), (3, c.base.toNat / 2 ^ 30), (1, 1), (15, c.base.toNat / 2 ^ 15 % 2 ^ 15), (1, 1),
      (15, c.base.toNat % 2 ^ 15), (1, 1), (9, c.extension.toNat), (1, 1)] = escrBytes c := by
  unfold escrBytes
  have h1 : lowBits (c.base / 1073741824) 3 = Spec.i2n c.base / 1073741824 % 2 ^ 3 := lowBits_div_nonneg c.base 1073741824 3 hb
  have h2 : lowBits (c.base / 32768) 15 = Spec.i2n c.base / 32768 % 2 ^ 15 := lowBits_div_nonneg c.base 32768 15 hb
  rw [enc_pack _ (by wd), h1, h2, lowBits_nonneg _ _ hb, lowBits_nonneg _ _ he]
  simp only [swapFields, List.map_cons, List.map_nil, packFields, fieldsWidth, fieldsValue, Nat.mod_mod, Nat.reducePow, Spec.i2n]

theorem tsFields_eq (f : Nat) (c : ClockReference) (hb : 0 ≤ c.base) :
    Spec.enc (Spec.tsFields f c.base.toNat) = ptsBytes f c := by
  unfold Spec.tsFields
  exact pts_eq f c hb

/-- trick mode: the reference writes the 1-bit intra_slice_refresh field from the number, the writer from `== 1` -/
theorem dsm_eq (m : DSMTrickMode)
    (h : m.trickModeControl = 0 ∨ m.trickModeControl = 3 → m.intraSliceRefresh < 2) :
    Spec.enc (Spec.trickModeFields m) = dsmBytes m := by
  unfold Spec.trickModeFields dsmBytes
  simp only []
  by_cases h1 : m.trickModeControl = 0 ∨ m.trickModeControl = 3
  · rw [if_pos h1, if_pos h1, enc_pack _ (by wd)]
    have := h h1
    have e : m.intraSliceRefresh % 2 = b2n (m.intraSliceRefresh == 1) % 2 := by
      have : m.intraSliceRefresh = 0 ∨ m.intraSliceRefresh = 1 := by omega
      rcases this with h0 | h0 <;> rw [h0] <;> rfl
    simp only [swapFields, List.map_cons, List.map_nil, packFields, fieldsWidth, fieldsValue, Nat.reducePow, Nat.pow_one, e]
  · rw [if_neg h1, if_neg h1]
    by_cases h2 : m.trickModeControl = 2
    · rw [if_pos h2, if_pos h2, enc_pack _ (by wd)]; rfl
    · rw [if_neg h2, if_neg h2]
      by_cases h3 : m.trickModeControl = 1 ∨ m.trickModeControl = 4
      · rw [if_pos h3, if_pos h3, enc_pack _ (by wd)]; rfl
      · rw [if_neg h3, if_neg h3, enc_pack _ (by wd)]; rfl

theorem dsmBytes_length (m : DSMTrickMode) : (dsmBytes m).length = 1 := by
  unfold dsmBytes
  simp only []
  split
  · simp [packFields, fieldsWidth, beBytes]
  · split
    · simp [packFields, fieldsWidth, beBytes]
    · split <;> simp [packFields, fieldsWidth, beBytes]

theorem bytesN_exact (bs : Bytes) (n pad : Nat) (h : bs.length = n) : bytesN bs n pad = bs := by
  unfold bytesN
  rw [if_pos (by omega), ← h, List.take_length]

/-! ### optional header -/

/-- optional PES headers on which the reference encoder and the writer agree -/
structure PESOptAgree (h : PESOptionalHeader) : Prop where
  /-- the writer always clears PES_CRC_flag and writes no CRC ("not supported yet" in data_pes.go) -/
  noCRC : h.hasCRC = false
  /-- the writer always clears pack_header_field_flag -/
  noPack : h.hasExtension = true → h.hasPackHeaderField = false
  /-- `WriteBytesN(PrivateData, 16, 0)` truncates / pads to the 16 bytes of PES_private_data -/
  priv : h.hasExtension = true → h.hasPrivateData = true → h.privateData.length = 16
  pts : h.ptsDTSIndicator = 2 ∨ h.ptsDTSIndicator = 3 → 0 ≤ (h.pts.getD default).base
  dts : h.ptsDTSIndicator = 3 → 0 ≤ (h.dts.getD default).base
  escr : h.hasESCR = true → 0 ≤ (h.escr.getD default).base ∧ 0 ≤ (h.escr.getD default).extension
  dsm : h.hasDSMTrickMode = true →
    (h.dsmTrickMode.getD {}).trickModeControl = 0 ∨ (h.dsmTrickMode.getD {}).trickModeControl = 3 →
    (h.dsmTrickMode.getD {}).intraSliceRefresh < 2

/-- the writer's bytes after PES_header_data_length -/
def optTail (h : PESOptionalHeader) : Bytes :=
  (if h.ptsDTSIndicator = 2 then ptsBytes 2 (h.pts.getD default) else [])
  ++ ((if h.ptsDTSIndicator = 3 then ptsBytes 3 (h.pts.getD default) ++ ptsBytes 1 (h.dts.getD default) else [])
  ++ ((if h.hasESCR then escrBytes (h.escr.getD default) else [])
  ++ ((if h.hasESRate then packFields [(1, 1), (h.esRate, 22), (1, 1)] else [])
  ++ ((if h.hasDSMTrickMode then dsmBytes (h.dsmTrickMode.getD default) else [])
  ++ ((if h.hasAdditionalCopyInfo then packFields [(1, 1), (h.additionalCopyInfo, 7)] else [])
  ++ (if h.hasExtension then
        packFields [(b2n h.hasPrivateData, 1), (0, 1), (b2n h.hasProgramPacketSequenceCounter, 1),
          (b2n h.hasPSTDBuffer, 1), (7, 3), (b2n h.hasExtension2, 1)]
        ++ ((if h.hasPrivateData then bytesN h.privateData 16 0 else [])
        ++ ((if h.hasProgramPacketSequenceCounter then
              packFields [(1, 1), (h.packetSequenceCounter, 7), (1, 1), (h.mpeg1OrMPEG2ID, 1), (h.originalStuffingLength, 6)]
            else [])
        ++ ((if h.hasPSTDBuffer then packFields [(1, 2), (h.pstdBufferScale, 1), (h.pstdBufferSize, 13)] else [])
        ++ (if h.hasExtension2 then packFields [(1, 1), (h.extension2Data.length, 7)] ++ h.extension2Data else []))))
      else []))))))

theorem optBytes_split (h : PESOptionalHeader) :
    pesOptionalHeaderBytes h =
      packFields [(2, 2), (h.scramblingControl, 2), (b2n h.priority, 1), (b2n h.dataAlignmentIndicator, 1),
        (b2n h.isCopyrighted, 1), (b2n h.isOriginal, 1)]
      ++ (packFields [(h.ptsDTSIndicator, 2), (b2n h.hasESCR, 1), (b2n h.hasESRate, 1), (b2n h.hasDSMTrickMode, 1),
        (b2n h.hasAdditionalCopyInfo, 1), (0, 1), (b2n h.hasExtension, 1)]
      ++ ([calcPESOptionalHeaderDataLength h] ++ optTail h)) := by
  unfold pesOptionalHeaderBytes optTail
  simp only [List.append_assoc]

/-- the reference's `fieldsA ++ ext` -/
def specData (h : PESOptionalHeader) : Bytes :=
  ((if h.ptsDTSIndicator = 2 then Spec.enc (Spec.tsFields 2 (h.pts.getD default).base.toNat) else [])
    ++ (if h.ptsDTSIndicator = 3 then Spec.enc (Spec.tsFields 3 (h.pts.getD default).base.toNat)
          ++ Spec.enc (Spec.tsFields 1 (h.dts.getD default).base.toNat) else [])
    ++ (if h.hasESCR then
          Spec.enc [(2, 3), (3, (h.escr.getD default).base.toNat / 2 ^ 30), (1, 1),
            (15, (h.escr.getD default).base.toNat / 2 ^ 15 % 2 ^ 15), (1, 1),
            (15, (h.escr.getD default).base.toNat % 2 ^ 15), (1, 1), (9, (h.escr.getD default).extension.toNat), (1, 1)]
        else [])
    ++ (if h.hasESRate then Spec.enc [(1, 1), (22, h.esRate), (1, 1)] else [])
    ++ (if h.hasDSMTrickMode then Spec.enc (Spec.trickModeFields (h.dsmTrickMode.getD {})) else [])
    ++ (if h.hasAdditionalCopyInfo then Spec.enc [(1, 1), (7, h.additionalCopyInfo)] else [])
    ++ (if h.hasCRC then Spec.enc [(16, h.crc)] else []))
  ++ (if h.hasExtension then
      Spec.enc [Spec.bit h.hasPrivateData, Spec.bit h.hasPackHeaderField, Spec.bit h.hasProgramPacketSequenceCounter,
        Spec.bit h.hasPSTDBuffer, (3, 7), Spec.bit h.hasExtension2]
      ++ (if h.hasPrivateData then h.privateData else [])
      ++ (if h.hasProgramPacketSequenceCounter then
            Spec.enc [(1, 1), (7, h.packetSequenceCounter), (1, 1), (1, h.mpeg1OrMPEG2ID), (6, h.originalStuffingLength)] else [])
      ++ (if h.hasPSTDBuffer then Spec.enc [(2, 1), (1, h.pstdBufferScale), (13, h.pstdBufferSize)] else [])
      ++ (if h.hasExtension2 then Spec.enc [(1, 1), (7, h.extension2Data.length)] ++ h.extension2Data else [])
    else [])

theorem optEncode_shape (h : PESOptionalHeader) (st : Nat) :
    Spec.pesOptionalEncode h st =
      Spec.enc [(2, 2), (2, h.scramblingControl), Spec.bit h.priority, Spec.bit h.dataAlignmentIndicator,
        Spec.bit h.isCopyrighted, Spec.bit h.isOriginal, (2, h.ptsDTSIndicator), Spec.bit h.hasESCR, Spec.bit h.hasESRate,
        Spec.bit h.hasDSMTrickMode, Spec.bit h.hasAdditionalCopyInfo, Spec.bit h.hasCRC, Spec.bit h.hasExtension,
        (8, (specData h ++ List.replicate st 0xff).length)]
      ++ (specData h ++ List.replicate st 0xff) := rfl

theorem specData_eq (h : PESOptionalHeader) (ag : PESOptAgree h) : specData h = optTail h := by
  unfold specData optTail
  have e1 : (if h.ptsDTSIndicator = 2 then Spec.enc (Spec.tsFields 2 (h.pts.getD default).base.toNat) else [])
      = if h.ptsDTSIndicator = 2 then ptsBytes 2 (h.pts.getD default) else [] := by
    by_cases hc : h.ptsDTSIndicator = 2
    · rw [if_pos hc, if_pos hc, tsFields_eq _ _ (ag.pts (.inl hc))]
    · rw [if_neg hc, if_neg hc]
  have e2 : (if h.ptsDTSIndicator = 3 then Spec.enc (Spec.tsFields 3 (h.pts.getD default).base.toNat)
          ++ Spec.enc (Spec.tsFields 1 (h.dts.getD default).base.toNat) else [])
      = if h.ptsDTSIndicator = 3 then ptsBytes 3 (h.pts.getD default) ++ ptsBytes 1 (h.dts.getD default) else [] := by
    by_cases hc : h.ptsDTSIndicator = 3
    · rw [if_pos hc, if_pos hc, tsFields_eq _ _ (ag.pts (.inr hc)), tsFields_eq _ _ (ag.dts hc)]
    · rw [if_neg hc, if_neg hc]
  have e3 : (if h.hasESCR = true then
          Spec.enc [(2, 3), (3, (h.escr.getD default).base.toNat / 2 ^ 30), (1, 1),
            (15, (h.escr.getD default).base.toNat / 2 ^ 15 % 2 ^ 15), (1, 1),
            (15, (h.escr.getD default).base.toNat % 2 ^ 15), (1, 1), (9, (h.escr.getD default).extension.toNat), (1, 1)]
        else []) = if h.hasESCR = true then escrBytes (h.escr.getD default) else [] := by
    by_cases hc : h.hasESCR = true
    · rw [if_pos hc, if_pos hc, escr_eq _ (ag.escr hc).1 (ag.escr hc).2]
    · rw [if_neg hc, if_neg hc]
  have e4 : Spec.enc [(1, 1), (22, h.esRate), (1, 1)] = packFields [(1, 1), (h.esRate, 22), (1, 1)] := by
    rw [enc_pack _ (by wd)]; rfl
  have e5 : (if h.hasDSMTrickMode = true then Spec.enc (Spec.trickModeFields (h.dsmTrickMode.getD {})) else [])
      = if h.hasDSMTrickMode = true then dsmBytes (h.dsmTrickMode.getD default) else [] := by
    by_cases hc : h.hasDSMTrickMode = true
    · rw [if_pos hc, if_pos hc, dsm_eq _ (ag.dsm hc)]; rfl
    · rw [if_neg hc, if_neg hc]
  have e6 : Spec.enc [(1, 1), (7, h.additionalCopyInfo)] = packFields [(1, 1), (h.additionalCopyInfo, 7)] := by
    rw [enc_pack _ (by wd)]; rfl
  have e7 : (if h.hasCRC = true then Spec.enc [(16, h.crc)] else []) = [] := by rw [ag.noCRC]; rfl
  have e8 : (if h.hasExtension = true then
      Spec.enc [Spec.bit h.hasPrivateData, Spec.bit h.hasPackHeaderField, Spec.bit h.hasProgramPacketSequenceCounter,
        Spec.bit h.hasPSTDBuffer, (3, 7), Spec.bit h.hasExtension2]
      ++ (if h.hasPrivateData = true then h.privateData else [])
      ++ (if h.hasProgramPacketSequenceCounter = true then
            Spec.enc [(1, 1), (7, h.packetSequenceCounter), (1, 1), (1, h.mpeg1OrMPEG2ID), (6, h.originalStuffingLength)] else [])
      ++ (if h.hasPSTDBuffer = true then Spec.enc [(2, 1), (1, h.pstdBufferScale), (13, h.pstdBufferSize)] else [])
      ++ (if h.hasExtension2 = true then Spec.enc [(1, 1), (7, h.extension2Data.length)] ++ h.extension2Data else [])
    else [])
    = (if h.hasExtension = true then
        packFields [(b2n h.hasPrivateData, 1), (0, 1), (b2n h.hasProgramPacketSequenceCounter, 1),
          (b2n h.hasPSTDBuffer, 1), (7, 3), (b2n h.hasExtension2, 1)]
        ++ ((if h.hasPrivateData = true then bytesN h.privateData 16 0 else [])
        ++ ((if h.hasProgramPacketSequenceCounter = true then
              packFields [(1, 1), (h.packetSequenceCounter, 7), (1, 1), (h.mpeg1OrMPEG2ID, 1), (h.originalStuffingLength, 6)]
            else [])
        ++ ((if h.hasPSTDBuffer = true then packFields [(1, 2), (h.pstdBufferScale, 1), (h.pstdBufferSize, 13)] else [])
        ++ (if h.hasExtension2 = true then packFields [(1, 1), (h.extension2Data.length, 7)] ++ h.extension2Data else []))))
      else []) := by
    by_cases hc : h.hasExtension = true
    · rw [if_pos hc, if_pos hc]
      have f1 : Spec.enc [Spec.bit h.hasPrivateData, Spec.bit h.hasPackHeaderField, Spec.bit h.hasProgramPacketSequenceCounter,
          Spec.bit h.hasPSTDBuffer, (3, 7), Spec.bit h.hasExtension2]
          = packFields [(b2n h.hasPrivateData, 1), (0, 1), (b2n h.hasProgramPacketSequenceCounter, 1),
            (b2n h.hasPSTDBuffer, 1), (7, 3), (b2n h.hasExtension2, 1)] := by
        rw [ag.noPack hc, enc_pack _ (by wd)]; rfl
      have f2 : (if h.hasPrivateData = true then h.privateData else [])
          = if h.hasPrivateData = true then bytesN h.privateData 16 0 else [] := by
        by_cases hp : h.hasPrivateData = true
        · rw [if_pos hp, if_pos hp, bytesN_exact _ _ _ (ag.priv hc hp)]
        · rw [if_neg hp, if_neg hp]
      have f3 : Spec.enc [(1, 1), (7, h.packetSequenceCounter), (1, 1), (1, h.mpeg1OrMPEG2ID), (6, h.originalStuffingLength)]
          = packFields [(1, 1), (h.packetSequenceCounter, 7), (1, 1), (h.mpeg1OrMPEG2ID, 1), (h.originalStuffingLength, 6)] := by
        rw [enc_pack _ (by wd)]; rfl
      have f4 : Spec.enc [(2, 1), (1, h.pstdBufferScale), (13, h.pstdBufferSize)]
          = packFields [(1, 2), (h.pstdBufferScale, 1), (h.pstdBufferSize, 13)] := by
        rw [enc_pack _ (by wd)]; rfl
      have f5 : Spec.enc [(1, 1), (7, h.extension2Data.length)] = packFields [(1, 1), (h.extension2Data.length, 7)] := by
        rw [enc_pack _ (by wd)]; rfl
      rw [f1, f2, f3, f4, f5]
      simp only [List.append_assoc]
    · rw [if_neg hc, if_neg hc]
  rw [e1, e2, e3, e4, e5, e6, e7, e8]
  simp only [List.append_assoc, List.append_nil]

open Astits.PESRT in
theorem optTail_length (h : PESOptionalHeader)
    (hpriv : h.hasExtension = true → h.hasPrivateData = true → h.privateData.length = 16) :
    (optTail h).length % 256 = calcPESOptionalHeaderDataLength h := by
  have l1 := ite_len (c := h.ptsDTSIndicator = 2) (ptsBytes 2 (h.pts.getD default)) 5 (fun _ => ptsBytes_length _ _)
  have l2 := ite_len (c := h.ptsDTSIndicator = 3) (ptsBytes 3 (h.pts.getD default) ++ ptsBytes 1 (h.dts.getD default)) 10
    (fun _ => by simp [ptsBytes_length])
  have l3 := ite_len (c := h.hasESCR = true) (escrBytes (h.escr.getD default)) 6 (fun _ => escrBytes_length _)
  have l4 := ite_len (c := h.hasESRate = true) (packFields [(1, 1), (h.esRate, 22), (1, 1)]) 3
    (fun _ => by simp [packFields_length, fieldsWidth])
  have l5 := ite_len (c := h.hasDSMTrickMode = true) (dsmBytes (h.dsmTrickMode.getD default)) 1 (fun _ => dsmBytes_length _)
  have l6 := ite_len (c := h.hasAdditionalCopyInfo = true) (packFields [(1, 1), (h.additionalCopyInfo, 7)]) 1
    (fun _ => by simp [packFields_length, fieldsWidth])
  have l8 := ite_len (c := h.hasProgramPacketSequenceCounter = true)
    (packFields [(1, 1), (h.packetSequenceCounter, 7), (1, 1), (h.mpeg1OrMPEG2ID, 1), (h.originalStuffingLength, 6)]) 2
    (fun _ => by simp [packFields_length, fieldsWidth])
  have l9 := ite_len (c := h.hasPSTDBuffer = true) (packFields [(1, 2), (h.pstdBufferScale, 1), (h.pstdBufferSize, 13)]) 2
    (fun _ => by simp [packFields_length, fieldsWidth])
  have l10 := ite_len (c := h.hasExtension2 = true) (packFields [(1, 1), (h.extension2Data.length, 7)] ++ h.extension2Data)
    (1 + h.extension2Data.length) (fun _ => by simp [packFields_length, fieldsWidth])
  have le : (packFields [(b2n h.hasPrivateData, 1), (0, 1), (b2n h.hasProgramPacketSequenceCounter, 1),
          (b2n h.hasPSTDBuffer, 1), (7, 3), (b2n h.hasExtension2, 1)]).length = 1 := by simp [packFields_length, fieldsWidth]
  have hnest : (if h.ptsDTSIndicator = 2 then 5 else if h.ptsDTSIndicator = 3 then 10 else 0)
      = (if h.ptsDTSIndicator = 2 then 5 else 0) + (if h.ptsDTSIndicator = 3 then 10 else 0) := by
    by_cases h2 : h.ptsDTSIndicator = 2
    · have : ¬ h.ptsDTSIndicator = 3 := by omega
      simp [h2]
    · simp [h2]
  have hx : (if h.hasExtension2 = true then 1 + h.extension2Data.length % 256 else 0) % 256
      = (if h.hasExtension2 = true then 1 + h.extension2Data.length else 0) % 256 := by
    split <;> omega
  unfold optTail calcPESOptionalHeaderDataLength
  rw [hnest]
  by_cases hext : h.hasExtension = true
  · have l7 := ite_len (c := h.hasPrivateData = true) (bytesN h.privateData 16 0) 16 (fun hc => by
      rw [bytesN_exact _ _ _ (hpriv hext hc)]; exact hpriv hext hc)
    simp only [hext, if_true, List.length_append, l1, l2, l3, l4, l5, l6, l7, l8, l9, l10, le]
    omega
  · have hext' : h.hasExtension = false := by simpa using hext
    simp only [hext', Bool.false_eq_true, if_false, List.length_append, l1, l2, l3, l4, l5, l6, List.length_nil]
    omega

theorem optFlags_eq (h : PESOptionalHeader) (hc : h.hasCRC = false) (n : Nat) :
    Spec.enc [(2, 2), (2, h.scramblingControl), Spec.bit h.priority, Spec.bit h.dataAlignmentIndicator,
        Spec.bit h.isCopyrighted, Spec.bit h.isOriginal, (2, h.ptsDTSIndicator), Spec.bit h.hasESCR, Spec.bit h.hasESRate,
        Spec.bit h.hasDSMTrickMode, Spec.bit h.hasAdditionalCopyInfo, Spec.bit h.hasCRC, Spec.bit h.hasExtension, (8, n)]
    = packFields [(2, 2), (h.scramblingControl, 2), (b2n h.priority, 1), (b2n h.dataAlignmentIndicator, 1),
        (b2n h.isCopyrighted, 1), (b2n h.isOriginal, 1)]
      ++ (packFields [(h.ptsDTSIndicator, 2), (b2n h.hasESCR, 1), (b2n h.hasESRate, 1), (b2n h.hasDSMTrickMode, 1),
        (b2n h.hasAdditionalCopyInfo, 1), (0, 1), (b2n h.hasExtension, 1)]
      ++ [n % 256]) := by
  rw [hc]
  have e := enc_append [(2, 2), (2, h.scramblingControl), Spec.bit h.priority, Spec.bit h.dataAlignmentIndicator,
        Spec.bit h.isCopyrighted, Spec.bit h.isOriginal]
      ([(2, h.ptsDTSIndicator), Spec.bit h.hasESCR, Spec.bit h.hasESRate,
        Spec.bit h.hasDSMTrickMode, Spec.bit h.hasAdditionalCopyInfo, Spec.bit false, Spec.bit h.hasExtension] ++ [(8, n)]) (by wd)
  have e' := enc_append [(2, h.ptsDTSIndicator), Spec.bit h.hasESCR, Spec.bit h.hasESRate,
        Spec.bit h.hasDSMTrickMode, Spec.bit h.hasAdditionalCopyInfo, Spec.bit false, Spec.bit h.hasExtension] [(8, n)] (by wd)
  simp only [List.cons_append, List.nil_append] at e e'
  rw [e, e', enc_byte, enc_pack _ (by wd), enc_pack _ (by wd)]
  rfl

/-- **optional PES header**: `Spec.pesOptionalEncode h 0 = pesOptionalHeaderBytes h` -/
theorem optEncode_eq (h : PESOptionalHeader) (ag : PESOptAgree h) :
    Spec.pesOptionalEncode h 0 = pesOptionalHeaderBytes h := by
  rw [optEncode_shape, optBytes_split, List.replicate_zero, List.append_nil, specData_eq h ag,
    optFlags_eq h ag.noCRC, optTail_length h ag.priv]
  simp only [List.append_assoc]

/-! ### PES packet header -/

theorem pesStart_eq (sid pl : Nat) :
    Spec.enc [(24, 1), (8, sid), (16, pl)] = [0, 0, 1, sid % 256] ++ beBytes 2 pl := by
  have e := enc_append [(24, 1)] ([(8, sid)] ++ [(16, pl)]) (by wd)
  simp only [List.cons_append, List.nil_append] at e
  rw [e, enc_cons_byte, enc_pack [(24, 1)] (by wd), enc_pack [(16, pl)] (by wd)]
  simp only [swapFields, List.map_cons, List.map_nil, packFields, fieldsWidth, fieldsValue, beBytes]
  simp only [Nat.reducePow, Nat.reduceDiv, Nat.pow_zero, Nat.div_one, Nat.pow_one, Nat.zero_mul, Nat.zero_add,
    Nat.reduceMod, List.cons_append, List.nil_append]
  congr 5
  · omega
  · congr 1; omega

/-- PES headers on which the reference encoder and the writer agree, for a payload of `n` bytes: the delivered
PES_packet_length follows the writer's rule (0 for video streams and for lengths above 0xffff, else payload + optional
header), and a stream id that carries an optional header has one (for `nil` the writer emits nothing while the reference
encodes an empty optional header) satisfying `PESOptAgree` -/
structure PESAgree (h : PESHeader) (n : Nat) : Prop where
  len : h.packetLength = pesPacketLengthFor h n
  opt : hasPESOptionalHeader h.streamID = true → ∃ oh, h.optionalHeader = some oh ∧ PESOptAgree oh

/-- **W2**: PES packet = start code prefix, stream id, PES_packet_length, optional header, payload -/
theorem pesEncode_eq (h : PESHeader) (payload : Bytes) (ag : PESAgree h payload.length) :
    Spec.pesEncode h 0 payload = pesHeaderBytes h payload.length ++ payload := by
  unfold Spec.pesEncode pesHeaderBytes
  simp only []
  rw [pesStart_eq, ag.len]
  by_cases hc : hasPESOptionalHeader h.streamID = true
  · obtain ⟨oh, ho, hag⟩ := ag.opt hc
    simp only [hc, if_true, ho, Option.getD_some, optEncode_eq oh hag]
  · simp only [hc, Bool.false_eq_true, if_false]

theorem pesHeader_eq (h : PESHeader) (n : Nat) (ag : PESAgree h n) :
    pesHeaderBytes h n = Spec.pesEncode h 0 [] := by
  unfold Spec.pesEncode pesHeaderBytes
  simp only [List.append_nil]
  rw [pesStart_eq, ag.len]
  by_cases hc : hasPESOptionalHeader h.streamID = true
  · obtain ⟨oh, ho, hag⟩ := ag.opt hc
    simp only [hc, if_true, ho, Option.getD_some, optEncode_eq oh hag]
  · simp only [hc, Bool.false_eq_true, if_false]

/-- the first packet of a PES unit: `writePESData … isPayloadStart = true` emits the first `bytesAvailable` bytes of the
reference PES packet (all of it when it fits) -/
theorem writePESData_first_eq (h : PESHeader) (payload : Bytes) (avail : Nat) (ag : PESAgree h payload.length)
    (hnil : (h.optionalHeader.map pesOptNilDeref).getD false = false)
    (hav : (pesHeaderBytes h payload.length).length ≤ avail) :
    writePESData h payload true (avail : Int) =
      .ok ((Spec.pesEncode h 0 payload).take avail,
           min avail (Spec.pesEncode h 0 payload).length,
           min (avail - (pesHeaderBytes h payload.length).length) payload.length) := by
  rw [pesEncode_eq h payload ag]
  unfold writePESData
  rw [if_neg (by simp [hnil])]
  simp only [if_true]
  rw [if_neg (by omega)]
  have hk : ((avail : Int) - ((pesHeaderBytes h payload.length).length : Int)).toNat
      = avail - (pesHeaderBytes h payload.length).length := by omega
  rw [hk]
  congr 2
  · rw [List.take_append, List.take_of_length_le hav]
    congr 1
    rw [List.take_eq_take_iff]
    omega
  · simp only [List.length_append]
    congr 1
    omega

/-! ### from the predicates of the round-trip theorem `C12.pes_roundtrip` -/

open Astits.PESRT in
theorem optAgree_of_ok (oh : PESOptionalHeader) (ok : PESOptOk oh) : PESOptAgree oh := by
  refine ⟨ok.noCRC.1, fun _ => ok.noPack.1, ?_, ?_, ?_, ?_, ?_⟩
  · intro _ hp
    have := ok.priv
    rwa [if_pos hp] at this
  · intro hi
    have := ok.pts
    rw [if_pos hi] at this
    obtain ⟨b, _, hb⟩ := this
    rw [hb]; exact Int.natCast_nonneg b
  · intro hi
    have := ok.dts
    rw [if_pos hi] at this
    obtain ⟨b, _, hb⟩ := this
    rw [hb]; exact Int.natCast_nonneg b
  · intro hc
    have := ok.escr
    rw [if_pos hc] at this
    obtain ⟨b, e, _, _, hb⟩ := this
    rw [hb]; exact ⟨Int.natCast_nonneg b, Int.natCast_nonneg e⟩
  · intro hc _
    have := ok.dsm
    rw [if_pos hc] at this
    obtain ⟨m, hm, hok⟩ := this
    rw [hm]
    simp only [Option.getD_some]
    unfold DSMOk at hok
    simp only [Bool.and_eq_true, decide_eq_true_eq] at hok
    exact hok.1.1.1.2

open Astits.PESRT in
theorem optNilDeref_of_ok (oh : PESOptionalHeader) (ok : PESOptOk oh) : pesOptNilDeref oh = false := by
  unfold pesOptNilDeref
  have h1 : ((decide (oh.ptsDTSIndicator = 2 ∨ oh.ptsDTSIndicator = 3)) && oh.pts.isNone) = false := by
    by_cases hi : oh.ptsDTSIndicator = 2 ∨ oh.ptsDTSIndicator = 3
    · have := ok.pts
      rw [if_pos hi] at this
      obtain ⟨b, _, hb⟩ := this
      simp [hb]
    · simp [hi]
  have h2 : ((decide (oh.ptsDTSIndicator = 3)) && oh.dts.isNone) = false := by
    by_cases hi : oh.ptsDTSIndicator = 3
    · have := ok.dts
      rw [if_pos hi] at this
      obtain ⟨b, _, hb⟩ := this
      simp [hb]
    · simp [hi]
  have h3 : (oh.hasESCR && oh.escr.isNone) = false := by
    cases hc : oh.hasESCR
    · rfl
    · have := ok.escr
      rw [if_pos hc] at this
      obtain ⟨b, e, _, _, hb⟩ := this
      simp [hb]
  have h4 : (oh.hasDSMTrickMode && oh.dsmTrickMode.isNone) = false := by
    cases hc : oh.hasDSMTrickMode
    · rfl
    · have := ok.dsm
      rw [if_pos hc] at this
      obtain ⟨m, hm, _⟩ := this
      simp [hm]
  rw [h1, h2, h3, h4]; rfl

open Astits.PESRT in
/-- `PESHeaderOk` (the hypothesis of `pes_roundtrip`) + the PES_packet_length rule imply `PESAgree` -/
theorem pesAgree_of_ok (h : PESHeader) (n : Nat) (ok : PESHeaderOk h) (hl : h.packetLength = pesPacketLengthFor h n) :
    PESAgree h n := by
  refine ⟨hl, ?_⟩
  intro hc
  have := ok.optional
  rw [if_pos hc] at this
  obtain ⟨oh, ho, hok⟩ := this
  exact ⟨oh, ho, optAgree_of_ok oh hok⟩

open Astits.PESRT in
theorem pesNilDeref_of_ok (h : PESHeader) (ok : PESHeaderOk h) : (h.optionalHeader.map pesOptNilDeref).getD false = false := by
  have := ok.optional
  by_cases hc : hasPESOptionalHeader h.streamID = true
  · rw [if_pos hc] at this
    obtain ⟨oh, ho, hok⟩ := this
    simp [ho, optNilDeref_of_ok oh hok]
  · rw [if_neg hc] at this
    simp [this]

end Astits.SpecEq
