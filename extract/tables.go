package main

// Package-level variables: which of them are WRITTEN anywhere (the semantic fact behind
// Props/C07 `package_state` and Props/C16 `shared_state`), and the read-only ones among them whose value is
// a composite literal of constants (lookup tables), which pure.go and lengths.go expand at the place of use.
//
// A behaviour-preserving refactoring may introduce a lookup table (`var lengths = [8]uint8{…}`,
// `var ids = map[StreamType]uint8{…}`) where the code had an if ladder or a switch.  Such a table is a
// package-level variable, but it is not package-level STATE as long as nothing writes it; and a function
// that indexes it is still a pure function of its arguments, which the translators can reduce to a
// conditional chain over the index.  Both rest on the same analysis, varsWritten.

import (
	"fmt"
	"go/ast"
	"go/token"
	"sort"
	"strings"
)

// varWrite: one place where a package-level variable is (or may be) modified
type varWrite struct {
	name  string
	where string // enclosing function (or "package level")
	why   string
}

// refTyped: a value of the variable's type refers to memory that a holder of a COPY of the value can
// modify (slice, map, pointer, channel, function, or a type the translator cannot determine).  Arrays,
// structs, basic types and error values made by errors.New / fmt.Errorf are not.
func (p *pkgInfo) refTyped(name string) bool {
	var isRef func(t ast.Expr, depth int) (ref, known bool)
	isRef = func(t ast.Expr, depth int) (bool, bool) {
		if depth > 10 {
			return true, false
		}
		switch t := t.(type) {
		case *ast.ParenExpr:
			return isRef(t.X, depth+1)
		case *ast.ArrayType:
			if t.Len == nil {
				return true, true // slice
			}
			return isRef(t.Elt, depth+1) // an array of slices still shares the elements' memory
		case *ast.MapType, *ast.StarExpr, *ast.ChanType, *ast.FuncType, *ast.InterfaceType:
			return true, true
		case *ast.StructType:
			for _, f := range t.Fields.List {
				if r, k := isRef(f.Type, depth+1); r || !k {
					return true, k
				}
			}
			return false, true
		case *ast.Ident:
			switch t.Name {
			case "bool", "string", "int", "int8", "int16", "int32", "int64", "uint", "uint8", "uint16", "uint32", "uint64",
				"uintptr", "byte", "rune", "float32", "float64", "complex64", "complex128":
				return false, true
			}
			if u, ok := p.types[t.Name]; ok {
				return isRef(u, depth+1)
			}
		case *ast.SelectorExpr:
			if render(t) == "time.Duration" || render(t) == "time.Month" || render(t) == "time.Weekday" {
				return false, true
			}
		}
		return true, false
	}
	if t, ok := p.varTypes[name]; ok && t != nil {
		r, _ := isRef(t, 0)
		return r
	}
	switch v := p.varVal[name].(type) {
	case *ast.CompositeLit:
		if v.Type != nil {
			r, _ := isRef(v.Type, 0)
			return r
		}
	case *ast.BasicLit:
		return false
	case *ast.CallExpr:
		switch render(v.Fun) {
		case "errors.New", "fmt.Errorf":
			return false // an error value: immutable
		}
		if id, ok := v.Fun.(*ast.Ident); ok && len(v.Args) == 1 { // conversion T(x)
			if r, k := isRef(id, 0); k {
				return r
			}
		}
	}
	return true
}

// varTypeName: the name of the package's type T if the variable is declared as T, *T, T{…}, &T{…} or new(T)
func (p *pkgInfo) varTypeName(name string) string {
	named := func(t ast.Expr) string {
		if s, ok := t.(*ast.StarExpr); ok {
			t = s.X
		}
		if id, ok := t.(*ast.Ident); ok {
			if _, declared := p.types[id.Name]; declared {
				return id.Name
			}
		}
		return ""
	}
	if t, ok := p.varTypes[name]; ok && t != nil {
		return named(t)
	}
	v := p.varVal[name]
	if u, ok := v.(*ast.UnaryExpr); ok && u.Op == token.AND {
		v = u.X
	}
	switch v := v.(type) {
	case *ast.CompositeLit:
		if v.Type != nil {
			return named(v.Type)
		}
	case *ast.CallExpr:
		if id, ok := v.Fun.(*ast.Ident); ok && id.Name == "new" && len(v.Args) == 1 {
			return named(v.Args[0])
		}
	}
	return ""
}

// varsWritten lists the uses of package-level variables, anywhere in the package outside the variable's own
// declaration, that modify the variable or may let somebody else modify it:
//
//   - the variable, an element, a field or a pointee of it is assigned (=, op=, ++, --, range … =),
//   - its address, or the address of an element or field, is taken,
//   - it is the destination of append / copy, or the argument of delete / clear,
//   - a method is called on it (or on a field of it) that is not a VALUE-receiver method of a type of
//     this package (so: pointer-receiver methods, and methods of types the translator does not know),
//   - it is sliced, or (for variables of reference type, see refTyped) the value itself is used in any way
//     other than being indexed, ranged over, measured (len, cap), compared, or having a field selected
//     — assigned to something else, passed to a function, returned, stored in a literal, …
//
// Identifiers are matched through the parser's scopes: a local variable, parameter or field with the name of a
// package-level variable is not the package-level variable.
func (p *pkgInfo) varsWritten() []varWrite {
	if p.written != nil {
		return p.written
	}
	pkgVar := map[string]bool{}
	for _, n := range p.vars {
		pkgVar[n] = true
	}
	out := []varWrite{}
	fnames := make([]string, 0, len(p.files))
	for n := range p.files {
		fnames = append(fnames, n)
	}
	sort.Strings(fnames)
	for _, fname := range fnames {
		f := p.files[fname]
		var stack []ast.Node
		where := func() string {
			for _, n := range stack {
				if fd, ok := n.(*ast.FuncDecl); ok {
					for k, d := range p.funcs {
						if d == fd {
							return k
						}
					}
					return fd.Name.Name
				}
			}
			return "package level"
		}
		ast.Inspect(f, func(n ast.Node) bool {
			if n == nil {
				stack = stack[:len(stack)-1]
				return true
			}
			stack = append(stack, n)
			id, ok := n.(*ast.Ident)
			if !ok || !pkgVar[id.Name] {
				return true
			}
			// the package-level variable, not a local / parameter / field of the same name
			if id.Obj != nil {
				vs, isSpec := id.Obj.Decl.(*ast.ValueSpec)
				if !isSpec || !p.pkgSpecs[vs] {
					return true
				}
			}
			k := len(stack) - 1
			switch pn := stack[k-1].(type) {
			case *ast.ValueSpec:
				for _, nm := range pn.Names {
					if nm == id {
						return true // the declaration itself
					}
				}
			case *ast.SelectorExpr:
				if pn.Sel == id {
					return true // x.name
				}
			case *ast.KeyValueExpr:
				if pn.Key == id {
					if _, inLit := stack[k-2].(*ast.CompositeLit); inLit && id.Obj == nil {
						return true // a field name in a struct literal
					}
				}
			}
			// climb the access path: (x), x[i], x.f, *x, x[a:b]
			depth, alias, viaField := 0, false, false
			var method string
			for k > 0 {
				up := false
				switch pn := stack[k-1].(type) {
				case *ast.ParenExpr:
					up = true
				case *ast.IndexExpr:
					up = pn.X == stack[k]
					if up {
						depth++
					}
				case *ast.StarExpr:
					up = true
					depth++
				case *ast.SliceExpr:
					up = pn.X == stack[k]
					alias = alias || up
				case *ast.SelectorExpr:
					up = pn.X == stack[k]
					if up {
						// x.m(…): a method call, not a field
						if ce, isCall := stack[k-2].(*ast.CallExpr); k >= 2 && isCall && ce.Fun == pn {
							method = pn.Sel.Name
							viaField = depth > 0
						} else {
							depth++
						}
					}
				}
				if !up {
					break
				}
				k--
				if method != "" {
					break
				}
			}
			cur := stack[k]
			add := func(why string) { out = append(out, varWrite{id.Name, where(), why}) }
			if method != "" {
				// a value-receiver method of a type of the package only sees a copy
				if tn := p.varTypeName(id.Name); tn != "" && !viaField {
					if fd, ok := p.funcs[tn+"."+method]; ok && fd.Recv != nil && len(fd.Recv.List) == 1 {
						if _, ptr := fd.Recv.List[0].Type.(*ast.StarExpr); !ptr {
							return true
						}
						add("pointer-receiver method " + method + " called")
						return true
					}
				}
				if method == "Error" && !p.refTyped(id.Name) {
					return true
				}
				add("method " + method + " called (not a value-receiver method of a type of the package)")
				return true
			}
			what := "assigned"
			if depth > 0 {
				what = "element, field or pointee assigned"
			}
			readOnly := false
			switch pn := stack[k-1].(type) {
			case *ast.AssignStmt:
				for _, l := range pn.Lhs {
					if l == cur {
						add(what)
						return true
					}
				}
				// v, ok := m[k] / v := t[i]: an element is read
				readOnly = depth > 0 && !alias
			case *ast.IncDecStmt:
				add(what)
				return true
			case *ast.UnaryExpr:
				if pn.Op == token.AND {
					add("address taken")
					return true
				}
				readOnly = true
			case *ast.RangeStmt:
				if pn.Key == cur || pn.Value == cur {
					add(what)
					return true
				}
				readOnly = pn.X == cur
			case *ast.CallExpr:
				fn := render(pn.Fun)
				if len(pn.Args) > 0 && pn.Args[0] == cur {
					switch fn {
					case "append", "copy":
						add("destination of " + fn)
						return true
					case "delete", "clear":
						add("argument of " + fn)
						return true
					}
				}
				readOnly = fn == "len" || fn == "cap" || byteReaders[fn]
			case *ast.BinaryExpr:
				readOnly = true
			case *ast.IndexExpr:
				readOnly = pn.Index == cur // used as an index: a scalar
			}
			if readOnly {
				return true
			}
			if alias {
				add("sliced (the slice aliases the variable)")
				return true
			}
			if depth == 0 && p.refTyped(id.Name) {
				add(fmt.Sprintf("value of reference type used in %T", stack[k-1]))
			}
			return true
		})
	}
	p.written = out
	return out
}

// writtenNames: the sorted set of the names in varsWritten
func (p *pkgInfo) writtenNames() []string {
	seen := map[string]bool{}
	out := []string{}
	for _, w := range p.varsWritten() {
		if !seen[w.name] {
			seen[w.name] = true
			out = append(out, w.name)
		}
	}
	sort.Strings(out)
	return out
}

// ---- lookup tables ----

// constTable: a package-level variable that is never written and whose value is an array, slice or map
// composite literal.  The element expressions are left to the translator that uses the table.
type constTable struct {
	name     string
	kind     string     // "array" | "slice" | "map"
	elemType ast.Expr   // element / value type
	elems    []ast.Expr // array, slice: one entry per index; nil: the zero value
	keys     []int64    // map: the keys (integer constants), in source order
	vals     []ast.Expr // map: the values
}

// maximal length of a table that is expanded into a conditional chain
const maxTableLen = 256

// table returns the lookup table of that name; ok=false if there is no package-level variable of that name
// (the caller reports its own error); everything else that is wrong with it is fatal.
func (p *pkgInfo) table(pos token.Pos, name string) (*constTable, bool) {
	if t, ok := p.tables[name]; ok {
		return t, true
	}
	v, ok := p.varVal[name]
	if !ok {
		return nil, false
	}
	fail := func(format string, a ...interface{}) {
		die("%s: lookup in the package-level variable %s: %s", fset.Position(pos), name, fmt.Sprintf(format, a...))
	}
	for _, w := range p.varsWritten() {
		if w.name == name {
			fail("it is not read-only (%s: %s)", w.where, w.why)
		}
	}
	cl, isLit := v.(*ast.CompositeLit)
	if !isLit || cl.Type == nil {
		fail("its value is not a composite literal")
	}
	t := &constTable{name: name}
	switch ty := cl.Type.(type) {
	case *ast.MapType:
		t.kind, t.elemType = "map", ty.Value
		seen := map[int64]bool{}
		for _, e := range cl.Elts {
			kv, ok := e.(*ast.KeyValueExpr)
			if !ok {
				fail("map element without a key")
			}
			k, ok := p.evalConst(kv.Key, 0)
			if !ok {
				fail("the key %s is not an integer constant", render(kv.Key))
			}
			if seen[k] {
				fail("duplicate key %s", render(kv.Key))
			}
			seen[k] = true
			t.keys, t.vals = append(t.keys, k), append(t.vals, kv.Value)
		}
	case *ast.ArrayType:
		t.kind, t.elemType = "array", ty.Elt
		n := int64(-1) // [...]T and []T: the largest index + 1
		if ty.Len == nil {
			t.kind = "slice"
		} else if _, dots := ty.Len.(*ast.Ellipsis); !dots {
			l, ok := p.evalConst(ty.Len, 0)
			if !ok || l < 0 {
				fail("the array length %s is not a constant", render(ty.Len))
			}
			n = l
		}
		at := map[int64]ast.Expr{}
		next, max := int64(0), int64(0)
		for _, e := range cl.Elts {
			val := e
			if kv, ok := e.(*ast.KeyValueExpr); ok {
				k, ok := p.evalConst(kv.Key, 0)
				if !ok || k < 0 {
					fail("the index %s is not a non-negative integer constant", render(kv.Key))
				}
				next, val = k, kv.Value
			}
			if _, dup := at[next]; dup {
				fail("duplicate index %d", next)
			}
			at[next] = val
			next++
			if next > max {
				max = next
			}
		}
		if n < 0 {
			n = max
		}
		if max > n {
			fail("index out of range in the literal")
		}
		if n > maxTableLen {
			fail("%d elements (at most %d are expanded)", n, maxTableLen)
		}
		t.elems = make([]ast.Expr, n)
		for i, e := range at {
			t.elems[i] = e
		}
	default:
		fail("its type %s is not an array, slice or map type", render(cl.Type))
	}
	if len(t.keys) > maxTableLen {
		fail("%d elements (at most %d are expanded)", len(t.keys), maxTableLen)
	}
	p.tables[name] = t
	return t, true
}

// mentions: the identifier occurs in the rendered expression
func mentions(rendered, ident string) bool {
	for i := 0; ; {
		j := strings.Index(rendered[i:], ident)
		if j < 0 {
			return false
		}
		j += i
		isIdent := func(c byte) bool {
			return c == '_' || (c >= '0' && c <= '9') || (c >= 'a' && c <= 'z') || (c >= 'A' && c <= 'Z')
		}
		before := j == 0 || !isIdent(rendered[j-1])
		after := j+len(ident) == len(rendered) || !isIdent(rendered[j+len(ident)])
		if before && after {
			return true
		}
		i = j + 1
	}
}
