package main

import (
	"bytes"
	"fmt"
	"go/ast"
	"go/printer"
	"go/token"
	"path/filepath"
	"sort"
	"strings"
)

func render(n ast.Node) string {
	var b bytes.Buffer
	printer.Fprint(&b, fset, n)
	return b.String()
}

// fn describes one whitelisted pure function: Lean signature and the substitution of Go
// sub-expressions (rendered source text) by Lean parameter names.
type fn struct {
	goName string
	lean   string            // Lean name
	params string            // Lean binder list
	ret    string            // Lean result type
	subst  map[string]string // Go source text -> Lean term
}

// body translates `return e`, `if c { return e }` guards and `switch x { case ...: return e }`.
func (t *tr) body(name string, stmts []ast.Stmt) string {
	if len(stmts) == 0 {
		die("%s: falls off the end", name)
	}
	switch s := stmts[0].(type) {
	case *ast.ReturnStmt:
		if len(s.Results) != 1 {
			die("%s: unsupported return", name)
		}
		return t.xexpr(s.Results[0])
	case *ast.AssignStmt:
		// `l := len(ps)`-style definition whose name is pre-bound: check nothing, skip
		if len(s.Lhs) == 1 && s.Tok == token.DEFINE {
			if id, ok := s.Lhs[0].(*ast.Ident); ok {
				if _, pre := t.subst[id.Name]; pre {
					if want, ok := t.subst["="+id.Name]; ok && want != render(s.Rhs[0]) {
						die("%s: %s is defined as %s, expected %s", name, id.Name, render(s.Rhs[0]), want)
					}
					return t.body(name, stmts[1:])
				}
			}
		}
		die("%s: unsupported assignment %s", name, render(s))
	case *ast.IfStmt:
		if s.Init != nil || s.Else != nil {
			die("%s: unsupported if", name)
		}
		return "(if " + t.xexpr(s.Cond) + " then " + t.body(name, s.Body.List) + " else " + t.body(name, stmts[1:]) + ")"
	case *ast.SwitchStmt:
		if s.Init != nil {
			die("%s: unsupported switch", name)
		}
		rest := "?"
		if len(stmts) > 1 {
			rest = t.body(name, stmts[1:])
		}
		out := ""
		closers := ""
		var dflt string
		for _, c := range s.Body.List {
			cc := c.(*ast.CaseClause)
			if cc.List == nil {
				dflt = t.body(name, cc.Body)
				continue
			}
			var conds []string
			for _, e := range cc.List {
				if s.Tag != nil {
					conds = append(conds, "("+t.xexpr(s.Tag)+" == "+t.xexpr(e)+")")
				} else {
					conds = append(conds, t.xexpr(e))
				}
			}
			out += "(if " + strings.Join(conds, " || ") + " then " + t.body(name, cc.Body) + " else "
			closers += ")"
		}
		if dflt != "" {
			rest = dflt
		}
		if rest == "?" {
			die("%s: switch without default falls off the end", name)
		}
		return out + rest + closers
	}
	die("%s: unsupported statement %T", name, stmts[0])
	return ""
}

// xexpr: substitution by rendered source text first, then structural translation
func (t *tr) xexpr(e ast.Expr) string {
	if r, ok := t.subst[render(e)]; ok {
		return r
	}
	switch e := e.(type) {
	case *ast.ParenExpr:
		return "(" + t.xexpr(e.X) + ")"
	case *ast.UnaryExpr:
		if e.Op == token.NOT {
			return "(!" + t.xexpr(e.X) + ")"
		}
	case *ast.CallExpr:
		if id, ok := e.Fun.(*ast.Ident); ok && len(e.Args) == 1 {
			switch id.Name {
			case "uint8", "uint16", "uint32", "uint64", "int", "int64", "PSITableID", "byte":
				return t.xexpr(e.Args[0])
			}
		}
	case *ast.BinaryExpr:
		a, b := t.xexpr(e.X), t.xexpr(e.Y)
		ops := map[token.Token]string{token.SHL: "<<<", token.SHR: ">>>", token.XOR: "^^^", token.AND: "&&&", token.OR: "|||",
			token.ADD: "+", token.SUB: "-", token.MUL: "*", token.REM: "%", token.QUO: "/", token.LAND: "&&", token.LOR: "||",
			token.EQL: "==", token.NEQ: "!="}
		if op, ok := ops[e.Op]; ok {
			return "(" + a + " " + op + " " + b + ")"
		}
		cmp := map[token.Token]string{token.LSS: "<", token.GTR: ">", token.LEQ: "≤", token.GEQ: "≥"}
		if op, ok := cmp[e.Op]; ok {
			return "(decide (" + a + " " + op + " " + b + "))"
		}
	}
	return t.expr(e)
}

var fns = []fn{
	{"hasDiscontinuity", "hasDiscontinuity", "(l : Nat) (pHasAF pDI pHasPayload : Bool) (pCC lastCC : Nat)", "Bool",
		map[string]string{"l": "l", "=l": "len(ps)", "p.Header.HasAdaptationField": "pHasAF", "p.AdaptationField.DiscontinuityIndicator": "pDI",
			"p.Header.HasPayload": "pHasPayload", "p.Header.ContinuityCounter": "pCC", "ps[l-1].Header.ContinuityCounter": "lastCC"}},
	{"isSameAsPrevious", "isSameAsPrevious", "(l : Nat) (pHasPayload : Bool) (pCC lastCC : Nat)", "Bool",
		map[string]string{"l": "l", "=l": "len(ps)", "p.Header.HasPayload": "pHasPayload", "p.Header.ContinuityCounter": "pCC",
			"ps[l-1].Header.ContinuityCounter": "lastCC"}},
	{"isPSIPayload", "isPSIPayload", "(pid : Nat) (inProgramMap : Bool)", "Bool",
		map[string]string{"pid": "pid", "pm.existsUnlocked(pid)": "inProgramMap"}},
	{"isPESPayload", "isPESPayload", "(len b0 b1 b2 : Nat)", "Bool",
		map[string]string{"len(i)": "len", "i[0]": "b0", "i[1]": "b1", "i[2]": "b2"}},
	{"hasPESOptionalHeader", "hasPESOptionalHeader", "(streamID : Nat)", "Bool", map[string]string{"streamID": "streamID"}},
	{"PESHeader.IsVideoStream", "isVideoStream", "(streamID : Nat)", "Bool", map[string]string{"h.StreamID": "streamID"}},
	{"PSITableID.isUnknown", "isUnknown", "(t : Nat)", "Bool", map[string]string{"t": "t"}},
	{"PSITableID.hasPSISyntaxHeader", "hasPSISyntaxHeader", "(t : Nat)", "Bool", map[string]string{"t": "t"}},
	{"PSITableID.hasCRC32", "hasCRC32", "(t : Nat)", "Bool", map[string]string{"t": "t"}},
	{"shouldStopPSIParsing", "shouldStopPSIParsing", "(tableID : Nat)", "Bool",
		map[string]string{"tableID": "tableID", "tableID.isUnknown()": "(isUnknown tableID)"}},
	{"parseDVBDurationByte", "parseDVBDurationByte", "(i : Nat)", "Nat", map[string]string{"i": "i", "time.Duration(uint8(i)>>4*10 + uint8(i)&0xf)": ""}},
	{"dvbDurationByteRepresentation", "dvbDurationByteRepresentation", "(n : Nat)", "Nat", map[string]string{"n": "n"}},
	{"StreamType.ToPESStreamID", "toPESStreamID", "(t : Nat)", "Nat", map[string]string{"t": "t"}},
}

func emitExprsAndFacts(p *pkgInfo, out string) map[string]interface{} {
	var b strings.Builder
	b.WriteString("-- REGENERATED by /verif/extract: pure predicates of /repo translated expression by expression. Do not edit.\nnamespace Astits.Generated\n\n")
	for _, f := range fns {
		fd, ok := p.funcs[f.goName]
		if !ok {
			die("function %s not found", f.goName)
		}
		t := &tr{p: p, mode: "nat", subst: map[string]string{}}
		for k, v := range f.subst {
			if v != "" {
				t.subst[k] = v
			}
		}
		var body string
		if f.goName == "parseDVBDurationByte" {
			// return time.Duration(<expr>): strip the conversion to the named type
			rs, ok := fd.Body.List[0].(*ast.ReturnStmt)
			if !ok || len(fd.Body.List) != 1 {
				die("parseDVBDurationByte: unexpected shape")
			}
			ce, ok := rs.Results[0].(*ast.CallExpr)
			if !ok || render(ce.Fun) != "time.Duration" || len(ce.Args) != 1 {
				die("parseDVBDurationByte: unexpected return")
			}
			body = t.xexpr(ce.Args[0])
		} else {
			body = t.body(f.goName, fd.Body.List)
		}
		fmt.Fprintf(&b, "/-- %s -/\ndef %s %s : %s :=\n  %s\n\n", f.goName, f.lean, f.params, f.ret, body)
	}
	b.WriteString("end Astits.Generated\n")
	write(filepath.Join(out, "Exprs.lean"), b.String())

	facts := map[string]interface{}{}
	var fb strings.Builder
	fb.WriteString("-- REGENERATED by /verif/extract: structural facts about /repo's source. Do not edit.\nnamespace Astits.Generated.Facts\n\n")

	// 1. package-level variables
	fmt.Fprintf(&fb, "def packageVars : List String := %s\n\n", leanStrList(p.vars))
	facts["packageVars"] = p.vars

	// 2. order of the tests in packetAccumulator.add
	order := addOrder(p)
	fmt.Fprintf(&fb, "def accumulatorAddOrder : List String := %s\n\n", leanStrList(order))
	facts["accumulatorAddOrder"] = order

	// 3. NextBytesNoCopy results: how each is used
	stored := noCopyStored(p)
	fmt.Fprintf(&fb, "/-- NextBytesNoCopy call sites whose result escapes (is stored, appended, returned or passed on) -/\ndef noCopyEscapes : List String := %s\n\n", leanStrList(stored))
	facts["noCopyEscapes"] = stored

	// 4. functions using a BitsWriterBatch: return statements whose error result is the literal nil
	nilrets := batchNilReturns(p)
	fmt.Fprintf(&fb, "/-- `return …, nil` statements inside functions that write through a BitsWriterBatch, with the number of batch writes before them -/\ndef batchNilReturns : List String := %s\n\n", leanStrList(nilrets))
	facts["batchNilReturns"] = nilrets

	// 5. direct, unchecked io.Writer calls (m.w.Write) must have their error returned
	fb.WriteString("end Astits.Generated.Facts\n")
	write(filepath.Join(out, "Facts.lean"), fb.String())
	return facts
}

func leanStrList(xs []string) string {
	q := make([]string, len(xs))
	for i, x := range xs {
		q[i] = "\"" + strings.ReplaceAll(x, "\"", "'") + "\""
	}
	return "[" + strings.Join(q, ", ") + "]"
}

func addOrder(p *pkgInfo) []string {
	fd := p.funcs["packetAccumulator.add"]
	if fd == nil {
		die("packetAccumulator.add not found")
	}
	type hit struct {
		pos  token.Pos
		what string
	}
	var hits []hit
	ast.Inspect(fd.Body, func(n ast.Node) bool {
		switch x := n.(type) {
		case *ast.IfStmt:
			c := render(x.Cond)
			for _, k := range []string{"hasDiscontinuity(", "isSameAsPrevious(", "p.Header.PayloadUnitStartIndicator", "isPSIComplete("} {
				if strings.Contains(c, k) {
					hits = append(hits, hit{x.Pos(), strings.TrimSuffix(k, "(")})
				}
			}
		}
		return true
	})
	sort.Slice(hits, func(i, j int) bool { return hits[i].pos < hits[j].pos })
	var out []string
	for _, h := range hits {
		out = append(out, h.what)
	}
	return out
}

// noCopyStored lists NextBytesNoCopy call sites whose result variable is used in any way other
// than indexing (bs[k]), len(), or as the argument of a pure reader (binary.BigEndian.Uint16,
// computeCRC32).
func noCopyStored(p *pkgInfo) []string {
	var out []string
	names := make([]string, 0, len(p.funcs))
	for n := range p.funcs {
		names = append(names, n)
	}
	sort.Strings(names)
	for _, fname := range names {
		fd := p.funcs[fname]
		if fd.Body == nil {
			continue
		}
		vars := map[string]bool{}
		ast.Inspect(fd.Body, func(n ast.Node) bool {
			if as, ok := n.(*ast.AssignStmt); ok && len(as.Rhs) == 1 {
				if strings.Contains(render(as.Rhs[0]), ".NextBytesNoCopy(") {
					if id, ok := as.Lhs[0].(*ast.Ident); ok {
						vars[id.Name] = true
					} else {
						out = append(out, fname+": result assigned to "+render(as.Lhs[0]))
					}
				}
			}
			return true
		})
		if len(vars) == 0 {
			continue
		}
		var stack []ast.Node
		ast.Inspect(fd.Body, func(n ast.Node) bool {
			if n == nil {
				stack = stack[:len(stack)-1]
				return true
			}
			if id, ok := n.(*ast.Ident); ok && vars[id.Name] {
				parent := stack[len(stack)-1]
				okUse := false
				switch pn := parent.(type) {
				case *ast.IndexExpr:
					okUse = pn.X == n
				case *ast.AssignStmt:
					for _, l := range pn.Lhs {
						if l == n {
							okUse = true
						}
					}
				case *ast.ValueSpec:
					okUse = true
				case *ast.CallExpr:
					f := render(pn.Fun)
					okUse = f == "binary.BigEndian.Uint16" || f == "computeCRC32" || f == "len"
				}
				if !okUse {
					out = append(out, fmt.Sprintf("%s: %s used in %s", fname, id.Name, strings.SplitN(render(parent), "\n", 2)[0]))
				}
			}
			stack = append(stack, n)
			return true
		})
	}
	return out
}

func batchNilReturns(p *pkgInfo) []string {
	var out []string
	names := make([]string, 0, len(p.funcs))
	for n := range p.funcs {
		names = append(names, n)
	}
	sort.Strings(names)
	for _, fname := range names {
		fd := p.funcs[fname]
		if fd.Body == nil || !strings.Contains(render(fd.Body), "NewBitsWriterBatch(") {
			continue
		}
		batchPos := token.NoPos
		writes := []token.Pos{}
		ast.Inspect(fd.Body, func(n ast.Node) bool {
			if ce, ok := n.(*ast.CallExpr); ok {
				f := render(ce.Fun)
				if f == "astikit.NewBitsWriterBatch" && batchPos == token.NoPos {
					batchPos = ce.Pos()
				}
				if f == "b.Write" || f == "b.WriteN" || f == "b.WriteBytesN" {
					writes = append(writes, ce.Pos())
				}
			}
			return true
		})
		ast.Inspect(fd.Body, func(n ast.Node) bool {
			if rs, ok := n.(*ast.ReturnStmt); ok && len(rs.Results) > 0 {
				last := render(rs.Results[len(rs.Results)-1])
				if last == "nil" && rs.Pos() > batchPos {
					k := 0
					for _, w := range writes {
						if w < rs.Pos() {
							k++
						}
					}
					out = append(out, fmt.Sprintf("%s: return %s after %d batch writes", fname, render(rs.Results[0]), k))
				}
			}
			return true
		})
	}
	return out
}
