package main

import (
	"bytes"
	"fmt"
	"go/ast"
	"go/printer"
	"go/token"
	"path/filepath"
	"sort"
	"strconv"
	"strings"
)

func render(n ast.Node) string {
	var b bytes.Buffer
	printer.Fprint(&b, fset, n)
	return b.String()
}

// fn describes one whitelisted pure function: its Lean signature and how the Go expressions that
// denote its inputs are named in Lean.
//
// params are the CANONICAL names of the receiver (if any) and the parameters, in order: the names
// used in the keys of subst.  The names in the source are taken from the AST and renamed to these, so
// renaming a parameter in /repo changes nothing here.  The keys of subst are canonical renderings
// (canon in pure.go) of expressions over the canonical names, after locals have been replaced by
// their definitions: `l := len(ps) … ps[l-1].Header.ContinuityCounter` and
// `last := ps[len(ps)-1] … last.Header.ContinuityCounter` both give the key
// `ps[(len(ps)-1)].Header.ContinuityCounter`.  A call whose rendering is a key is opaque (an input
// of the Lean function); every other call of a package function is inlined.
type fn struct {
	goName  string
	lean    string            // Lean name
	params  []string          // canonical receiver / parameter names
	binders string            // Lean binder list
	ret     string            // Lean result type
	subst   map[string]string // canonical Go expression -> Lean term
}

// tr translates a reduced expression (pure.go) to a Lean term over Nat / Bool: integers are Nat (all
// operands in the whitelisted functions are unsigned and the results are re-masked by the model;
// widths are handled in the Lean tie lemmas), conversions between integer types are the identity.
type tr struct {
	p     *pkgInfo
	subst map[string]string
}

var natOps = map[token.Token]string{token.SHL: "<<<", token.SHR: ">>>", token.XOR: "^^^", token.AND: "&&&", token.OR: "|||",
	token.ADD: "+", token.SUB: "-", token.MUL: "*", token.REM: "%", token.QUO: "/", token.LAND: "&&", token.LOR: "||",
	token.EQL: "==", token.NEQ: "!="}

var natCmp = map[token.Token]string{token.LSS: "<", token.GTR: ">", token.LEQ: "≤", token.GEQ: "≥"}

// xexpr: substitution by canonical source text first, then structural translation
func (t *tr) xexpr(e ast.Expr) string {
	if r, ok := t.subst[canon(e)]; ok {
		return r
	}
	switch e := e.(type) {
	case *ast.ParenExpr:
		return t.xexpr(e.X)
	case *ast.BasicLit:
		if v, ok := t.p.evalConst(e, 0); ok {
			return fmt.Sprintf("%d", v)
		}
		die("untranslatable literal %s", e.Value)
	case *ast.Ident:
		if e.Name == "true" || e.Name == "false" {
			return e.Name
		}
		if v, ok := t.p.evalConst(e, 0); ok {
			return fmt.Sprintf("%d", v)
		}
		die("unknown identifier %s at %s", e.Name, fset.Position(e.Pos()))
	case *ast.UnaryExpr:
		if e.Op == token.NOT {
			return "(!" + t.xexpr(e.X) + ")"
		}
	case *ast.CallExpr:
		if c, a, b, ok := isIte(e); ok {
			return "(if " + t.xexpr(c) + " then " + t.xexpr(a) + " else " + t.xexpr(b) + ")"
		}
		if len(e.Args) == 1 {
			// conversion of an operand that already fits: the identity in the model domain
			f := canon(e.Fun)
			_, named := t.p.types[f]
			if basicConversions[f] || named || f == "time.Duration" {
				return t.xexpr(e.Args[0])
			}
		}
	case *ast.BinaryExpr:
		if (e.Op == token.EQL || e.Op == token.NEQ) && (t.stringy(e.X) || t.stringy(e.Y)) {
			r := t.strEq(e.X, e.Y)
			if e.Op == token.NEQ {
				r = "(!" + r + ")"
			}
			return r
		}
		a, b := t.xexpr(e.X), t.xexpr(e.Y)
		if op, ok := natOps[e.Op]; ok {
			return "(" + a + " " + op + " " + b + ")"
		}
		if op, ok := natCmp[e.Op]; ok {
			return "(decide (" + a + " " + op + " " + b + "))"
		}
	}
	die("untranslatable expression %s at %s", canon(e), fset.Position(e.Pos()))
	return ""
}

// strConst: the value of a string constant expression (a literal, a string constant of the package, a
// concatenation of these)
func (p *pkgInfo) strConst(e ast.Expr, depth int) (string, bool) {
	if depth > 20 {
		return "", false
	}
	switch e := e.(type) {
	case *ast.ParenExpr:
		return p.strConst(e.X, depth+1)
	case *ast.BasicLit:
		if e.Kind == token.STRING {
			if s, err := strconv.Unquote(e.Value); err == nil {
				return s, true
			}
		}
	case *ast.Ident:
		if c, ok := p.consts[e.Name]; ok {
			return p.strConst(c, depth+1)
		}
	case *ast.BinaryExpr:
		if e.Op == token.ADD {
			a, ok1 := p.strConst(e.X, depth+1)
			b, ok2 := p.strConst(e.Y, depth+1)
			return a + b, ok1 && ok2
		}
	}
	return "", false
}

// stringy: a string constant, or a conditional whose branches are stringy (what a function like
// PSITableID.Type() reduces to)
func (t *tr) stringy(e ast.Expr) bool {
	if _, ok := t.p.strConst(e, 0); ok {
		return true
	}
	switch e := e.(type) {
	case *ast.ParenExpr:
		return t.stringy(e.X)
	case *ast.CallExpr:
		if _, a, b, ok := isIte(e); ok {
			return t.stringy(a) && t.stringy(b)
		}
	}
	return false
}

// strEq translates a == b on stringy operands: the comparison is pushed through the conditionals down to the
// constants, where it is decided here.  The Lean term contains no strings: `t.Type() == "Unknown"` becomes a
// conditional over the tests of Type() with leaves true / false.
func (t *tr) strEq(a, b ast.Expr) string {
	for {
		if p, ok := a.(*ast.ParenExpr); ok {
			a = p.X
		} else if p, ok := b.(*ast.ParenExpr); ok {
			b = p.X
		} else {
			break
		}
	}
	if c, x, y, ok := isIte(a); ok {
		return "(if " + t.xexpr(c) + " then " + t.strEq(x, b) + " else " + t.strEq(y, b) + ")"
	}
	if c, x, y, ok := isIte(b); ok {
		return "(if " + t.xexpr(c) + " then " + t.strEq(a, x) + " else " + t.strEq(a, y) + ")"
	}
	u, ok1 := t.p.strConst(a, 0)
	v, ok2 := t.p.strConst(b, 0)
	if !ok1 || !ok2 {
		die("untranslatable string comparison %s == %s at %s", canon(a), canon(b), fset.Position(a.Pos()))
	}
	if u == v {
		return "true"
	}
	return "false"
}

var fns = []fn{
	{"hasDiscontinuity", "hasDiscontinuity", []string{"ps", "p"}, "(l : Nat) (pHasAF pDI pHasPayload : Bool) (pCC lastCC : Nat)", "Bool",
		map[string]string{"len(ps)": "l", "p.Header.HasAdaptationField": "pHasAF", "p.AdaptationField.DiscontinuityIndicator": "pDI",
			"p.Header.HasPayload": "pHasPayload", "p.Header.ContinuityCounter": "pCC", "ps[(len(ps)-1)].Header.ContinuityCounter": "lastCC"}},
	{"isSameAsPrevious", "isSameAsPrevious", []string{"ps", "p"}, "(l : Nat) (pHasPayload : Bool) (pCC lastCC : Nat)", "Bool",
		map[string]string{"len(ps)": "l", "p.Header.HasPayload": "pHasPayload", "p.Header.ContinuityCounter": "pCC",
			"ps[(len(ps)-1)].Header.ContinuityCounter": "lastCC"}},
	{"isPSIPayload", "isPSIPayload", []string{"pid", "pm"}, "(pid : Nat) (inProgramMap : Bool)", "Bool",
		map[string]string{"pid": "pid", "pm.existsUnlocked(pid)": "inProgramMap"}},
	{"isPESPayload", "isPESPayload", []string{"i"}, "(len b0 b1 b2 : Nat)", "Bool",
		map[string]string{"len(i)": "len", "i[0]": "b0", "i[1]": "b1", "i[2]": "b2"}},
	{"hasPESOptionalHeader", "hasPESOptionalHeader", []string{"streamID"}, "(streamID : Nat)", "Bool", map[string]string{"streamID": "streamID"}},
	{"PESHeader.IsVideoStream", "isVideoStream", []string{"h"}, "(streamID : Nat)", "Bool", map[string]string{"h.StreamID": "streamID"}},
	{"PSITableID.isUnknown", "isUnknown", []string{"t"}, "(t : Nat)", "Bool", map[string]string{"t": "t"}},
	{"PSITableID.hasPSISyntaxHeader", "hasPSISyntaxHeader", []string{"t"}, "(t : Nat)", "Bool", map[string]string{"t": "t"}},
	{"PSITableID.hasCRC32", "hasCRC32", []string{"t"}, "(t : Nat)", "Bool", map[string]string{"t": "t"}},
	{"shouldStopPSIParsing", "shouldStopPSIParsing", []string{"tableID"}, "(tableID : Nat)", "Bool", map[string]string{"tableID": "tableID"}},
	{"parseDVBDurationByte", "parseDVBDurationByte", []string{"i"}, "(i : Nat)", "Nat", map[string]string{"i": "i"}},
	{"dvbDurationByteRepresentation", "dvbDurationByteRepresentation", []string{"n"}, "(n : Nat)", "Nat", map[string]string{"n": "n"}},
	{"StreamType.ToPESStreamID", "toPESStreamID", []string{"t"}, "(t : Nat)", "Nat", map[string]string{"t": "t"}},
}

// pureExpr reduces the function to one expression over the canonical names (pure.go)
func pureExpr(p *pkgInfo, goName string, params []string, opaque func(*ast.CallExpr) bool) ast.Expr {
	fd, ok := p.funcs[goName]
	if !ok {
		die("function %s not found", goName)
	}
	var recv ast.Expr
	args := []ast.Expr{}
	for i, n := range params {
		if i == 0 && fd.Recv != nil {
			recv = ast.NewIdent(n)
		} else {
			args = append(args, ast.NewIdent(n))
		}
	}
	x := &purifier{p: p, opaque: opaque}
	return x.funcExpr(fd, recv, args, fd.Pos())
}

func emitExprs(p *pkgInfo, out string) {
	var b strings.Builder
	b.WriteString("-- REGENERATED by /verif/extract: pure predicates of /repo translated expression by expression. Do not edit.\nnamespace Astits.Generated\n\n")
	for _, f := range fns {
		t := &tr{p: p, subst: f.subst}
		e := pureExpr(p, f.goName, f.params, func(c *ast.CallExpr) bool { _, ok := f.subst[canon(c)]; return ok })
		fmt.Fprintf(&b, "/-- %s -/\ndef %s %s : %s :=\n  %s\n\n", f.goName, f.lean, f.binders, f.ret, t.xexpr(e))
	}
	b.WriteString("end Astits.Generated\n")
	write(filepath.Join(out, "Exprs.lean"), b.String())
}

func emitFacts(p *pkgInfo, out string) map[string]interface{} {
	facts := map[string]interface{}{}
	var fb strings.Builder
	fb.WriteString("-- REGENERATED by /verif/extract: structural facts about /repo's source. Do not edit.\nnamespace Astits.Generated.Facts\n\n")

	// 1. package-level variables: all of them (informative), and the ones that are written (tables.go)
	fmt.Fprintf(&fb, "/-- (informative) every package-level variable -/\ndef packageVars : List String := %s\n\n", leanStrList(p.vars))
	facts["packageVars"] = p.vars
	written := p.writtenNames()
	fmt.Fprintf(&fb, "/-- the package-level variables that are modified, or handed out in a way that allows modifying them, anywhere outside their own declaration: assigned (also an element, field or pointee), address taken, destination of append / copy, a method called that is not a value-receiver method of the package, sliced, or (slices, maps, pointers, …) the value itself passed on, stored or returned -/\ndef packageVarsWritten : List String := %s\n\n", leanStrList(written))
	facts["packageVarsWritten"] = written
	where := []string{}
	for _, w := range p.varsWritten() {
		where = append(where, w.name+": "+w.where+": "+w.why)
	}
	fmt.Fprintf(&fb, "/-- (informative) where and how -/\ndef packageVarsWrittenWhere : List String := %s\n\n", leanStrList(where))
	facts["packageVarsWrittenWhere"] = where

	// 2. order of the tests in packetAccumulator.add
	order := addOrder(p)
	fmt.Fprintf(&fb, "/-- the tests of packetAccumulator.add: per `if` statement, in source order, the sorted set of the tests in its condition (locals replaced by their definitions) -/\ndef accumulatorAddOrder : List String := %s\n\n", leanStrList(order))
	facts["accumulatorAddOrder"] = order

	// 3. NextBytesNoCopy results: how each is used
	stored := noCopyStored(p)
	fmt.Fprintf(&fb, "/-- NextBytesNoCopy call sites whose result escapes (is stored, appended, returned or passed on) -/\ndef noCopyEscapes : List String := %s\n\n", leanStrList(stored))
	facts["noCopyEscapes"] = stored

	// 4. functions using a BitsWriterBatch: return statements whose error result is the literal nil
	nilrets := batchNilReturns(p)
	fmt.Fprintf(&fb, "/-- (informative) `return …, nil` statements inside functions that create a BitsWriterBatch, with the number of batch writes before them -/\ndef batchNilReturns : List String := %s\n\n", leanStrList(nilrets))
	facts["batchNilReturns"] = nilrets
	unchecked := batchNilReturnsUnchecked(p)
	fmt.Fprintf(&fb, "/-- `return …, nil` statements of functions that write through a BitsWriterBatch with at least one batch write between the last test of the batch error (`b.Err()`) before them and themselves -/\ndef batchNilReturnsUnchecked : List String := %s\n\n", leanStrList(unchecked))
	facts["batchNilReturnsUnchecked"] = unchecked

	// 5. direct, unchecked io.Writer calls (m.w.Write) must have their error returned
	fb.WriteString("end Astits.Generated.Facts\n")
	write(filepath.Join(out, "Facts.lean"), fb.String())
	return facts
}

func leanStrList(xs []string) string {
	q := make([]string, len(xs))
	for i, x := range xs {
		q[i] = "\"" + strings.ReplaceAll(x, "\"", "'") + "\""
	}
	return "[" + strings.Join(q, ", ") + "]"
}

// substIdents copies e with the identifiers bound in env replaced by their values (parenthesised).  Node
// types it does not know are returned unchanged.
func substIdents(e ast.Expr, env map[string]ast.Expr) ast.Expr {
	switch e := e.(type) {
	case *ast.Ident:
		if v, ok := env[e.Name]; ok {
			return &ast.ParenExpr{X: v}
		}
	case *ast.ParenExpr:
		return &ast.ParenExpr{X: substIdents(e.X, env)}
	case *ast.SelectorExpr:
		return &ast.SelectorExpr{X: substIdents(e.X, env), Sel: e.Sel}
	case *ast.IndexExpr:
		return &ast.IndexExpr{X: substIdents(e.X, env), Index: substIdents(e.Index, env)}
	case *ast.StarExpr:
		return &ast.StarExpr{X: substIdents(e.X, env)}
	case *ast.UnaryExpr:
		return &ast.UnaryExpr{Op: e.Op, X: substIdents(e.X, env)}
	case *ast.BinaryExpr:
		return &ast.BinaryExpr{X: substIdents(e.X, env), Op: e.Op, Y: substIdents(e.Y, env)}
	case *ast.CallExpr:
		c := &ast.CallExpr{Fun: substIdents(e.Fun, env), Ellipsis: e.Ellipsis}
		for _, a := range e.Args {
			c.Args = append(c.Args, substIdents(a, env))
		}
		return c
	}
	return e
}

// assignedIdents: the local variables that the statements assign (=, op=, ++, --; not :=)
func assignedIdents(list []ast.Stmt) map[string]bool {
	out := map[string]bool{}
	for _, s := range list {
		ast.Inspect(s, func(n ast.Node) bool {
			switch x := n.(type) {
			case *ast.AssignStmt:
				if x.Tok != token.DEFINE {
					for _, l := range x.Lhs {
						if id, ok := l.(*ast.Ident); ok {
							out[id.Name] = true
						}
					}
				}
			case *ast.IncDecStmt:
				if id, ok := x.X.(*ast.Ident); ok {
					out[id.Name] = true
				}
			case *ast.RangeStmt:
				for _, l := range []ast.Expr{x.Key, x.Value} {
					if id, ok := l.(*ast.Ident); ok && x.Tok == token.ASSIGN {
						out[id.Name] = true
					}
				}
			}
			return true
		})
	}
	return out
}

// addOrder: the ORDER OF THE TESTS in packetAccumulator.add.  For every `if` statement of the function, in
// source order, the set of the tests that occur in its condition: the calls of hasDiscontinuity,
// isSameAsPrevious and isPSIComplete and the payload-unit-start flag of the packet.  The condition is looked at
// after every local variable in it has been replaced by its definition (`dup := isSameAsPrevious(mps, p)` …
// `if dup && …`), and the tests of one condition are reported as a sorted set ("a+b+c"), so that hoisting a pure
// sub-condition into a local and re-ordering or re-bracketing one condition (De Morgan) do not change the fact,
// while moving a test from one `if` to another, dropping one, or swapping two `if`s does.  `if`s without any of
// the tests are not listed.
func addOrder(p *pkgInfo) []string {
	fd := p.funcs["packetAccumulator.add"]
	if fd == nil {
		die("packetAccumulator.add not found")
	}
	if len(fd.Type.Params.List) != 1 || len(fd.Type.Params.List[0].Names) != 1 {
		die("packetAccumulator.add: unexpected parameter list")
	}
	pkt := fd.Type.Params.List[0].Names[0].Name
	// test -> its name in the fact (the packet is called p there, whatever the parameter is called)
	tests := [][2]string{{"hasDiscontinuity(", "hasDiscontinuity"}, {"isSameAsPrevious(", "isSameAsPrevious"},
		{"(" + pkt + ").Header.PayloadUnitStartIndicator", "p.Header.PayloadUnitStartIndicator"},
		{pkt + ".Header.PayloadUnitStartIndicator", "p.Header.PayloadUnitStartIndicator"}, {"isPSIComplete(", "isPSIComplete"}}
	out := []string{}
	clone := func(env map[string]ast.Expr) map[string]ast.Expr {
		n := map[string]ast.Expr{}
		for k, v := range env {
			n[k] = v
		}
		return n
	}
	var walk func(list []ast.Stmt, env map[string]ast.Expr)
	walk = func(list []ast.Stmt, env map[string]ast.Expr) {
		for _, st := range list {
			switch s := st.(type) {
			case *ast.AssignStmt:
				if (s.Tok == token.DEFINE || s.Tok == token.ASSIGN) && len(s.Lhs) == len(s.Rhs) {
					vals := make([]ast.Expr, len(s.Rhs))
					for i, r := range s.Rhs {
						vals[i] = substIdents(r, env)
					}
					for i, l := range s.Lhs {
						if id, ok := l.(*ast.Ident); ok {
							if id.Name == pkt {
								die("packetAccumulator.add (%s): the packet parameter is assigned", fset.Position(s.Pos()))
							}
							env[id.Name] = vals[i]
						}
					}
					continue
				}
				for _, l := range s.Lhs {
					if id, ok := l.(*ast.Ident); ok {
						delete(env, id.Name)
					}
				}
			case *ast.DeclStmt:
				if gd, ok := s.Decl.(*ast.GenDecl); ok {
					for _, sp := range gd.Specs {
						if vs, ok := sp.(*ast.ValueSpec); ok {
							for i, n := range vs.Names {
								if len(vs.Values) == len(vs.Names) {
									env[n.Name] = substIdents(vs.Values[i], env)
								} else {
									delete(env, n.Name)
								}
							}
						}
					}
				}
			case *ast.IfStmt:
				inner := clone(env)
				if s.Init != nil {
					walk([]ast.Stmt{s.Init}, inner)
				}
				c := render(substIdents(s.Cond, inner))
				found := map[string]bool{}
				for _, t := range tests {
					if strings.Contains(c, t[0]) {
						found[t[1]] = true
					}
				}
				if len(found) > 0 {
					var names []string
					for n := range found {
						names = append(names, n)
					}
					sort.Strings(names)
					out = append(out, strings.Join(names, "+"))
				}
				walk(s.Body.List, clone(inner))
				branches := append([]ast.Stmt{}, s.Body.List...)
				if s.Else != nil {
					walk(elseList(s.Else), clone(inner))
					branches = append(branches, s.Else)
				}
				for n := range assignedIdents(branches) {
					delete(env, n)
				}
			case *ast.BlockStmt:
				walk(s.List, clone(env))
				for n := range assignedIdents(s.List) {
					delete(env, n)
				}
			default:
				// loops, switches, …: what they assign is unknown afterwards (and inside); nested ifs are still listed
				for n := range assignedIdents([]ast.Stmt{st}) {
					delete(env, n)
				}
				var bodies [][]ast.Stmt
				switch s := st.(type) {
				case *ast.ForStmt:
					bodies = append(bodies, s.Body.List)
				case *ast.RangeStmt:
					bodies = append(bodies, s.Body.List)
				case *ast.SwitchStmt:
					for _, c := range s.Body.List {
						bodies = append(bodies, c.(*ast.CaseClause).Body)
					}
				}
				for _, b := range bodies {
					walk(b, clone(env))
				}
			}
		}
	}
	walk(fd.Body.List, map[string]ast.Expr{})
	return out
}

// pure readers: functions that only read the bytes of a slice argument and keep no reference to it
var byteReaders = map[string]bool{
	"binary.BigEndian.Uint16": true, "binary.BigEndian.Uint32": true, "binary.BigEndian.Uint64": true,
	"binary.LittleEndian.Uint16": true, "binary.LittleEndian.Uint32": true, "binary.LittleEndian.Uint64": true,
	"bytes.Equal": true, "bytes.IndexByte": true, "len": true, "computeCRC32": true,
	"string": true, // the conversion copies the bytes
}

// readOnlyUse: the expression at stack[k] (a view of the iterator's buffer: the result variable of
// NextBytesNoCopy, or a slice expression of it) is only read by its context.  Reading uses are:
// indexing, len, the pure readers above, conversion to string, comparison with nil, ranging over it,
// and slice expressions bs[a:b] that are themselves only read.  Everything else (assignment to a
// field or another variable, append, return, composite literals, passing it to any other function,
// taking its address, …) lets the view escape.
func readOnlyUse(stack []ast.Node, k int) bool {
	n := stack[k]
	if k == 0 {
		return false
	}
	switch pn := stack[k-1].(type) {
	case *ast.ParenExpr:
		return readOnlyUse(stack, k-1)
	case *ast.IndexExpr:
		if pn.X != n {
			return false
		}
		// bs[k] reads (or writes) one byte; &bs[k] is a pointer into the buffer
		for j := k - 2; j >= 0; j-- {
			switch g := stack[j].(type) {
			case *ast.ParenExpr:
				continue
			case *ast.UnaryExpr:
				return g.Op != token.AND
			}
			break
		}
		return true
	case *ast.SliceExpr:
		return pn.X == n && readOnlyUse(stack, k-1)
	case *ast.CallExpr:
		if pn.Fun == n {
			return false
		}
		return byteReaders[render(pn.Fun)]
	case *ast.BinaryExpr:
		isNil := func(e ast.Expr) bool { id, ok := e.(*ast.Ident); return ok && id.Name == "nil" }
		return (pn.Op == token.EQL || pn.Op == token.NEQ) && (isNil(pn.X) || isNil(pn.Y))
	case *ast.RangeStmt:
		return pn.X == n
	}
	return false
}

// noCopyStored lists the uses of NextBytesNoCopy results that are not reading uses (see
// readOnlyUse), and the call sites whose result is not assigned to a plain local variable.
func noCopyStored(p *pkgInfo) []string {
	var out []string
	names := make([]string, 0, len(p.funcs))
	for n := range p.funcs {
		names = append(names, n)
	}
	sort.Strings(names)
	for _, fname := range names {
		fd := p.funcs[fname]
		if fd.Body == nil {
			continue
		}
		vars := map[string]bool{}
		assigned := map[*ast.CallExpr]bool{}
		isNoCopy := func(e ast.Expr) (*ast.CallExpr, bool) {
			ce, ok := e.(*ast.CallExpr)
			if !ok {
				return nil, false
			}
			se, ok := ce.Fun.(*ast.SelectorExpr)
			return ce, ok && se.Sel.Name == "NextBytesNoCopy"
		}
		ast.Inspect(fd.Body, func(n ast.Node) bool {
			if as, ok := n.(*ast.AssignStmt); ok && len(as.Rhs) == 1 {
				if ce, ok := isNoCopy(as.Rhs[0]); ok {
					assigned[ce] = true
					if id, ok := as.Lhs[0].(*ast.Ident); ok {
						vars[id.Name] = true
					} else {
						out = append(out, fname+": result assigned to "+render(as.Lhs[0]))
					}
				}
			}
			return true
		})
		// a call whose result is not the right-hand side of an assignment (returned, passed on, …)
		ast.Inspect(fd.Body, func(n ast.Node) bool {
			if e, ok := n.(ast.Expr); ok {
				if ce, ok := isNoCopy(e); ok && !assigned[ce] {
					out = append(out, fname+": result of "+render(ce)+" is not assigned to a local variable")
				}
			}
			return true
		})
		if len(vars) == 0 {
			continue
		}
		var stack []ast.Node
		ast.Inspect(fd.Body, func(n ast.Node) bool {
			if n == nil {
				stack = stack[:len(stack)-1]
				return true
			}
			stack = append(stack, n)
			if id, ok := n.(*ast.Ident); ok && vars[id.Name] {
				k := len(stack) - 1
				okUse := readOnlyUse(stack, k)
				switch pn := stack[k-1].(type) {
				case *ast.AssignStmt: // the variable being (re)assigned
					for _, l := range pn.Lhs {
						if l == n {
							okUse = true
						}
					}
				case *ast.ValueSpec: // var bs []byte
					for _, l := range pn.Names {
						if l == id {
							okUse = true
						}
					}
				case *ast.SelectorExpr: // x.bs: a field that happens to have the same name
					if pn.Sel == id {
						okUse = true
					}
				}
				if !okUse {
					// the outermost expression the view is part of
					j := k
					for j > 0 {
						if _, isExpr := stack[j-1].(ast.Expr); !isExpr {
							break
						}
						j--
					}
					ctx := stack[j]
					if j > 0 {
						ctx = stack[j-1]
					}
					out = append(out, fmt.Sprintf("%s: %s used in %s", fname, id.Name, strings.SplitN(render(ctx), "\n", 2)[0]))
				}
			}
			return true
		})
	}
	return out
}

// batchVars: the BitsWriterBatch variables of a function (created in it or received as parameters)
func batchVars(fd *ast.FuncDecl) map[string]bool {
	vars := map[string]bool{}
	for _, f := range fd.Type.Params.List {
		if strings.HasSuffix(render(f.Type), "astikit.BitsWriterBatch") {
			for _, n := range f.Names {
				vars[n.Name] = true
			}
		}
	}
	ast.Inspect(fd.Body, func(n ast.Node) bool {
		switch s := n.(type) {
		case *ast.AssignStmt:
			for i, r := range s.Rhs {
				if ce, ok := r.(*ast.CallExpr); ok && render(ce.Fun) == "astikit.NewBitsWriterBatch" && i < len(s.Lhs) {
					if id, ok := s.Lhs[i].(*ast.Ident); ok {
						vars[id.Name] = true
					}
				}
			}
		case *ast.ValueSpec:
			for i, r := range s.Values {
				if ce, ok := r.(*ast.CallExpr); ok && render(ce.Fun) == "astikit.NewBitsWriterBatch" && i < len(s.Names) {
					vars[s.Names[i].Name] = true
				}
			}
		}
		return true
	})
	return vars
}

// batchNilReturnsUnchecked: in every function that writes through a BitsWriterBatch (its own or one it
// received), the `return …, nil` statements that have a batch write textually between the last test
// of the batch error (`b.Err()`) before them and themselves.  A batch write is a call of any method
// of the batch other than Err, or passing the batch to another function.  Such a return would report
// success although a write may have failed: the list is expected to be empty.
func batchNilReturnsUnchecked(p *pkgInfo) []string {
	out := []string{}
	names := make([]string, 0, len(p.funcs))
	for n := range p.funcs {
		names = append(names, n)
	}
	sort.Strings(names)
	for _, fname := range names {
		fd := p.funcs[fname]
		if fd.Body == nil {
			continue
		}
		vars := batchVars(fd)
		if len(vars) == 0 {
			continue
		}
		isBatch := func(e ast.Expr) bool {
			for {
				switch x := e.(type) {
				case *ast.ParenExpr:
					e = x.X
					continue
				case *ast.UnaryExpr:
					e = x.X
					continue
				case *ast.StarExpr:
					e = x.X
					continue
				}
				break
			}
			id, ok := e.(*ast.Ident)
			return ok && vars[id.Name]
		}
		var writes, checks []token.Pos
		ast.Inspect(fd.Body, func(n ast.Node) bool {
			ce, ok := n.(*ast.CallExpr)
			if !ok {
				return true
			}
			if se, ok := ce.Fun.(*ast.SelectorExpr); ok && isBatch(se.X) {
				if se.Sel.Name == "Err" {
					checks = append(checks, ce.Pos())
				} else {
					writes = append(writes, ce.Pos())
				}
			}
			for _, a := range ce.Args {
				if isBatch(a) {
					writes = append(writes, ce.Pos())
				}
			}
			return true
		})
		ast.Inspect(fd.Body, func(n ast.Node) bool {
			if _, ok := n.(*ast.FuncLit); ok {
				return false
			}
			rs, ok := n.(*ast.ReturnStmt)
			if !ok || len(rs.Results) == 0 || render(rs.Results[len(rs.Results)-1]) != "nil" {
				return true
			}
			if ft := fd.Type.Results; ft == nil || render(ft.List[len(ft.List)-1].Type) != "error" {
				return true
			}
			last := token.NoPos
			for _, c := range checks {
				if c < rs.Pos() && c > last {
					last = c
				}
			}
			k := 0
			for _, w := range writes {
				if w > last && w < rs.Pos() {
					k++
				}
			}
			if k > 0 {
				out = append(out, fmt.Sprintf("%s: return %s with %d batch writes since the last test of the batch error", fname,
					strings.TrimPrefix(render(rs), "return "), k))
			}
			return true
		})
	}
	return out
}

func batchNilReturns(p *pkgInfo) []string {
	var out []string
	names := make([]string, 0, len(p.funcs))
	for n := range p.funcs {
		names = append(names, n)
	}
	sort.Strings(names)
	for _, fname := range names {
		fd := p.funcs[fname]
		if fd.Body == nil || !strings.Contains(render(fd.Body), "NewBitsWriterBatch(") {
			continue
		}
		batchPos := token.NoPos
		writes := []token.Pos{}
		ast.Inspect(fd.Body, func(n ast.Node) bool {
			if ce, ok := n.(*ast.CallExpr); ok {
				f := render(ce.Fun)
				if f == "astikit.NewBitsWriterBatch" && batchPos == token.NoPos {
					batchPos = ce.Pos()
				}
				if f == "b.Write" || f == "b.WriteN" || f == "b.WriteBytesN" {
					writes = append(writes, ce.Pos())
				}
			}
			return true
		})
		ast.Inspect(fd.Body, func(n ast.Node) bool {
			if rs, ok := n.(*ast.ReturnStmt); ok && len(rs.Results) > 0 {
				last := render(rs.Results[len(rs.Results)-1])
				if last == "nil" && rs.Pos() > batchPos {
					k := 0
					for _, w := range writes {
						if w < rs.Pos() {
							k++
						}
					}
					out = append(out, fmt.Sprintf("%s: return %s after %d batch writes", fname, render(rs.Results[0]), k))
				}
			}
			return true
		})
	}
	return out
}
