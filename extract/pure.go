package main

// Reduction of a side-effect-free Go function to ONE expression over its parameters.
//
// exprs.go (predicates, Nat / Bool) and main.go (the CRC step, BitVec) translate expressions, not
// statements.  A behaviour-preserving refactoring of such a function typically renames a parameter,
// introduces a local (`last := ps[len(ps)-1]`), replaces one boolean expression by guard clauses or a
// switch, or moves a sub-expression into a helper function.  None of this changes the function, so
// none of it should change the translation more than necessary: the evaluator below executes the
// body symbolically and returns the result as a single expression in which
//
//   - every parameter is replaced by the expression the caller gives for it (for the function that is
//     being translated: an identifier with the CANONICAL name the substitution tables of exprs.go use,
//     whatever the parameter is called in the source),
//   - every local variable is replaced by its current value (assignments, `op=`, `++`, `var`),
//   - `if` / `switch` become the conditional `__ite(cond, then, else)` (a synthetic call expression;
//     branches that do not return are merged variable by variable),
//   - every call of a package-level function or method of the package is replaced by the callee's
//     own expression (inlining, recursively), unless the caller declares the call opaque.
//
//   - an index expression `tbl[i]` on a package-level LOOKUP TABLE (tables.go: a variable that nothing
//     writes and whose value is an array, slice or map literal) is replaced by a conditional chain over the
//     index: `__ite(i == 0, e0, __ite(i == 1, e1, e2))` for an array or slice — accepted only if the
//     evaluator can bound the index below the length (bound: from the unsigned types of the parameters,
//     conversions, masks, shifts, …), since an index out of range is a panic in Go, which an expression cannot
//     express —, and `__ite(i == k1, v1, … zero value)` for a map, where a missing key gives the zero value
//     (`v, ok := m[i]` also binds ok to `i == k1 || i == k2 || …`),
//   - `bytes.HasPrefix(x, []byte{c0, c1, …})` / `bytes.Equal` against a literal become a test of len(x) and
//     comparisons of x[0], x[1], ….
//
// Everything else (loops, assignments to fields or elements, several results, calls of anything that
// is not a conversion, a builtin or an inlinable function, defer, go, …) is an error: fail closed.

import (
	"fmt"
	"go/ast"
	"go/token"
	"sort"
	"strings"
)

const iteName = "__ite"

// maximal nesting of inlined calls (also catches recursion)
const maxInlineDepth = 8

// maximal size (AST nodes) of a reduced function: sequences of returning ifs duplicate the rest
const maxPureSize = 20000

type pureEnv map[string]ast.Expr

func (e pureEnv) clone() pureEnv {
	n := pureEnv{}
	for k, v := range e {
		n[k] = v
	}
	return n
}

// purifier reduces functions of p.  opaque(call) is asked for every call (after its arguments have
// been reduced); a true answer leaves the call in place for the expression translator.
type purifier struct {
	p      *pkgInfo
	opaque func(c *ast.CallExpr) bool
	name   string // function being reduced (messages)
	depth  int
	// declared type names of the receiver and the parameters of the function being reduced (T for
	// both T and *T): x.m() on such an x is the method T.m
	vtypes map[string]string
	// width of the unsigned integer type of the identifiers that stand for parameters of the function being
	// translated (see bound)
	ubits map[string]int
}

func (x *purifier) die(pos token.Pos, format string, a ...interface{}) {
	die("%s (%s): %s", x.name, fset.Position(pos), fmt.Sprintf(format, a...))
}

func mkIte(c, a, b ast.Expr) ast.Expr {
	return &ast.CallExpr{Fun: ast.NewIdent(iteName), Args: []ast.Expr{c, a, b}}
}

// isIte recognises the synthetic conditional
func isIte(e ast.Expr) (c, a, b ast.Expr, ok bool) {
	ce, isCall := e.(*ast.CallExpr)
	if !isCall || len(ce.Args) != 3 {
		return nil, nil, nil, false
	}
	if id, isID := ce.Fun.(*ast.Ident); !isID || id.Name != iteName {
		return nil, nil, nil, false
	}
	return ce.Args[0], ce.Args[1], ce.Args[2], true
}

// the conversions T(x) between integer types that the expression translators understand
var basicConversions = map[string]bool{"uint8": true, "byte": true, "uint16": true, "uint32": true, "uint64": true,
	"int": true, "int8": true, "int16": true, "int32": true, "int64": true, "uint": true}

func atomic(e ast.Expr) bool {
	switch e.(type) {
	case *ast.Ident, *ast.BasicLit, *ast.ParenExpr, *ast.SelectorExpr, *ast.IndexExpr, *ast.CallExpr:
		return true
	}
	return false
}

func paren(e ast.Expr) ast.Expr {
	if atomic(e) {
		return e
	}
	return &ast.ParenExpr{X: e}
}

// subst copies e, replacing the identifiers bound in env by their values.  Only the node types of the
// supported expression fragment are copied; anything else is an error.
func (x *purifier) subst(e ast.Expr, env pureEnv) ast.Expr {
	switch e := e.(type) {
	case *ast.Ident:
		if v, ok := env[e.Name]; ok {
			return paren(v)
		}
		return e
	case *ast.BasicLit:
		return e
	case *ast.ParenExpr:
		return &ast.ParenExpr{Lparen: e.Lparen, X: x.subst(e.X, env), Rparen: e.Rparen}
	case *ast.SelectorExpr:
		// a package-qualified name (time.Duration, binary.BigEndian) is not a variable
		if id, ok := e.X.(*ast.Ident); ok {
			if _, bound := env[id.Name]; !bound {
				return e
			}
		}
		return &ast.SelectorExpr{X: x.subst(e.X, env), Sel: e.Sel}
	case *ast.IndexExpr:
		if tbl := x.lookupTable(e.X, env); tbl != nil {
			v, _ := x.lookup(e.Pos(), tbl, x.subst(e.Index, env))
			return paren(v)
		}
		return &ast.IndexExpr{X: x.subst(e.X, env), Lbrack: e.Lbrack, Index: x.subst(e.Index, env), Rbrack: e.Rbrack}
	case *ast.StarExpr:
		return &ast.StarExpr{Star: e.Star, X: x.subst(e.X, env)}
	case *ast.UnaryExpr:
		if e.Op == token.AND || e.Op == token.ARROW {
			x.die(e.Pos(), "unsupported operator %s", e.Op)
		}
		return &ast.UnaryExpr{OpPos: e.OpPos, Op: e.Op, X: x.subst(e.X, env)}
	case *ast.BinaryExpr:
		return &ast.BinaryExpr{X: x.subst(e.X, env), OpPos: e.OpPos, Op: e.Op, Y: x.subst(e.Y, env)}
	case *ast.CallExpr:
		if e.Ellipsis != token.NoPos {
			x.die(e.Pos(), "variadic call")
		}
		if r := x.bytesCompare(e, env); r != nil {
			return r
		}
		n := &ast.CallExpr{Lparen: e.Lparen, Rparen: e.Rparen}
		switch f := e.Fun.(type) {
		case *ast.Ident:
			if _, bound := env[f.Name]; bound {
				x.die(e.Pos(), "call of the variable %s", f.Name)
			}
			n.Fun = f
		case *ast.SelectorExpr:
			n.Fun = x.subst(f, env)
		default:
			x.die(e.Pos(), "unsupported call %s", render(e))
		}
		for _, a := range e.Args {
			n.Args = append(n.Args, x.subst(a, env))
		}
		// the method, if the receiver is a parameter of known type
		var method *ast.FuncDecl
		if f, ok := e.Fun.(*ast.SelectorExpr); ok {
			if id, ok := f.X.(*ast.Ident); ok {
				if tn, ok := x.vtypes[id.Name]; ok {
					if method = x.p.funcs[tn+"."+f.Sel.Name]; method == nil {
						x.die(e.Pos(), "call %s: type %s has no method %s in the package", render(e), tn, f.Sel.Name)
					}
				}
			}
		}
		return x.inline(n, method)
	}
	x.die(e.Pos(), "unsupported expression %s (%T)", render(e), e)
	return nil
}

// methodDecl finds the unique method of the package with the given name.  It is used where the static
// type of the receiver is not known (the translator does not type-check: a local variable, a field);
// an ambiguous name is an error.
func (x *purifier) methodDecl(pos token.Pos, name string) *ast.FuncDecl {
	var keys []string
	for k := range x.p.funcs {
		if strings.HasSuffix(k, "."+name) {
			keys = append(keys, k)
		}
	}
	sort.Strings(keys)
	switch len(keys) {
	case 0:
		return nil
	case 1:
		return x.p.funcs[keys[0]]
	}
	x.die(pos, "call of method %s: several types of the package have one (%s)", name, strings.Join(keys, ", "))
	return nil
}

// inline replaces a call (arguments already reduced) by the callee's expression where the callee is a
// function or method of the package; conversions, builtins and opaque calls stay.  method is the
// callee if the caller could determine it from the declared type of the receiver.
func (x *purifier) inline(c *ast.CallExpr, method *ast.FuncDecl) ast.Expr {
	if _, _, _, ok := isIte(c); ok {
		return c
	}
	if x.opaque != nil && x.opaque(c) {
		return c
	}
	switch f := c.Fun.(type) {
	case *ast.Ident:
		if basicConversions[f.Name] || f.Name == "len" {
			return c
		}
		if _, isType := x.p.types[f.Name]; isType { // conversion to a named type of the package
			return c
		}
		if fd, ok := x.p.funcs[f.Name]; ok && fd.Recv == nil {
			return paren(x.funcExpr(fd, nil, c.Args, c.Pos()))
		}
	case *ast.SelectorExpr:
		if id, ok := f.X.(*ast.Ident); ok && (id.Name == "time" && f.Sel.Name == "Duration") {
			return c // conversion to time.Duration
		}
		if method == nil {
			method = x.methodDecl(c.Pos(), f.Sel.Name)
		}
		if method != nil {
			return paren(x.funcExpr(method, f.X, c.Args, c.Pos()))
		}
	}
	x.die(c.Pos(), "call %s: not a conversion, not len, not declared opaque and not a function of the package", render(c))
	return nil
}

// zeroValue of a result / variable type
func (x *purifier) zeroValue(t ast.Expr) ast.Expr {
	if id, ok := t.(*ast.Ident); ok {
		if id.Name == "bool" {
			return ast.NewIdent("false")
		}
		if basicConversions[id.Name] {
			return &ast.CallExpr{Fun: id, Args: []ast.Expr{&ast.BasicLit{Kind: token.INT, Value: "0"}}}
		}
		if u, ok := x.p.types[id.Name]; ok {
			if _, isStruct := u.(*ast.StructType); !isStruct {
				return x.zeroValue(u)
			}
		}
	}
	x.die(t.Pos(), "zero value of type %s", render(t))
	return nil
}

// funcExpr reduces fd applied to (recv, args), which are expressions in the scope of the function that
// is being translated.
func (x *purifier) funcExpr(fd *ast.FuncDecl, recv ast.Expr, args []ast.Expr, pos token.Pos) ast.Expr {
	saved, savedTypes := x.name, x.vtypes
	defer func() { x.name, x.vtypes = saved, savedTypes; x.depth-- }()
	if x.depth++; x.depth > maxInlineDepth {
		x.die(pos, "calls nested deeper than %d (recursion?) at %s", maxInlineDepth, fd.Name.Name)
	}
	if saved != "" {
		x.name = saved + " > " + fd.Name.Name
	} else {
		x.name = fd.Name.Name
	}
	if fd.Body == nil || fd.Type.Results == nil {
		x.die(pos, "no body or no result")
	}
	env := pureEnv{}
	vtypes := map[string]string{}
	typeName := func(t ast.Expr) string {
		if s, ok := t.(*ast.StarExpr); ok {
			t = s.X
		}
		if id, ok := t.(*ast.Ident); ok {
			if _, declared := x.p.types[id.Name]; declared {
				return id.Name
			}
		}
		return ""
	}
	if fd.Recv != nil {
		if recv == nil || len(fd.Recv.List) != 1 || len(fd.Recv.List[0].Names) != 1 {
			x.die(pos, "unsupported receiver")
		}
		env[fd.Recv.List[0].Names[0].Name] = recv
		if tn := typeName(fd.Recv.List[0].Type); tn != "" {
			vtypes[fd.Recv.List[0].Names[0].Name] = tn
		}
		x.noteUnsigned(recv, fd.Recv.List[0].Type)
	}
	k := 0
	for _, f := range fd.Type.Params.List {
		if _, variadic := f.Type.(*ast.Ellipsis); variadic || len(f.Names) == 0 {
			x.die(pos, "unsupported parameter list")
		}
		for _, n := range f.Names {
			if k >= len(args) {
				x.die(pos, "too few arguments")
			}
			a := args[k]
			// an argument of basic integer type is converted to the parameter's type (matters for
			// untyped constants; the identity for everything else)
			if id, ok := f.Type.(*ast.Ident); ok && basicConversions[id.Name] {
				ce, isConv := a.(*ast.CallExpr)
				_, isVar := a.(*ast.Ident)
				if !isVar && !(isConv && render(ce.Fun) == id.Name) {
					a = &ast.CallExpr{Fun: ast.NewIdent(id.Name), Args: []ast.Expr{a}}
				}
			}
			env[n.Name] = a
			if tn := typeName(f.Type); tn != "" {
				vtypes[n.Name] = tn
			}
			x.noteUnsigned(a, f.Type)
			k++
		}
	}
	if k != len(args) {
		x.die(pos, "too many arguments")
	}
	var result string // named result
	nres := 0
	for _, f := range fd.Type.Results.List {
		if len(f.Names) == 0 {
			nres++
		}
		for _, n := range f.Names {
			nres++
			result = n.Name
			env[n.Name] = x.zeroValue(f.Type)
		}
	}
	if nres != 1 {
		x.die(pos, "%d results", nres)
	}
	x.vtypes = vtypes
	fr := &pureFrame{x: x, result: result}
	e := fr.block(fd.Body.List, env, func(pureEnv) ast.Expr {
		x.die(fd.Body.Rbrace, "falls off the end")
		return nil
	})
	if n := nodeCount(e); n > maxPureSize {
		x.die(pos, "reduced expression too large (%d nodes)", n)
	}
	return e
}

func nodeCount(e ast.Expr) int {
	n := 0
	ast.Inspect(e, func(m ast.Node) bool {
		if m != nil {
			n++
		}
		return true
	})
	return n
}

// pureFrame: one activation
type pureFrame struct {
	x      *purifier
	result string // name of the named result, "" if unnamed
}

// block evaluates a statement list in a new scope and continues with k in the enclosing scope
func (fr *pureFrame) block(list []ast.Stmt, env pureEnv, k func(pureEnv) ast.Expr) ast.Expr {
	outer := env
	defined := map[string]bool{}
	return fr.stmts(list, env.clone(), defined, func(e pureEnv) ast.Expr {
		e = e.clone()
		for n := range defined {
			if v, ok := outer[n]; ok {
				e[n] = v
			} else {
				delete(e, n)
			}
		}
		return k(e)
	})
}

func containsReturn(list []ast.Stmt) bool { return hasReturn(list) }

func (fr *pureFrame) stmts(list []ast.Stmt, env pureEnv, defined map[string]bool, k func(pureEnv) ast.Expr) ast.Expr {
	x := fr.x
	if len(list) == 0 {
		return k(env)
	}
	rest := list[1:]
	next := func(env pureEnv) ast.Expr { return fr.stmts(rest, env, defined, k) }
	bind := func(pos token.Pos, lhs ast.Expr, v ast.Expr, define bool) pureEnv {
		id, ok := lhs.(*ast.Ident)
		if !ok {
			x.die(pos, "assignment to %s: only local variables can be assigned", render(lhs))
		}
		if id.Name == "_" {
			return env
		}
		if _, bound := env[id.Name]; !bound && !define {
			x.die(pos, "assignment to %s, which is not a local variable", id.Name)
		}
		n := env.clone()
		n[id.Name] = v
		if define {
			defined[id.Name] = true
		}
		return n
	}
	switch s := list[0].(type) {
	case *ast.EmptyStmt:
		return next(env)

	case *ast.ReturnStmt:
		switch len(s.Results) {
		case 0:
			if fr.result == "" {
				x.die(s.Pos(), "bare return without a named result")
			}
			return env[fr.result]
		case 1:
			return x.subst(s.Results[0], env)
		}
		x.die(s.Pos(), "unsupported return %s", render(s))

	case *ast.BlockStmt:
		return fr.block(s.List, env, next)

	case *ast.DeclStmt:
		gd, ok := s.Decl.(*ast.GenDecl)
		if !ok || gd.Tok != token.VAR {
			x.die(s.Pos(), "unsupported declaration")
		}
		for _, sp := range gd.Specs {
			vs := sp.(*ast.ValueSpec)
			for i, n := range vs.Names {
				var v ast.Expr
				switch {
				case len(vs.Values) == len(vs.Names):
					v = x.subst(vs.Values[i], env)
					if id, ok := vs.Type.(*ast.Ident); ok && basicConversions[id.Name] {
						v = &ast.CallExpr{Fun: id, Args: []ast.Expr{v}}
					}
				case len(vs.Values) == 0 && vs.Type != nil:
					v = x.zeroValue(vs.Type)
				default:
					x.die(s.Pos(), "unsupported declaration")
				}
				env = bind(s.Pos(), n, v, true)
			}
		}
		return next(env)

	case *ast.IncDecStmt:
		op := token.ADD
		if s.Tok == token.DEC {
			op = token.SUB
		}
		v := x.subst(&ast.BinaryExpr{X: s.X, Op: op, Y: &ast.BasicLit{Kind: token.INT, Value: "1"}}, env)
		return next(bind(s.Pos(), s.X, v, false))

	case *ast.AssignStmt:
		// v, ok := m[k] on a lookup table
		if len(s.Lhs) == 2 && len(s.Rhs) == 1 && (s.Tok == token.DEFINE || s.Tok == token.ASSIGN) {
			if ie, isIndex := s.Rhs[0].(*ast.IndexExpr); isIndex {
				if tbl := x.lookupTable(ie.X, env); tbl != nil && tbl.kind == "map" {
					v, ok := x.lookup(ie.Pos(), tbl, x.subst(ie.Index, env))
					env = bind(s.Pos(), s.Lhs[0], v, s.Tok == token.DEFINE)
					env = bind(s.Pos(), s.Lhs[1], ok, s.Tok == token.DEFINE)
					return next(env)
				}
			}
		}
		if len(s.Lhs) != 1 || len(s.Rhs) != 1 {
			x.die(s.Pos(), "unsupported assignment %s", render(s))
		}
		switch s.Tok {
		case token.DEFINE, token.ASSIGN:
			return next(bind(s.Pos(), s.Lhs[0], x.subst(s.Rhs[0], env), s.Tok == token.DEFINE))
		}
		ops := map[token.Token]token.Token{token.ADD_ASSIGN: token.ADD, token.SUB_ASSIGN: token.SUB, token.MUL_ASSIGN: token.MUL,
			token.QUO_ASSIGN: token.QUO, token.REM_ASSIGN: token.REM, token.AND_ASSIGN: token.AND, token.OR_ASSIGN: token.OR,
			token.XOR_ASSIGN: token.XOR, token.SHL_ASSIGN: token.SHL, token.SHR_ASSIGN: token.SHR}
		op, ok := ops[s.Tok]
		if !ok {
			x.die(s.Pos(), "unsupported assignment %s", render(s))
		}
		v := x.subst(&ast.BinaryExpr{X: s.Lhs[0], Op: op, Y: &ast.ParenExpr{X: s.Rhs[0]}}, env)
		return next(bind(s.Pos(), s.Lhs[0], v, false))

	case *ast.SwitchStmt:
		return fr.stmts(append([]ast.Stmt{switchToIf(s, func(pos token.Pos, m string) { x.die(pos, "%s", m) })}, rest...), env, defined, k)

	case *ast.IfStmt:
		// the init statement and the variables it defines are scoped to the if: evaluate the whole
		// statement as a block of [init; if]
		if s.Init != nil {
			plain := &ast.IfStmt{If: s.If, Cond: s.Cond, Body: s.Body, Else: s.Else}
			return fr.block([]ast.Stmt{s.Init, plain}, env, next)
		}
		cond := x.subst(s.Cond, env)
		var els []ast.Stmt
		if s.Else != nil {
			els = elseList(s.Else)
		}
		if !containsReturn(s.Body.List) && !containsReturn(els) {
			// merge the two final environments variable by variable
			var envT, envE pureEnv
			fr.block(s.Body.List, env, func(e pureEnv) ast.Expr { envT = e; return nil })
			fr.block(els, env, func(e pureEnv) ast.Expr { envE = e; return nil })
			merged := env.clone()
			for n := range env {
				if envT[n] != envE[n] {
					merged[n] = mkIte(cond, envT[n], envE[n])
				}
			}
			return next(merged)
		}
		// a branch returns: the rest of the list is the continuation of both branches
		a := fr.block(s.Body.List, env, next)
		b := fr.block(els, env, next)
		return mkIte(cond, a, b)
	}
	x.die(list[0].Pos(), "unsupported statement %T", list[0])
	return nil
}

// ---- lookup tables, byte-slice comparisons ----

// unsignedBits: the width if t is an unsigned integer type (or a named type of the package with one as
// underlying type), 0 otherwise
func (p *pkgInfo) unsignedBits(t ast.Expr) int {
	for depth := 0; depth < 10; depth++ {
		id, ok := t.(*ast.Ident)
		if !ok {
			return 0
		}
		if w, ok := bvWidths[id.Name]; ok {
			return w
		}
		if t, ok = p.types[id.Name]; !ok {
			return 0
		}
	}
	return 0
}

// noteUnsigned records that the argument, if it is an identifier, has the unsigned type of the parameter it
// is passed for (Go has no implicit conversions between integer types)
func (x *purifier) noteUnsigned(arg ast.Expr, paramType ast.Expr) {
	id, ok := arg.(*ast.Ident)
	w := x.p.unsignedBits(paramType)
	if !ok || w == 0 {
		return
	}
	if x.ubits == nil {
		x.ubits = map[string]int{}
	}
	x.ubits[id.Name] = w
}

// bound: an upper bound of the value of a reduced expression that is also known not to be negative
func (x *purifier) bound(e ast.Expr) (int64, bool) {
	if v, ok := x.p.evalConst(e, 0); ok {
		return v, v >= 0
	}
	typeMax := func(w int) int64 {
		if w >= 63 {
			return 1<<62 - 1 + 1<<62
		}
		return int64(1)<<uint(w) - 1
	}
	switch e := e.(type) {
	case *ast.ParenExpr:
		return x.bound(e.X)
	case *ast.Ident:
		if w, ok := x.ubits[e.Name]; ok {
			return typeMax(w), true
		}
	case *ast.CallExpr:
		if _, a, b, ok := isIte(e); ok {
			m, ok1 := x.bound(a)
			n, ok2 := x.bound(b)
			if n > m {
				m = n
			}
			return m, ok1 && ok2
		}
		if len(e.Args) == 1 {
			if w := x.p.unsignedBits(e.Fun); w > 0 { // conversion to an unsigned type
				m := typeMax(w)
				if n, ok := x.bound(e.Args[0]); ok && n < m {
					m = n
				}
				return m, true
			}
			if id, ok := e.Fun.(*ast.Ident); ok && (id.Name == "int" || id.Name == "int64") {
				return x.bound(e.Args[0]) // every bounded value fits
			}
		}
	case *ast.BinaryExpr:
		m, ok1 := x.bound(e.X)
		n, ok2 := x.bound(e.Y)
		pow2 := func(v int64) int64 { // the smallest 2^k - 1 that is >= v
			r := int64(0)
			for r < v {
				r = r<<1 | 1
			}
			return r
		}
		switch e.Op {
		case token.AND:
			switch {
			case ok1 && ok2 && n < m:
				return n, true
			case ok1:
				return m, true
			case ok2:
				return n, true
			}
		case token.OR, token.XOR:
			if m < n {
				m = n
			}
			return pow2(m), ok1 && ok2 && m < 1<<61
		case token.ADD:
			return m + n, ok1 && ok2 && m < 1<<61 && n < 1<<61
		case token.MUL:
			return m * n, ok1 && ok2 && m < 1<<30 && n < 1<<30
		case token.SHR, token.QUO:
			return m, ok1 && ok2 // not larger than the left operand
		case token.REM:
			if c, isConst := x.p.evalConst(e.Y, 0); isConst && c > 0 {
				return c - 1, ok1
			}
		}
	}
	return 0, false
}

// lookupTable: e is the name of a package-level variable (not hidden by a local) that is indexed.  The CRC
// table keeps its own translation (main.go).
func (x *purifier) lookupTable(e ast.Expr, env pureEnv) *constTable {
	id, ok := e.(*ast.Ident)
	if !ok || id.Name == "tableCRC32" {
		return nil
	}
	if _, local := env[id.Name]; local {
		return nil
	}
	tbl, ok := x.p.table(e.Pos(), id.Name)
	if !ok {
		return nil
	}
	return tbl
}

func intLit(v int64) ast.Expr {
	return &ast.BasicLit{Kind: token.INT, Value: fmt.Sprintf("%d", v)}
}

// lookup expands tbl[idx] (idx reduced): the value, and for a map the presence of the key
func (x *purifier) lookup(pos token.Pos, tbl *constTable, idx ast.Expr) (val, present ast.Expr) {
	// an element: a constant expression of the package, converted to the element type
	elem := func(e ast.Expr) ast.Expr {
		if e == nil {
			return x.zeroValue(tbl.elemType)
		}
		v := x.subst(e, pureEnv{})
		if id, ok := tbl.elemType.(*ast.Ident); ok && basicConversions[id.Name] {
			v = &ast.CallExpr{Fun: id, Args: []ast.Expr{v}}
		}
		return v
	}
	eq := func(k int64) ast.Expr { return &ast.BinaryExpr{X: idx, Op: token.EQL, Y: intLit(k)} }
	if tbl.kind == "map" {
		val = x.zeroValue(tbl.elemType)
		present = ast.NewIdent("false")
		for i := len(tbl.keys) - 1; i >= 0; i-- {
			val = mkIte(eq(tbl.keys[i]), elem(tbl.vals[i]), val)
		}
		for i, k := range tbl.keys {
			if i == 0 {
				present = eq(k)
			} else {
				present = &ast.BinaryExpr{X: present, Op: token.LOR, Y: eq(k)}
			}
		}
		return val, &ast.ParenExpr{X: present}
	}
	n := int64(len(tbl.elems))
	if c, ok := x.p.evalConst(idx, 0); ok {
		if c < 0 || c >= n {
			x.die(pos, "%s[%d]: index out of range", tbl.name, c)
		}
		return elem(tbl.elems[c]), nil
	}
	if m, ok := x.bound(idx); !ok || m >= n {
		x.die(pos, "%s[%s]: cannot show that the index is below %d (out of range is a panic)", tbl.name, canon(idx), n)
	}
	val = elem(tbl.elems[n-1])
	for i := n - 2; i >= 0; i-- {
		val = mkIte(eq(i), elem(tbl.elems[i]), val)
	}
	return val, nil
}

// bytesCompare expands bytes.HasPrefix(x, lit) / bytes.Equal(x, lit) / bytes.Equal(lit, x), lit a []byte
// literal of constants, into len(x) >= n (resp. ==) && x[0] == c0 && …; nil if e is not such a call
func (x *purifier) bytesCompare(e *ast.CallExpr, env pureEnv) ast.Expr {
	sel, ok := e.Fun.(*ast.SelectorExpr)
	if !ok || len(e.Args) != 2 {
		return nil
	}
	pkg, ok := sel.X.(*ast.Ident)
	if !ok || pkg.Name != "bytes" || !x.p.imports["bytes"] || (sel.Sel.Name != "HasPrefix" && sel.Sel.Name != "Equal") {
		return nil
	}
	if _, local := env["bytes"]; local {
		return nil
	}
	literal := func(a ast.Expr) ([]ast.Expr, bool) {
		cl, ok := a.(*ast.CompositeLit)
		if !ok {
			return nil, false
		}
		if t := render(cl.Type); t != "[]byte" && t != "[]uint8" {
			return nil, false
		}
		var out []ast.Expr
		for _, el := range cl.Elts {
			v, ok := x.p.evalConst(el, 0)
			if !ok || v < 0 || v > 255 {
				x.die(el.Pos(), "element %s of the byte slice literal is not a byte constant", render(el))
			}
			out = append(out, intLit(v))
		}
		return out, true
	}
	lit, isLit := literal(e.Args[1])
	other := e.Args[0]
	if !isLit && sel.Sel.Name == "Equal" {
		lit, isLit = literal(e.Args[0])
		other = e.Args[1]
	}
	if !isLit {
		return nil
	}
	v := x.subst(other, env)
	op := token.GEQ
	if sel.Sel.Name == "Equal" {
		op = token.EQL
	}
	var r ast.Expr = &ast.BinaryExpr{X: &ast.CallExpr{Fun: ast.NewIdent("len"), Args: []ast.Expr{v}}, Op: op, Y: intLit(int64(len(lit)))}
	for i, c := range lit {
		r = &ast.BinaryExpr{X: r, Op: token.LAND, Y: &ast.BinaryExpr{X: &ast.IndexExpr{X: v, Index: intLit(int64(i))}, Op: token.EQL, Y: c}}
	}
	return &ast.ParenExpr{X: r}
}

// canon renders an expression as a lookup key: parentheses dropped, every binary expression
// parenthesised, no spaces: ps[(len(ps)-1)].Header.ContinuityCounter
func canon(e ast.Expr) string {
	switch e := e.(type) {
	case *ast.Ident:
		return e.Name
	case *ast.BasicLit:
		return e.Value
	case *ast.ParenExpr:
		return canon(e.X)
	case *ast.SelectorExpr:
		return canon(e.X) + "." + e.Sel.Name
	case *ast.IndexExpr:
		return canon(e.X) + "[" + canon(e.Index) + "]"
	case *ast.StarExpr:
		return "*" + canon(e.X)
	case *ast.UnaryExpr:
		return e.Op.String() + canon(e.X)
	case *ast.BinaryExpr:
		return "(" + canon(e.X) + e.Op.String() + canon(e.Y) + ")"
	case *ast.CallExpr:
		a := make([]string, len(e.Args))
		for i, x := range e.Args {
			a[i] = canon(x)
		}
		return canon(e.Fun) + "(" + strings.Join(a, ",") + ")"
	}
	return "?" + render(e)
}
