// extract regenerates Lean source from /repo's *current* Go source (working tree).
//
// It is deliberately tiny and works on a whitelist: anything it does not recognise is an error
// (exit 2), never a guess.  Output:
//
//	<out>/CRC.lean     the 256-entry table, the loop body of updateCRC32 and the init constant
//	<out>/Consts.lean  every integer package constant
//	<out>/Exprs.lean   pure predicate / arithmetic functions translated to Lean (Nat / Bool)
//	<out>/Lengths.lean the length calculators and other straight-line integer functions, translated
//	                   statement by statement over the model's structures (lengths.go)
//	<out>/Facts.lean   structural facts: package-level vars, NextBytesNoCopy result uses,
//	                   order of tests in packetAccumulator.add, writers returning the batch latch
//	<out>/facts.json   the same facts for the evidence files
package main

import (
	"encoding/json"
	"fmt"
	"go/ast"
	"go/parser"
	"go/token"
	"os"
	"path/filepath"
	"sort"
	"strconv"
	"strings"
)

var fset = token.NewFileSet()

type pkgInfo struct {
	files  map[string]*ast.File
	funcs  map[string]*ast.FuncDecl // key: name or Recv.name
	consts map[string]ast.Expr
	vars   []string
	varVal map[string]ast.Expr
	// for lengths.go: type declarations and the declared types of typed constants
	types      map[string]ast.Expr
	constTypes map[string]ast.Expr
}

func die(format string, a ...interface{}) {
	fmt.Fprintf(os.Stderr, "extract: "+format+"\n", a...)
	os.Exit(2)
}

func load(dir string) *pkgInfo {
	p := &pkgInfo{files: map[string]*ast.File{}, funcs: map[string]*ast.FuncDecl{}, consts: map[string]ast.Expr{}, varVal: map[string]ast.Expr{},
		types: map[string]ast.Expr{}, constTypes: map[string]ast.Expr{}}
	names, _ := filepath.Glob(filepath.Join(dir, "*.go"))
	sort.Strings(names)
	for _, n := range names {
		if strings.HasSuffix(n, "_test.go") {
			continue
		}
		src, err := os.ReadFile(n)
		if err != nil {
			die("%v", err)
		}
		// skip files excluded by build tags other than the default set (e.g. the verif hooks)
		if strings.Contains(string(src[:min(len(src), 200)]), "//go:build") {
			continue
		}
		f, err := parser.ParseFile(fset, n, src, parser.ParseComments)
		if err != nil {
			die("parse %s: %v", n, err)
		}
		if f.Name.Name != "astits" {
			continue
		}
		p.files[filepath.Base(n)] = f
		for _, d := range f.Decls {
			switch d := d.(type) {
			case *ast.FuncDecl:
				key := d.Name.Name
				if d.Recv != nil && len(d.Recv.List) == 1 {
					t := d.Recv.List[0].Type
					if s, ok := t.(*ast.StarExpr); ok {
						t = s.X
					}
					if id, ok := t.(*ast.Ident); ok {
						key = id.Name + "." + key
					}
				}
				p.funcs[key] = d
			case *ast.GenDecl:
				for _, s := range d.Specs {
					if ts, ok := s.(*ast.TypeSpec); ok {
						p.types[ts.Name.Name] = ts.Type
						continue
					}
					vs, ok := s.(*ast.ValueSpec)
					if !ok {
						continue
					}
					for i, nm := range vs.Names {
						if d.Tok == token.CONST {
							if i < len(vs.Values) {
								p.consts[nm.Name] = vs.Values[i]
								if vs.Type != nil {
									p.constTypes[nm.Name] = vs.Type
								}
							}
						} else if d.Tok == token.VAR {
							p.vars = append(p.vars, nm.Name)
							if i < len(vs.Values) {
								p.varVal[nm.Name] = vs.Values[i]
							}
						}
					}
				}
			}
		}
	}
	sort.Strings(p.vars)
	return p
}

// ---- constant evaluation (integers only) ----

func (p *pkgInfo) evalConst(e ast.Expr, depth int) (int64, bool) {
	if depth > 20 {
		return 0, false
	}
	switch e := e.(type) {
	case *ast.BasicLit:
		switch e.Kind {
		case token.INT:
			v, err := strconv.ParseInt(e.Value, 0, 64)
			if err != nil {
				u, err2 := strconv.ParseUint(e.Value, 0, 64)
				if err2 != nil {
					return 0, false
				}
				return int64(u), true
			}
			return v, true
		case token.CHAR:
			s, err := strconv.Unquote(e.Value)
			if err != nil || len(s) != 1 {
				return 0, false
			}
			return int64(s[0]), true
		}
		return 0, false
	case *ast.ParenExpr:
		return p.evalConst(e.X, depth+1)
	case *ast.Ident:
		if c, ok := p.consts[e.Name]; ok {
			return p.evalConst(c, depth+1)
		}
		return 0, false
	case *ast.CallExpr: // conversion T(x)
		if len(e.Args) == 1 {
			if _, ok := e.Fun.(*ast.Ident); ok {
				return p.evalConst(e.Args[0], depth+1)
			}
		}
		return 0, false
	case *ast.BinaryExpr:
		a, ok1 := p.evalConst(e.X, depth+1)
		b, ok2 := p.evalConst(e.Y, depth+1)
		if !ok1 || !ok2 {
			return 0, false
		}
		switch e.Op {
		case token.ADD:
			return a + b, true
		case token.SUB:
			return a - b, true
		case token.MUL:
			return a * b, true
		case token.SHL:
			return a << uint(b), true
		case token.OR:
			return a | b, true
		}
	}
	return 0, false
}

// ---- expression translation: Go expression -> Lean term ----
//
// mode "bv32": every value is a BitVec 32 (used for crc32.go)
// mode "nat":  integers are Nat (all operands in the whitelisted functions are unsigned and the
//              results are re-masked by the model; widths are handled in the Lean tie lemmas)

type tr struct {
	p     *pkgInfo
	mode  string
	subst map[string]string // identifier -> Lean term
}

func (t *tr) lit(v int64) string {
	if t.mode == "bv32" {
		return fmt.Sprintf("%d#32", uint32(v))
	}
	return fmt.Sprintf("%d", v)
}

func (t *tr) expr(e ast.Expr) string {
	switch e := e.(type) {
	case *ast.ParenExpr:
		return "(" + t.expr(e.X) + ")"
	case *ast.BasicLit:
		v, ok := t.p.evalConst(e, 0)
		if !ok {
			die("untranslatable literal %s", e.Value)
		}
		return t.lit(v)
	case *ast.Ident:
		if s, ok := t.subst[e.Name]; ok {
			return s
		}
		if e.Name == "true" || e.Name == "false" {
			return e.Name
		}
		if v, ok := t.p.evalConst(e, 0); ok {
			return t.lit(v)
		}
		die("unknown identifier %s at %s", e.Name, fset.Position(e.Pos()))
	case *ast.SelectorExpr:
		s := t.sel(e)
		if r, ok := t.subst[s]; ok {
			return r
		}
		die("unknown selector %s at %s", s, fset.Position(e.Pos()))
	case *ast.CallExpr:
		if id, ok := e.Fun.(*ast.Ident); ok && len(e.Args) == 1 {
			switch id.Name {
			case "uint8", "uint16", "uint32", "uint64", "int", "int64", "PSITableID", "byte":
				// conversion of an operand that already fits: identity in the model domain
				return t.expr(e.Args[0])
			case "len":
				return "(" + t.expr(e.Args[0]) + ").length"
			}
		}
		// method call on a known receiver, e.g. tableID.isUnknown()
		if se, ok := e.Fun.(*ast.SelectorExpr); ok && len(e.Args) == 0 {
			recv := t.expr(se.X)
			return "(G" + se.Sel.Name + " " + recv + ")"
		}
		die("untranslatable call at %s", fset.Position(e.Pos()))
	case *ast.IndexExpr:
		if id, ok := e.X.(*ast.Ident); ok && id.Name == "tableCRC32" {
			return "crcTable.getD (" + t.expr(e.Index) + ").toNat 0#32"
		}
		s := t.exprKey(e)
		if r, ok := t.subst[s]; ok {
			return r
		}
		die("untranslatable index %s at %s", s, fset.Position(e.Pos()))
	case *ast.UnaryExpr:
		if e.Op == token.NOT {
			return "(!" + t.expr(e.X) + ")"
		}
	case *ast.BinaryExpr:
		a, b := t.expr(e.X), t.expr(e.Y)
		switch e.Op {
		case token.SHL:
			if t.mode == "bv32" {
				if v, ok := t.p.evalConst(e.Y, 0); ok {
					return fmt.Sprintf("(%s <<< %d)", a, v)
				}
			}
			return "(" + a + " <<< " + b + ")"
		case token.SHR:
			if t.mode == "bv32" {
				if v, ok := t.p.evalConst(e.Y, 0); ok {
					return fmt.Sprintf("(%s >>> %d)", a, v)
				}
			}
			return "(" + a + " >>> " + b + ")"
		case token.XOR:
			return "(" + a + " ^^^ " + b + ")"
		case token.AND:
			return "(" + a + " &&& " + b + ")"
		case token.OR:
			return "(" + a + " ||| " + b + ")"
		case token.ADD:
			return "(" + a + " + " + b + ")"
		case token.SUB:
			return "(" + a + " - " + b + ")"
		case token.MUL:
			return "(" + a + " * " + b + ")"
		case token.REM:
			return "(" + a + " % " + b + ")"
		case token.QUO:
			return "(" + a + " / " + b + ")"
		case token.LAND:
			return "(" + a + " && " + b + ")"
		case token.LOR:
			return "(" + a + " || " + b + ")"
		case token.EQL:
			return "(" + a + " == " + b + ")"
		case token.NEQ:
			return "(" + a + " != " + b + ")"
		case token.LSS:
			return "(decide (" + a + " < " + b + "))"
		case token.GTR:
			return "(decide (" + a + " > " + b + "))"
		case token.LEQ:
			return "(decide (" + a + " ≤ " + b + "))"
		case token.GEQ:
			return "(decide (" + a + " ≥ " + b + "))"
		}
	}
	die("untranslatable expression at %s", fset.Position(e.Pos()))
	return ""
}

func (t *tr) sel(e *ast.SelectorExpr) string {
	switch x := e.X.(type) {
	case *ast.Ident:
		return x.Name + "." + e.Sel.Name
	case *ast.SelectorExpr:
		return t.sel(x) + "." + e.Sel.Name
	case *ast.IndexExpr:
		return t.exprKey(x) + "." + e.Sel.Name
	}
	die("untranslatable selector at %s", fset.Position(e.Pos()))
	return ""
}

// exprKey renders index expressions such as ps[l-1] or bs[0] as lookup keys
func (t *tr) exprKey(e *ast.IndexExpr) string {
	var x string
	switch v := e.X.(type) {
	case *ast.Ident:
		x = v.Name
	default:
		die("untranslatable index base at %s", fset.Position(e.Pos()))
	}
	switch i := e.Index.(type) {
	case *ast.BasicLit:
		return x + "[" + i.Value + "]"
	case *ast.BinaryExpr:
		if a, ok := i.X.(*ast.Ident); ok {
			if b, ok := i.Y.(*ast.BasicLit); ok {
				return x + "[" + a.Name + i.Op.String() + b.Value + "]"
			}
		}
	}
	die("untranslatable index at %s", fset.Position(e.Pos()))
	return ""
}

// singleReturn returns the expression of a function whose body is exactly `return <expr>`
// (optionally preceded by simple `name := expr` definitions, which are inlined).
func (p *pkgInfo) singleReturn(name string, t *tr) ast.Expr {
	fd, ok := p.funcs[name]
	if !ok {
		die("function %s not found", name)
	}
	var ret ast.Expr
	for _, st := range fd.Body.List {
		switch s := st.(type) {
		case *ast.AssignStmt:
			if len(s.Lhs) == 1 && len(s.Rhs) == 1 && s.Tok == token.DEFINE {
				if id, ok := s.Lhs[0].(*ast.Ident); ok {
					t.subst[id.Name] = "(" + t.expr(s.Rhs[0]) + ")"
					continue
				}
			}
			die("%s: unsupported assignment", name)
		case *ast.ReturnStmt:
			if len(s.Results) != 1 {
				die("%s: unsupported return", name)
			}
			ret = s.Results[0]
		default:
			die("%s: body is not a single return (%T)", name, st)
		}
	}
	if ret == nil {
		die("%s: no return", name)
	}
	return ret
}

// ---- emitters ----

func emitCRC(p *pkgInfo, out string) {
	var b strings.Builder
	b.WriteString("-- REGENERATED by /verif/extract from /repo/crc32.go and /repo/crc32_table.go. Do not edit.\nimport Astits.Basic\nnamespace Astits.Generated\n\n")
	tv, ok := p.varVal["tableCRC32"]
	if !ok {
		die("tableCRC32 not found")
	}
	cl, ok := tv.(*ast.CompositeLit)
	if !ok {
		die("tableCRC32 is not a composite literal")
	}
	b.WriteString("def crcTable : List (BitVec 32) := [\n")
	for i, e := range cl.Elts {
		v, ok := p.evalConst(e, 0)
		if !ok {
			die("tableCRC32[%d] is not a literal", i)
		}
		if i > 0 {
			b.WriteString(",")
			if i%8 == 0 {
				b.WriteString("\n")
			}
		}
		fmt.Fprintf(&b, " 0x%08X#32", uint32(v))
	}
	b.WriteString("]\n\n")
	// computeCRC32: return updateCRC32(<init>, bs)
	t := &tr{p: p, mode: "bv32", subst: map[string]string{}}
	ce := p.singleReturn("computeCRC32", t)
	call, ok := ce.(*ast.CallExpr)
	if !ok || len(call.Args) != 2 {
		die("computeCRC32: unexpected body")
	}
	if id, ok := call.Fun.(*ast.Ident); !ok || id.Name != "updateCRC32" {
		die("computeCRC32 does not call updateCRC32")
	}
	if id, ok := call.Args[1].(*ast.Ident); !ok || id.Name != "bs" {
		die("computeCRC32 does not pass bs")
	}
	fmt.Fprintf(&b, "def crcInit : BitVec 32 := %s\n\n", t.expr(call.Args[0]))
	// updateCRC32: for _, b := range bs { crc32 = <expr> }; return crc32
	fd := p.funcs["updateCRC32"]
	if fd == nil || len(fd.Body.List) != 2 {
		die("updateCRC32: unexpected shape")
	}
	rs, ok := fd.Body.List[0].(*ast.RangeStmt)
	if !ok || len(rs.Body.List) != 1 {
		die("updateCRC32: no single range loop")
	}
	if id, ok := rs.X.(*ast.Ident); !ok || id.Name != "bs" {
		die("updateCRC32: loop does not range over bs")
	}
	if k, ok := rs.Key.(*ast.Ident); !ok || k.Name != "_" {
		die("updateCRC32: loop uses the index")
	}
	as, ok := rs.Body.List[0].(*ast.AssignStmt)
	if !ok || len(as.Lhs) != 1 || as.Tok != token.ASSIGN {
		die("updateCRC32: loop body is not one assignment")
	}
	if id, ok := as.Lhs[0].(*ast.Ident); !ok || id.Name != "crc32" {
		die("updateCRC32: assignment target")
	}
	if r, ok := fd.Body.List[1].(*ast.ReturnStmt); !ok || len(r.Results) != 1 {
		die("updateCRC32: return")
	} else if id, ok := r.Results[0].(*ast.Ident); !ok || id.Name != "crc32" {
		die("updateCRC32: does not return crc32")
	}
	t2 := &tr{p: p, mode: "bv32", subst: map[string]string{"crc32": "crc32", rs.Value.(*ast.Ident).Name: "b"}}
	fmt.Fprintf(&b, "/-- loop body of updateCRC32; `b` is the byte zero-extended to 32 bits -/\ndef crcStep (crc32 b : BitVec 32) : BitVec 32 :=\n  %s\n\nend Astits.Generated\n", t2.expr(as.Rhs[0]))
	write(filepath.Join(out, "CRC.lean"), b.String())
}

func emitConsts(p *pkgInfo, out string) map[string]int64 {
	var b strings.Builder
	b.WriteString("-- REGENERATED by /verif/extract: integer package constants of /repo. Do not edit.\nnamespace Astits.Generated.C\n\n")
	names := make([]string, 0, len(p.consts))
	for n := range p.consts {
		names = append(names, n)
	}
	sort.Strings(names)
	vals := map[string]int64{}
	for _, n := range names {
		v, ok := p.evalConst(p.consts[n], 0)
		if !ok {
			continue // string constants etc.
		}
		vals[n] = v
		fmt.Fprintf(&b, "def %s : Int := %d\n", leanName(n), v)
	}
	b.WriteString("\nend Astits.Generated.C\n")
	write(filepath.Join(out, "Consts.lean"), b.String())
	return vals
}

func leanName(n string) string { return "c_" + n }

func write(path, content string) {
	old, err := os.ReadFile(path)
	if err == nil && string(old) == content {
		return // keep mtime: lake then reuses the compiled proofs
	}
	if err := os.WriteFile(path, []byte(content), 0o644); err != nil {
		die("%v", err)
	}
}

func main() {
	if len(os.Args) != 3 {
		die("usage: extract <repo dir> <out dir>")
	}
	p := load(os.Args[1])
	out := os.Args[2]
	os.MkdirAll(out, 0o755)
	emitCRC(p, out)
	consts := emitConsts(p, out)
	facts := emitExprsAndFacts(p, out)
	emitLengths(p, out)
	facts["consts"] = consts
	js, _ := json.MarshalIndent(facts, "", " ")
	write(filepath.Join(out, "facts.json"), string(js)+"\n")
}
