// extract regenerates Lean source from /repo's *current* Go source (working tree).
//
// It is deliberately small and works on a whitelist: anything it does not recognise is an error
// (exit 2), never a guess.  Output:
//
//	<out>/CRC.lean     the 256-entry table, the loop body of updateCRC32 and the init constant
//	<out>/Consts.lean  every integer package constant
//	<out>/Exprs.lean   pure predicate / arithmetic functions translated to Lean (Nat / Bool)
//	<out>/Lengths.lean the length calculators and other straight-line integer functions, translated
//	                   statement by statement over the model's structures (lengths.go)
//	<out>/Facts.lean   structural facts: the package-level variables that are written (tables.go; the full
//	                   list is informative), NextBytesNoCopy result uses, the tests of packetAccumulator.add per
//	                   if statement in source order, writers returning the batch latch
//	<out>/facts.json   the same facts for the evidence files
//
// The translation is meant to be insensitive to behaviour-preserving refactorings of /repo as far as
// that is possible without guessing: parameter and receiver names are read from the AST, local
// variables are substituted, guard clauses / switches / single expressions give the same kind of
// term, and a call of another function of the package is followed (pure.go for CRC.lean and
// Exprs.lean, inlineTerm in lengths.go for Lengths.lean); a lookup in a package-level table that nothing
// writes (tables.go) is expanded into a conditional chain, provided the index is shown to be in range;
// comparisons of string constants and of byte slices with literals are evaluated or expanded (exprs.go,
// pure.go).  What the generated definitions MEAN is checked by the tie theorems in lean/Astits/Props, whose
// proofs do not depend on their shape.
package main

import (
	"encoding/json"
	"fmt"
	"go/ast"
	"go/parser"
	"go/token"
	"os"
	"path/filepath"
	"sort"
	"strconv"
	"strings"
)

var fset = token.NewFileSet()

type pkgInfo struct {
	files  map[string]*ast.File
	funcs  map[string]*ast.FuncDecl // key: name or Recv.name
	consts map[string]ast.Expr
	vars   []string
	varVal map[string]ast.Expr
	// for lengths.go: type declarations and the declared types of typed constants
	types      map[string]ast.Expr
	constTypes map[string]ast.Expr
	// standard-library packages imported under their own name by some file of the package
	imports map[string]bool
	// for tables.go: declared types of the package-level variables, their declarations, and the caches
	varTypes map[string]ast.Expr
	pkgSpecs map[*ast.ValueSpec]bool
	written  []varWrite
	tables   map[string]*constTable
}

// dieErr is what die panics with: main recovers it per output file, so that a function the translator cannot handle
// only invalidates the generated file it belongs to (fail closed per file, see main)
type dieErr struct{ msg string }

func die(format string, a ...interface{}) {
	msg := fmt.Sprintf("extract: "+format, a...)
	fmt.Fprintln(os.Stderr, msg)
	panic(dieErr{msg})
}

func load(dir string) *pkgInfo {
	p := &pkgInfo{files: map[string]*ast.File{}, funcs: map[string]*ast.FuncDecl{}, consts: map[string]ast.Expr{}, varVal: map[string]ast.Expr{},
		types: map[string]ast.Expr{}, constTypes: map[string]ast.Expr{}, imports: map[string]bool{},
		varTypes: map[string]ast.Expr{}, pkgSpecs: map[*ast.ValueSpec]bool{}, tables: map[string]*constTable{}}
	names, _ := filepath.Glob(filepath.Join(dir, "*.go"))
	sort.Strings(names)
	for _, n := range names {
		if strings.HasSuffix(n, "_test.go") {
			continue
		}
		src, err := os.ReadFile(n)
		if err != nil {
			die("%v", err)
		}
		// skip files excluded by build tags other than the default set (e.g. the verif hooks)
		if strings.Contains(string(src[:min(len(src), 200)]), "//go:build") {
			continue
		}
		f, err := parser.ParseFile(fset, n, src, parser.ParseComments)
		if err != nil {
			die("parse %s: %v", n, err)
		}
		if f.Name.Name != "astits" {
			continue
		}
		p.files[filepath.Base(n)] = f
		for _, im := range f.Imports {
			if path, err := strconv.Unquote(im.Path.Value); err == nil && (im.Name == nil || im.Name.Name == filepath.Base(path)) {
				p.imports[path] = true
			}
		}
		for _, d := range f.Decls {
			switch d := d.(type) {
			case *ast.FuncDecl:
				key := d.Name.Name
				if d.Recv != nil && len(d.Recv.List) == 1 {
					t := d.Recv.List[0].Type
					if s, ok := t.(*ast.StarExpr); ok {
						t = s.X
					}
					if id, ok := t.(*ast.Ident); ok {
						key = id.Name + "." + key
					}
				}
				p.funcs[key] = d
			case *ast.GenDecl:
				for _, s := range d.Specs {
					if ts, ok := s.(*ast.TypeSpec); ok {
						p.types[ts.Name.Name] = ts.Type
						continue
					}
					vs, ok := s.(*ast.ValueSpec)
					if !ok {
						continue
					}
					for i, nm := range vs.Names {
						if d.Tok == token.CONST {
							if i < len(vs.Values) {
								p.consts[nm.Name] = vs.Values[i]
								if vs.Type != nil {
									p.constTypes[nm.Name] = vs.Type
								}
							}
						} else if d.Tok == token.VAR {
							p.vars = append(p.vars, nm.Name)
							p.varTypes[nm.Name] = vs.Type
							p.pkgSpecs[vs] = true
							if i < len(vs.Values) {
								p.varVal[nm.Name] = vs.Values[i]
							}
						}
					}
				}
			}
		}
	}
	sort.Strings(p.vars)
	return p
}

// ---- constant evaluation (integers only) ----

// the integer limits of package math.  Like an unsigned literal above 2^63, MaxUint64 is returned as the
// int64 with the same bit pattern.
var mathConsts = map[string]int64{
	"MaxInt8": 1<<7 - 1, "MinInt8": -1 << 7, "MaxInt16": 1<<15 - 1, "MinInt16": -1 << 15,
	"MaxInt32": 1<<31 - 1, "MinInt32": -1 << 31, "MaxInt64": 1<<63 - 1, "MinInt64": -1 << 63,
	"MaxInt": 1<<63 - 1, "MinInt": -1 << 63,
	"MaxUint8": 1<<8 - 1, "MaxUint16": 1<<16 - 1, "MaxUint32": 1<<32 - 1, "MaxUint64": -1, "MaxUint": -1,
}

func (p *pkgInfo) evalConst(e ast.Expr, depth int) (int64, bool) {
	if depth > 20 {
		return 0, false
	}
	switch e := e.(type) {
	case *ast.BasicLit:
		switch e.Kind {
		case token.INT:
			v, err := strconv.ParseInt(e.Value, 0, 64)
			if err != nil {
				u, err2 := strconv.ParseUint(e.Value, 0, 64)
				if err2 != nil {
					return 0, false
				}
				return int64(u), true
			}
			return v, true
		case token.CHAR:
			s, err := strconv.Unquote(e.Value)
			if err != nil || len(s) != 1 {
				return 0, false
			}
			return int64(s[0]), true
		}
		return 0, false
	case *ast.ParenExpr:
		return p.evalConst(e.X, depth+1)
	case *ast.Ident:
		if c, ok := p.consts[e.Name]; ok {
			return p.evalConst(c, depth+1)
		}
		return 0, false
	case *ast.SelectorExpr: // the limits of the integer types (package math)
		if id, ok := e.X.(*ast.Ident); ok && id.Name == "math" && p.imports["math"] {
			if _, shadowed := p.consts["math"]; !shadowed {
				if v, ok := mathConsts[e.Sel.Name]; ok {
					return v, true
				}
			}
		}
		return 0, false
	case *ast.CallExpr: // conversion T(x) to an integer type
		if len(e.Args) == 1 {
			if id, ok := e.Fun.(*ast.Ident); ok {
				if _, named := p.types[id.Name]; basicConversions[id.Name] || named {
					return p.evalConst(e.Args[0], depth+1)
				}
			}
		}
		return 0, false
	case *ast.BinaryExpr:
		a, ok1 := p.evalConst(e.X, depth+1)
		b, ok2 := p.evalConst(e.Y, depth+1)
		if !ok1 || !ok2 {
			return 0, false
		}
		switch e.Op {
		case token.ADD:
			return a + b, true
		case token.SUB:
			return a - b, true
		case token.MUL:
			return a * b, true
		case token.SHL:
			return a << uint(b), true
		case token.OR:
			return a | b, true
		case token.AND:
			return a & b, true
		case token.XOR:
			return a ^ b, true
		case token.AND_NOT:
			return a &^ b, true
		case token.SHR:
			return a >> uint(b), true
		case token.QUO:
			if b != 0 {
				return a / b, true
			}
		case token.REM:
			if b != 0 {
				return a % b, true
			}
		}
	}
	return 0, false
}

// ---- crc32.go: typed translation to fixed-width bit vectors ----
//
// Every value is a BitVec of the width of its Go type (uint32 -> BitVec 32, byte -> BitVec 8, …):
// conversions are setWidth (zero extension / truncation), the operators are BitVec's (which wrap
// exactly like Go's unsigned arithmetic), untyped constants take the width of the other operand.

type bvVal struct {
	lean  string
	bits  int   // 0: untyped constant
	val   int64 // value of the constant
	isVar bool
}

type bvtr struct {
	p    *pkgInfo
	vars map[string]bvVal
}

var bvWidths = map[string]int{"uint8": 8, "byte": 8, "uint16": 16, "uint32": 32, "uint64": 64}

func (t *bvtr) die(e ast.Expr, format string, a ...interface{}) {
	die("crc32.go (%s): %s: %s", fset.Position(e.Pos()), canon(e), fmt.Sprintf(format, a...))
}

// typed: a constant at a given width
func (t *bvtr) typed(e ast.Expr, v bvVal, bits int) bvVal {
	if v.bits != 0 {
		if v.bits != bits {
			t.die(e, "operand of width %d used at width %d", v.bits, bits)
		}
		return v
	}
	if v.val < 0 || (bits < 63 && v.val >= int64(1)<<uint(bits)) {
		t.die(e, "constant %d does not fit %d bits", v.val, bits)
	}
	return bvVal{lean: fmt.Sprintf("%d#%d", uint64(v.val), bits), bits: bits}
}

func (t *bvtr) ex(e ast.Expr) bvVal {
	if v, ok := t.p.evalConst(e, 0); ok {
		return bvVal{val: v}
	}
	switch e := e.(type) {
	case *ast.ParenExpr:
		return t.ex(e.X)
	case *ast.Ident:
		if v, ok := t.vars[e.Name]; ok {
			return v
		}
		t.die(e, "unknown identifier")
	case *ast.IndexExpr:
		if id, ok := e.X.(*ast.Ident); !ok || id.Name != "tableCRC32" {
			t.die(e, "only tableCRC32 can be indexed")
		}
		i := t.ex(e.Index)
		if i.bits == 0 {
			if i.val < 0 || i.val > 255 {
				t.die(e, "constant index out of range")
			}
			return bvVal{lean: fmt.Sprintf("crcTable.getD %d 0#32", i.val), bits: 32}
		}
		return bvVal{lean: "crcTable.getD (" + i.lean + ").toNat 0#32", bits: 32}
	case *ast.CallExpr:
		if c, a, b, ok := isIte(e); ok {
			x, y := t.ex(a), t.ex(b)
			bits := x.bits
			if bits == 0 {
				bits = y.bits
			}
			if bits == 0 {
				t.die(e, "conditional between untyped constants")
			}
			x, y = t.typed(a, x, bits), t.typed(b, y, bits)
			return bvVal{lean: "(if " + t.cond(c) + " then " + x.lean + " else " + y.lean + ")", bits: bits}
		}
		if w, ok := bvWidths[canon(e.Fun)]; ok && len(e.Args) == 1 {
			x := t.ex(e.Args[0])
			switch {
			case x.bits == 0:
				return t.typed(e, x, w)
			case x.bits == w:
				return x
			}
			return bvVal{lean: "(" + x.lean + ".setWidth " + fmt.Sprint(w) + ")", bits: w}
		}
		t.die(e, "unsupported call")
	case *ast.BinaryExpr:
		x, y := t.ex(e.X), t.ex(e.Y)
		switch e.Op {
		case token.SHL, token.SHR:
			if x.bits == 0 {
				t.die(e, "shift of an untyped constant by a variable")
			}
			op := map[token.Token]string{token.SHL: "<<<", token.SHR: ">>>"}[e.Op]
			if y.bits == 0 {
				if y.val < 0 {
					t.die(e, "negative shift count")
				}
				return bvVal{lean: fmt.Sprintf("(%s %s %d)", x.lean, op, y.val), bits: x.bits}
			}
			return bvVal{lean: "(" + x.lean + " " + op + " " + y.lean + ")", bits: x.bits}
		}
		bits := x.bits
		if bits == 0 {
			bits = y.bits
		}
		x, y = t.typed(e.X, x, bits), t.typed(e.Y, y, bits)
		switch e.Op {
		case token.XOR, token.AND, token.OR, token.ADD, token.SUB, token.MUL:
			op := map[token.Token]string{token.XOR: "^^^", token.AND: "&&&", token.OR: "|||", token.ADD: "+", token.SUB: "-", token.MUL: "*"}[e.Op]
			return bvVal{lean: "(" + x.lean + " " + op + " " + y.lean + ")", bits: bits}
		case token.AND_NOT:
			return bvVal{lean: "(" + x.lean + " &&& ~~~" + y.lean + ")", bits: bits}
		}
		t.die(e, "unsupported operator %s", e.Op)
	}
	t.die(e, "unsupported expression")
	return bvVal{}
}

// cond: a Go bool expression as a Lean Bool
func (t *bvtr) cond(e ast.Expr) string {
	switch e := e.(type) {
	case *ast.ParenExpr:
		return t.cond(e.X)
	case *ast.UnaryExpr:
		if e.Op == token.NOT {
			return "(!" + t.cond(e.X) + ")"
		}
	case *ast.BinaryExpr:
		switch e.Op {
		case token.LAND:
			return "(" + t.cond(e.X) + " && " + t.cond(e.Y) + ")"
		case token.LOR:
			return "(" + t.cond(e.X) + " || " + t.cond(e.Y) + ")"
		case token.EQL, token.NEQ, token.LSS, token.GTR, token.LEQ, token.GEQ:
			x, y := t.ex(e.X), t.ex(e.Y)
			bits := x.bits
			if bits == 0 {
				bits = y.bits
			}
			if bits == 0 {
				t.die(e, "constant condition")
			}
			x, y = t.typed(e.X, x, bits), t.typed(e.Y, y, bits)
			switch e.Op {
			case token.EQL:
				return "(" + x.lean + " == " + y.lean + ")"
			case token.NEQ:
				return "(" + x.lean + " != " + y.lean + ")"
			}
			op := map[token.Token]string{token.LSS: "<", token.GTR: ">", token.LEQ: "≤", token.GEQ: "≥"}[e.Op]
			return "(decide (" + x.lean + " " + op + " " + y.lean + "))" // unsigned order of BitVec
		}
	}
	t.die(e, "unsupported condition")
	return ""
}

// replaceElem replaces every `bs[idx]` (the current element of an indexed loop) by the identifier b
func replaceElem(e ast.Expr, slice, idx string) ast.Expr {
	isElem := func(n ast.Expr) bool {
		ie, ok := n.(*ast.IndexExpr)
		if !ok {
			return false
		}
		s, ok1 := ie.X.(*ast.Ident)
		i, ok2 := ie.Index.(*ast.Ident)
		return ok1 && ok2 && s.Name == slice && i.Name == idx
	}
	var rw func(n ast.Expr) ast.Expr
	rw = func(n ast.Expr) ast.Expr {
		if isElem(n) {
			return ast.NewIdent("b")
		}
		switch n := n.(type) {
		case *ast.ParenExpr:
			return &ast.ParenExpr{X: rw(n.X)}
		case *ast.IndexExpr:
			return &ast.IndexExpr{X: rw(n.X), Index: rw(n.Index)}
		case *ast.UnaryExpr:
			return &ast.UnaryExpr{Op: n.Op, X: rw(n.X)}
		case *ast.BinaryExpr:
			return &ast.BinaryExpr{X: rw(n.X), Op: n.Op, Y: rw(n.Y)}
		case *ast.CallExpr:
			c := &ast.CallExpr{Fun: n.Fun}
			for _, a := range n.Args {
				c.Args = append(c.Args, rw(a))
			}
			return c
		}
		return n
	}
	return rw(e)
}

// ---- emitters ----

func emitCRC(p *pkgInfo, out string) {
	var b strings.Builder
	b.WriteString("-- REGENERATED by /verif/extract from /repo/crc32.go and /repo/crc32_table.go. Do not edit.\nimport Astits.Basic\nnamespace Astits.Generated\n\n")
	tv, ok := p.varVal["tableCRC32"]
	if !ok {
		die("tableCRC32 not found")
	}
	cl, ok := tv.(*ast.CompositeLit)
	if !ok {
		die("tableCRC32 is not a composite literal")
	}
	b.WriteString("def crcTable : List (BitVec 32) := [\n")
	for i, e := range cl.Elts {
		v, ok := p.evalConst(e, 0)
		if !ok {
			die("tableCRC32[%d] is not a literal", i)
		}
		if i > 0 {
			b.WriteString(",")
			if i%8 == 0 {
				b.WriteString("\n")
			}
		}
		fmt.Fprintf(&b, " 0x%08X#32", uint32(v))
	}
	b.WriteString("]\n\n")

	// computeCRC32(bs) = updateCRC32(<init>, bs), possibly through locals or a helper
	isUpdate := func(c *ast.CallExpr) bool { id, ok := c.Fun.(*ast.Ident); return ok && id.Name == "updateCRC32" }
	ce := pureExpr(p, "computeCRC32", []string{"bs"}, isUpdate)
	for {
		pe, ok := ce.(*ast.ParenExpr)
		if !ok {
			break
		}
		ce = pe.X
	}
	call, ok := ce.(*ast.CallExpr)
	if !ok || !isUpdate(call) || len(call.Args) != 2 {
		die("computeCRC32 is not a call of updateCRC32: %s", canon(ce))
	}
	if canon(call.Args[1]) != "bs" {
		die("computeCRC32 does not pass its argument to updateCRC32: %s", canon(call.Args[1]))
	}
	t := &bvtr{p: p, vars: map[string]bvVal{}}
	init := t.typed(call.Args[0], t.ex(call.Args[0]), 32)
	fmt.Fprintf(&b, "def crcInit : BitVec 32 := %s\n\n", init.lean)

	// updateCRC32(crc, bs): one loop over bs that assigns crc, then `return crc`.  Accepted loops:
	//   for _, b := range bs { … }        for i := range bs { … bs[i] … }
	//   for i := 0; i < len(bs); i++ { … bs[i] … }
	// The loop body is reduced to the new value of crc as one expression over crc32 and b (pure.go:
	// locals are substituted, helper functions are inlined).
	fd := p.funcs["updateCRC32"]
	if fd == nil || fd.Recv != nil || fd.Body == nil || len(fd.Body.List) != 2 {
		die("updateCRC32: unexpected shape (want one loop and a return)")
	}
	var pnames, ptypes []string
	for _, f := range fd.Type.Params.List {
		for _, n := range f.Names {
			pnames = append(pnames, n.Name)
			ptypes = append(ptypes, render(f.Type))
		}
	}
	if len(pnames) != 2 || ptypes[0] != "uint32" || ptypes[1] != "[]byte" || fd.Type.Results == nil ||
		len(fd.Type.Results.List) != 1 || len(fd.Type.Results.List[0].Names) != 0 || render(fd.Type.Results.List[0].Type) != "uint32" {
		die("updateCRC32: unexpected signature")
	}
	crc, bs := pnames[0], pnames[1]
	var body *ast.BlockStmt
	elemVar, idxVar := "", ""
	isIdent := func(e ast.Expr, name string) bool { id, ok := e.(*ast.Ident); return ok && id.Name == name }
	switch l := fd.Body.List[0].(type) {
	case *ast.RangeStmt:
		if !isIdent(l.X, bs) || l.Tok != token.DEFINE {
			die("updateCRC32: the loop does not range over %s", bs)
		}
		body = l.Body
		switch {
		case l.Value != nil && (l.Key == nil || isIdent(l.Key, "_")):
			elemVar = l.Value.(*ast.Ident).Name
		case l.Value == nil && l.Key != nil && !isIdent(l.Key, "_"):
			idxVar = l.Key.(*ast.Ident).Name
		default:
			die("updateCRC32: the range loop uses both the index and the value")
		}
	case *ast.ForStmt:
		in, ok1 := l.Init.(*ast.AssignStmt)
		po, ok2 := l.Post.(*ast.IncDecStmt)
		if !ok1 || !ok2 || in.Tok != token.DEFINE || len(in.Lhs) != 1 || len(in.Rhs) != 1 || l.Cond == nil {
			die("updateCRC32: unsupported for loop")
		}
		idxVar = in.Lhs[0].(*ast.Ident).Name
		if v, ok := p.evalConst(in.Rhs[0], 0); !ok || v != 0 || po.Tok != token.INC || !isIdent(po.X, idxVar) ||
			canon(l.Cond) != "("+idxVar+"<len("+bs+"))" {
			die("updateCRC32: the for loop is not `for i := 0; i < len(%s); i++`", bs)
		}
		body = l.Body
	default:
		die("updateCRC32: the first statement is not a loop")
	}
	ast.Inspect(body, func(n ast.Node) bool {
		switch s := n.(type) {
		case *ast.ReturnStmt, *ast.BranchStmt, *ast.ForStmt, *ast.RangeStmt, *ast.FuncLit:
			die("updateCRC32 (%s): unsupported statement in the loop body", fset.Position(s.Pos()))
		case *ast.AssignStmt:
			for _, lhs := range s.Lhs {
				if isIdent(lhs, idxVar) || isIdent(lhs, bs) || isIdent(lhs, elemVar) {
					die("updateCRC32 (%s): the loop body assigns %s", fset.Position(s.Pos()), render(lhs))
				}
			}
		case *ast.IncDecStmt:
			if !isIdent(s.X, crc) {
				die("updateCRC32 (%s): unsupported statement in the loop body", fset.Position(s.Pos()))
			}
		}
		return true
	})
	if r, ok := fd.Body.List[1].(*ast.ReturnStmt); !ok || len(r.Results) != 1 || !isIdent(r.Results[0], crc) {
		die("updateCRC32: does not end with `return %s`", crc)
	}
	x := &purifier{p: p, name: "updateCRC32"}
	env := pureEnv{crc: ast.NewIdent("crc32")}
	if elemVar != "" {
		env[elemVar] = ast.NewIdent("b")
	}
	fr := &pureFrame{x: x}
	step := fr.block(body.List, env, func(e pureEnv) ast.Expr { return e[crc] })
	if idxVar != "" {
		step = replaceElem(step, bs, idxVar)
	}
	t2 := &bvtr{p: p, vars: map[string]bvVal{"crc32": {lean: "crc32", bits: 32, isVar: true}, "b": {lean: "b", bits: 8, isVar: true}}}
	sv := t2.ex(step)
	if sv.bits != 32 {
		die("updateCRC32: the new value of %s is not a uint32", crc)
	}
	fmt.Fprintf(&b, "/-- the new value of the running CRC after one iteration of the loop of updateCRC32 on the byte `b` -/\ndef crcStep (crc32 : BitVec 32) (b : BitVec 8) : BitVec 32 :=\n  %s\n\nend Astits.Generated\n", sv.lean)
	write(filepath.Join(out, "CRC.lean"), b.String())
}

func emitConsts(p *pkgInfo, out string) map[string]int64 {
	var b strings.Builder
	b.WriteString("-- REGENERATED by /verif/extract: integer package constants of /repo. Do not edit.\nnamespace Astits.Generated.C\n\n")
	names := make([]string, 0, len(p.consts))
	for n := range p.consts {
		names = append(names, n)
	}
	sort.Strings(names)
	vals := map[string]int64{}
	for _, n := range names {
		v, ok := p.evalConst(p.consts[n], 0)
		if !ok {
			continue // string constants etc.
		}
		vals[n] = v
		fmt.Fprintf(&b, "def %s : Int := %d\n", leanName(n), v)
	}
	b.WriteString("\nend Astits.Generated.C\n")
	write(filepath.Join(out, "Consts.lean"), b.String())
	return vals
}

func leanName(n string) string { return "c_" + n }

func write(path, content string) {
	old, err := os.ReadFile(path)
	if err == nil && string(old) == content {
		return // keep mtime: lake then reuses the compiled proofs
	}
	if err := os.WriteFile(path, []byte(content), 0o644); err != nil {
		die("%v", err)
	}
}

// failStub is written in place of a generated file whose translation failed: it does not compile, so every theorem
// that imports it fails to check (and only those); the message is part of the proposition Lean prints
func failStub(path, msg string) {
	q := strings.NewReplacer("\\", "/", "\"", "'", "\n", " ").Replace(msg)
	write(path, "-- REGENERATED by /verif/extract: TRANSLATION FAILED, this file fails closed. Do not edit.\n"+
		"namespace Astits.Generated\n\n/-- "+q+" -/\ntheorem extract_failed : \""+q+"\" = \"\" := by decide\n\nend Astits.Generated\n")
}

// guarded runs one emitter; if it dies, the files it is responsible for are replaced by failing stubs
func guarded(out string, files []string, failed *[]string, fn func()) {
	defer func() {
		if r := recover(); r != nil {
			de, ok := r.(dieErr)
			if !ok {
				panic(r)
			}
			for _, f := range files {
				failStub(filepath.Join(out, f), de.msg)
			}
			*failed = append(*failed, files...)
		}
	}()
	fn()
}

func main() {
	if len(os.Args) != 3 {
		fmt.Fprintln(os.Stderr, "usage: extract <repo dir> <out dir>")
		os.Exit(2)
	}
	var p *pkgInfo
	func() {
		defer func() {
			if r := recover(); r != nil {
				if _, ok := r.(dieErr); ok {
					os.Exit(2) // the source cannot even be loaded: nothing is generated
				}
				panic(r)
			}
		}()
		p = load(os.Args[1])
	}()
	out := os.Args[2]
	os.MkdirAll(out, 0o755)
	// every output file is generated on its own: a construct the translator does not know invalidates the file it would
	// have gone into (exit status 3: some files are failing stubs), not the others
	var failed []string
	facts := map[string]interface{}{}
	guarded(out, []string{"CRC.lean"}, &failed, func() { emitCRC(p, out) })
	guarded(out, []string{"Consts.lean"}, &failed, func() { facts["consts"] = emitConsts(p, out) })
	guarded(out, []string{"Exprs.lean"}, &failed, func() { emitExprs(p, out) })
	guarded(out, []string{"Facts.lean"}, &failed, func() {
		for k, v := range emitFacts(p, out) {
			facts[k] = v
		}
	})
	guarded(out, []string{"Lengths.lean"}, &failed, func() { emitLengths(p, out) })
	if len(failed) > 0 {
		facts["failed"] = failed
	}
	js, _ := json.MarshalIndent(facts, "", " ")
	write(filepath.Join(out, "facts.json"), string(js)+"\n")
	if len(failed) > 0 {
		fmt.Fprintf(os.Stderr, "extract: failing stubs written for %s\n", strings.Join(failed, ", "))
		os.Exit(3)
	}
}
