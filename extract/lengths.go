package main

// Translation of the LENGTH CALCULATORS and other straight-line integer functions of /repo into
// Lean functions over the model's structures (<out>/Lengths.lean).
//
// Unlike exprs.go (which substitutes scalar parameters for rendered sub-expressions), this
// translator carries Go types: it reads the struct declarations, the function signatures and the
// constant declarations from the AST and types every expression itself (go/types is not used).
// The supported fragment is listed in the header comment of the generated file (lengthsHeader);
// everything else is an error (die): the translation fails closed.
//
// Lookup tables (tableLookup): a refactoring may replace an if ladder by `tbl[i]` on a package-level table.
// The table must be read-only (tables.go) and the index provably in range; to show the latter every integer
// value carries an interval (irange) that is propagated through constants, conversions, arithmetic, local
// variables (flow-sensitively: env.rng, merged at the join of an if, forgotten in loops) and `if e < k` guards
// (env.bound).  The intervals are used for nothing else.

import (
	"fmt"
	"go/ast"
	"go/token"
	"path/filepath"
	"sort"
	"strings"
	"unicode"
)

// lengthFuncs is the whitelist (key as in pkgInfo.funcs).  The emission order is computed from
// the call graph, not from this list and not from the order in the Go files.
var lengthFuncs = []string{
	// descriptor.go
	"calcDescriptorUserDefinedLength",
	"calcDescriptorAC3Length",
	"calcDescriptorAVCVideoLength",
	"calcDescriptorComponentLength",
	"calcDescriptorContentLength",
	"calcDescriptorDataStreamAlignmentLength",
	"calcDescriptorEnhancedAC3Length",
	"calcDescriptorExtendedEventLength",
	"calcDescriptorExtensionSupplementaryAudioLength",
	"calcDescriptorExtensionLength",
	"calcDescriptorISO639LanguageAndAudioTypeLength",
	"calcDescriptorLocalTimeOffsetLength",
	"calcDescriptorMaximumBitrateLength",
	"calcDescriptorNetworkNameLength",
	"calcDescriptorParentalRatingLength",
	"calcDescriptorPrivateDataIndicatorLength",
	"calcDescriptorPrivateDataSpecifierLength",
	"calcDescriptorRegistrationLength",
	"calcDescriptorServiceLength",
	"calcDescriptorShortEventLength",
	"calcDescriptorStreamIdentifierLength",
	"calcDescriptorSubtitlingLength",
	"calcDescriptorTeletextLength",
	"calcDescriptorVBIDataLength",
	"calcDescriptorUnknownLength",
	"calcDescriptorLength",
	"calcDescriptorsLength",
	// packet.go
	"calcPacketAdaptationFieldExtensionLength",
	"calcPacketAdaptationFieldSize",
	"calcPacketAdaptationFieldLength",
	// data_pes.go
	"calcPESOptionalHeaderDataLength",
	"calcPESOptionalHeaderLength",
	// data_pat.go, data_pmt.go
	"calcPATSectionLength",
	"calcPMTSectionLength",
	// wrapping_counter.go
	"wrappingCounter.get",
	"wrappingCounter.inc",
}

// Go field name -> Lean field name where the general rule (leanField) does not give the model's name
var leanFieldExceptions = map[string]string{
	"PTSDTSIndicator": "ptsDTSIndicator",
	"PCRPID":          "pcrPID",
}

var leanKeywords = map[string]bool{"at": true, "fun": true, "end": true, "open": true, "in": true, "then": true, "else": true,
	"if": true, "let": true, "have": true, "show": true, "from": true, "do": true, "match": true, "with": true, "def": true,
	"theorem": true, "where": true, "by": true, "Type": true, "Prop": true, "Sort": true, "instance": true, "structure": true,
	"namespace": true, "section": true, "import": true, "for": true, "return": true, "mut": true, "none": true, "some": true,
	"default": true, "true": true, "false": true}

// ---- Go types ----

type gtype struct {
	kind string // "int" | "uint" | "bool" | "ptr" | "slice" | "struct" | "const" | "tuple" | "nil"
	bits int    // uint: 8, 16, 32, 64
	name string // struct: Go type name
	elem *gtype // ptr, slice
	val  int64  // const: value of the untyped integer constant
	tup  []*gtype
}

func (g *gtype) String() string {
	switch g.kind {
	case "uint":
		return fmt.Sprintf("uint%d", g.bits)
	case "ptr":
		return "*" + g.elem.String()
	case "slice":
		return "[]" + g.elem.String()
	case "struct":
		return g.name
	case "const":
		return fmt.Sprintf("untyped constant %d", g.val)
	case "tuple":
		s := make([]string, len(g.tup))
		for i, t := range g.tup {
			s[i] = t.String()
		}
		return "(" + strings.Join(s, ", ") + ")"
	}
	return g.kind
}

func (g *gtype) same(h *gtype) bool {
	if g.kind != h.kind {
		return false
	}
	switch g.kind {
	case "uint":
		return g.bits == h.bits
	case "struct":
		return g.name == h.name
	case "ptr", "slice":
		return g.elem.same(h.elem)
	case "const":
		return g.val == h.val
	case "tuple":
		if len(g.tup) != len(h.tup) {
			return false
		}
		for i := range g.tup {
			if !g.tup[i].same(h.tup[i]) {
				return false
			}
		}
	}
	return true
}

var (
	tInt  = &gtype{kind: "int"}
	tBool = &gtype{kind: "bool"}
)

func tUint(b int) *gtype { return &gtype{kind: "uint", bits: b} }

func pow2(bits int) string {
	switch bits {
	case 8:
		return "256"
	case 16:
		return "65536"
	case 32:
		return "4294967296"
	case 64:
		return "18446744073709551616"
	}
	die("unsupported width %d", bits)
	return ""
}

// ---- the translator ----

type lval struct {
	lean string // Lean term: a variable name or a projection
	t    *gtype
	opt  bool // pointer whose Lean term is an `Option T` (may be nil); false: a plain `T`
	// integers: an interval that is known to contain the value (nil: nothing known beyond the type).  Only
	// used to show that an index of a lookup table is in range (tableLookup).
	rng *irange
}

// irange: lo <= value <= hi
type irange struct{ lo, hi int64 }

// bounds beyond which the interval arithmetic gives up (keeps int64 arithmetic exact)
const rangeLimit = int64(1) << 40

// rangeOf: the interval of a value, from what has been computed for it and from its type
func rangeOf(v lval) *irange {
	if v.t.kind == "const" {
		return &irange{v.t.val, v.t.val}
	}
	r := v.rng
	if v.t.kind == "uint" && v.t.bits < 40 {
		tm := int64(1)<<uint(v.t.bits) - 1
		if r == nil || r.lo < 0 || r.hi > tm {
			return &irange{0, tm}
		}
	}
	return r
}

func hull(a, b *irange) *irange {
	if a == nil || b == nil {
		return nil
	}
	r := *a
	if b.lo < r.lo {
		r.lo = b.lo
	}
	if b.hi > r.hi {
		r.hi = b.hi
	}
	return &r
}

// arithRange: the interval of `a op b` computed at Go type g from the intervals of the operands; nil if
// nothing is known or the operation may wrap around
func arithRange(op token.Token, a, b *irange, g *gtype) *irange {
	nonneg := func(r *irange) bool { return r != nil && r.lo >= 0 && r.hi < rangeLimit }
	small := func(r *irange) bool { return r != nil && r.lo > -rangeLimit && r.hi < rangeLimit }
	pow2 := func(v int64) int64 { // the smallest 2^k - 1 that is >= v
		r := int64(0)
		for r < v {
			r = r<<1 | 1
		}
		return r
	}
	var r *irange
	switch op {
	case token.AND: // x & y with y >= 0 is between 0 and y, whatever x is (two's complement)
		switch {
		case nonneg(a) && nonneg(b):
			r = &irange{0, min(a.hi, b.hi)}
		case nonneg(a):
			r = &irange{0, a.hi}
		case nonneg(b):
			r = &irange{0, b.hi}
		}
	case token.OR, token.XOR:
		if nonneg(a) && nonneg(b) {
			r = &irange{0, pow2(max(a.hi, b.hi))}
		}
	case token.ADD:
		if small(a) && small(b) {
			r = &irange{a.lo + b.lo, a.hi + b.hi}
		}
	case token.SUB:
		if small(a) && small(b) {
			r = &irange{a.lo - b.hi, a.hi - b.lo}
		}
	case token.MUL:
		if nonneg(a) && nonneg(b) && a.hi < 1<<20 && b.hi < 1<<20 {
			r = &irange{a.lo * b.lo, a.hi * b.hi}
		}
	case token.SHR:
		if nonneg(a) && nonneg(b) && b.lo == b.hi && b.lo < 62 {
			r = &irange{a.lo >> uint(b.lo), a.hi >> uint(b.lo)}
		}
	case token.SHL:
		if nonneg(a) && nonneg(b) && b.lo == b.hi && b.lo < 20 && a.hi < 1<<20 {
			r = &irange{a.lo << uint(b.lo), a.hi << uint(b.lo)}
		}
	case token.QUO:
		if nonneg(a) && nonneg(b) && b.lo == b.hi && b.lo > 0 {
			r = &irange{a.lo / b.lo, a.hi / b.lo}
		}
	case token.REM:
		if nonneg(a) && nonneg(b) && b.lo == b.hi && b.lo > 0 {
			r = &irange{0, b.lo - 1}
		}
	}
	if r != nil && g.kind == "uint" {
		// wrapped around: the caller falls back to the range of the type
		if r.lo < 0 || (g.bits < 40 && r.hi > int64(1)<<uint(g.bits)-1) {
			return nil
		}
	}
	return r
}

type lvar struct {
	lean string
	t    *gtype
	opt  bool
	ord  int // order of introduction (tuples of merged variables are sorted by it)
}

type ltr struct {
	p       *pkgInfo
	name    string // current function (messages)
	sigs    map[string]*lsig
	calls   map[string]bool
	results []*lvar // declared results (named or synthetic)
	named   bool
	fields  []*lvar // assigned fields of pointer parameters, in order of first assignment
	nvars   int
	// functions outside the whitelist that a translated function calls: translated on demand and
	// inlined at the call site (see inlineTerm)
	inlineSigs  map[string]*lsig
	inlineTerms map[string]string
	inlining    []string // stack of functions being inlined (recursion check)
}

type env struct {
	vars   map[string]*lvar // Go identifier -> variable
	nonnil map[string]*lvar // rendered Go pointer expression known to be non-nil -> Lean variable holding the pointee
	fields map[string]*lvar // rendered `recv.Field` that is assigned somewhere in the function -> state variable
	// flow-sensitive facts for the index checks (tableLookup): the interval of the current value of a variable,
	// and exclusive upper bounds of expressions (key: canon) that hold because of an enclosing `if e < k`
	rng   map[*lvar]*irange
	bound map[string]int64
}

func (e *env) clone() *env {
	n := &env{vars: map[string]*lvar{}, nonnil: map[string]*lvar{}, fields: e.fields, rng: map[*lvar]*irange{}, bound: map[string]int64{}}
	for k, v := range e.vars {
		n.vars[k] = v
	}
	for k, v := range e.nonnil {
		n.nonnil[k] = v
	}
	for k, v := range e.rng {
		n.rng[k] = v
	}
	for k, v := range e.bound {
		n.bound[k] = v
	}
	return n
}

// assigned: a clone of the environment after `name` (the variable v) has been assigned a value in r
func (e *env) assigned(v *lvar, name string, r *irange) *env {
	n := e.clone()
	if r != nil {
		n.rng[v] = r
	} else {
		delete(n.rng, v)
	}
	for k := range n.bound {
		if mentions(k, name) {
			delete(n.bound, k)
		}
	}
	return n
}

// withBounds: a clone with additional upper bounds (the tighter one wins)
func (e *env) withBounds(b map[string]int64) *env {
	if len(b) == 0 {
		return e
	}
	n := e.clone()
	for k, v := range b {
		if old, ok := n.bound[k]; !ok || v < old {
			n.bound[k] = v
		}
	}
	return n
}

// lsig: the signature of a translated function
type lsig struct {
	goName  string
	lean    string
	fd      *ast.FuncDecl
	params  []*lvar
	results []*gtype
	fieldsT []*gtype // types of the assigned receiver fields that are returned in front of the results
}

func (t *ltr) die(pos token.Pos, format string, a ...interface{}) {
	die("%s (%s): %s", t.name, fset.Position(pos), fmt.Sprintf(format, a...))
}

func ind(s string) string {
	lines := strings.Split(s, "\n")
	for i, l := range lines {
		if l != "" {
			lines[i] = "  " + l
		}
	}
	return strings.Join(lines, "\n")
}

// leanField: Go exported field name -> model field name (lower-case the leading upper-case run,
// keeping the last capital when it starts the next word: AVCVideo -> avcVideo, AC3 -> ac3, HasBSID -> hasBSID)
func leanField(f string) string {
	if x, ok := leanFieldExceptions[f]; ok {
		return x
	}
	r := []rune(f)
	n := 0
	for n < len(r) && unicode.IsUpper(r[n]) {
		n++
	}
	if n == 0 {
		return f
	}
	k := n
	if n > 1 && n < len(r) && unicode.IsLower(r[n]) {
		k = n - 1
	}
	return strings.ToLower(string(r[:k])) + string(r[k:])
}

func leanTypeName(goName string) string {
	r := []rune(goName)
	r[0] = unicode.ToUpper(r[0])
	return string(r)
}

func leanIdent(t *ltr, pos token.Pos, n string) string {
	if leanKeywords[n] {
		t.die(pos, "Go identifier %s is a Lean keyword", n)
	}
	return n
}

// resolve a Go type expression
func (t *ltr) gtypeOf(e ast.Expr) *gtype {
	switch e := e.(type) {
	case *ast.Ident:
		switch e.Name {
		case "int":
			return tInt
		case "bool":
			return tBool
		case "uint8", "byte":
			return tUint(8)
		case "uint16":
			return tUint(16)
		case "uint32":
			return tUint(32)
		case "uint64":
			return tUint(64)
		}
		if u, ok := t.p.types[e.Name]; ok {
			if _, ok := u.(*ast.StructType); ok {
				return &gtype{kind: "struct", name: e.Name}
			}
			return t.gtypeOf(u)
		}
	case *ast.StarExpr:
		return &gtype{kind: "ptr", elem: t.gtypeOf(e.X)}
	case *ast.ArrayType:
		if e.Len == nil {
			return &gtype{kind: "slice", elem: t.gtypeOf(e.Elt)}
		}
	case *ast.ParenExpr:
		return t.gtypeOf(e.X)
	}
	t.die(e.Pos(), "unsupported type %s", render(e))
	return nil
}

// Lean type of a value of Go type g (opt: a pointer that may be nil)
func (t *ltr) leanType(pos token.Pos, g *gtype, opt bool) string {
	switch g.kind {
	case "int":
		return "Int"
	case "uint":
		return "Nat"
	case "bool":
		return "Bool"
	case "struct":
		return leanTypeName(g.name)
	case "ptr":
		inner := t.leanType(pos, g.elem, false)
		if opt {
			if strings.Contains(inner, " ") {
				inner = "(" + inner + ")"
			}
			return "Option " + inner
		}
		return inner
	case "slice":
		el := g.elem
		if el.kind == "ptr" { // []*T: the model has a list of (non-nil) values
			el = el.elem
		}
		if el.kind == "uint" && el.bits == 8 {
			return "Bytes"
		}
		inner := t.leanType(pos, el, false)
		if strings.Contains(inner, " ") {
			inner = "(" + inner + ")"
		}
		return "List " + inner
	case "tuple":
		s := make([]string, len(g.tup))
		for i, x := range g.tup {
			s[i] = t.leanType(pos, x, false)
		}
		return strings.Join(s, " × ")
	}
	t.die(pos, "no Lean type for %s", g)
	return ""
}

func (t *ltr) structField(pos token.Pos, sname, fname string) *gtype {
	st, ok := t.p.types[sname].(*ast.StructType)
	if !ok {
		t.die(pos, "%s is not a struct", sname)
	}
	for _, f := range st.Fields.List {
		for _, n := range f.Names {
			if n.Name == fname {
				return t.gtypeOf(f.Type)
			}
		}
	}
	t.die(pos, "struct %s has no field %s", sname, fname)
	return nil
}

// fits: constant v is representable in g
func fits(v int64, g *gtype) bool {
	switch g.kind {
	case "int":
		return true
	case "uint":
		if v < 0 {
			return false
		}
		if g.bits >= 63 {
			return true
		}
		return v < (int64(1) << uint(g.bits))
	}
	return false
}

// conv: convert a value to Go type `to` (explicit conversion T(x), or the implicit conversion of an
// untyped constant).  explicit=false only admits constants and identical types.
func (t *ltr) conv(pos token.Pos, v lval, to *gtype, explicit bool) lval {
	if v.t.kind == "const" {
		if !fits(v.t.val, to) {
			t.die(pos, "constant %d does not fit %s", v.t.val, to)
		}
		return lval{lean: fmt.Sprintf("%d", v.t.val), t: to, rng: &irange{v.t.val, v.t.val}}
	}
	if v.t.same(to) {
		return v
	}
	if !explicit {
		t.die(pos, "type mismatch: %s used as %s", v.t, to)
	}
	// the interval survives a conversion that does not change the value
	keep := rangeOf(v)
	if keep != nil && to.kind == "uint" && (keep.lo < 0 || (to.bits < 40 && keep.hi > int64(1)<<uint(to.bits)-1)) {
		keep = nil
	}
	switch {
	case v.t.kind == "int" && to.kind == "uint":
		return lval{lean: "(" + v.lean + " % " + pow2(to.bits) + ").toNat", t: to, rng: keep}
	case v.t.kind == "uint" && to.kind == "int":
		if v.t.bits >= 63 {
			t.die(pos, "conversion %s -> int may overflow", v.t)
		}
		return lval{lean: "(" + v.lean + " : Int)", t: to, rng: keep}
	case v.t.kind == "uint" && to.kind == "uint":
		if v.t.bits <= to.bits {
			return lval{lean: v.lean, t: to, rng: keep}
		}
		return lval{lean: "(" + v.lean + " % " + pow2(to.bits) + ")", t: to, rng: keep}
	}
	t.die(pos, "unsupported conversion %s -> %s", v.t, to)
	return lval{}
}

// arith: a + b, a - b, a * b, a & b, a | b, a ^ b at Go type g (operands already converted to g)
func (t *ltr) arith(pos token.Pos, op token.Token, a, b string, g *gtype) string {
	switch g.kind {
	case "int": // Go int is 64 bits wide; the translation (like the model) uses unbounded Int
		switch op {
		case token.ADD:
			return "(" + a + " + " + b + ")"
		case token.SUB:
			return "(" + a + " - " + b + ")"
		case token.MUL:
			return "(" + a + " * " + b + ")"
		// Lean's Int has no bitwise operators: through the 64-bit two's complement representation, which is
		// what Go computes on (and the three operators cannot overflow)
		case token.AND:
			return "(BitVec.ofInt 64 (" + a + ") &&& BitVec.ofInt 64 (" + b + ")).toInt"
		case token.OR:
			return "(BitVec.ofInt 64 (" + a + ") ||| BitVec.ofInt 64 (" + b + ")).toInt"
		case token.XOR:
			return "(BitVec.ofInt 64 (" + a + ") ^^^ BitVec.ofInt 64 (" + b + ")).toInt"
		}
	case "uint":
		m := pow2(g.bits)
		switch op {
		case token.ADD:
			return "((" + a + " + " + b + ") % " + m + ")"
		case token.SUB:
			return "((" + a + " + " + m + " - " + b + " % " + m + ") % " + m + ")"
		case token.MUL:
			return "((" + a + " * " + b + ") % " + m + ")"
		// both operands are below 2^N, and so is the result: no reduction needed
		case token.AND:
			return "(" + a + " &&& " + b + ")"
		case token.OR:
			return "(" + a + " ||| " + b + ")"
		case token.XOR:
			return "(" + a + " ^^^ " + b + ")"
		}
	}
	t.die(pos, "unsupported operation %s on %s", op, g)
	return ""
}

// shift: a << k, a >> k at the unsigned type g of a; k is a non-negative constant or an unsigned value
func (t *ltr) shift(pos token.Pos, op token.Token, a lval, k lval) lval {
	if a.t.kind != "uint" {
		t.die(pos, "shift of %s", a.t)
	}
	var cnt string
	switch k.t.kind {
	case "const":
		if k.t.val < 0 {
			t.die(pos, "negative shift count")
		}
		cnt = fmt.Sprintf("%d", k.t.val)
	case "uint":
		cnt = k.lean
	default:
		t.die(pos, "shift count of type %s", k.t)
	}
	r := arithRange(op, rangeOf(a), rangeOf(k), a.t)
	if op == token.SHL {
		return lval{lean: "((" + a.lean + " <<< " + cnt + ") % " + pow2(a.t.bits) + ")", t: a.t, rng: r}
	}
	return lval{lean: "(" + a.lean + " >>> " + cnt + ")", t: a.t, rng: r}
}

// divmod: a / c, a % c at the unsigned type of a, for a non-zero constant c (Go panics on a zero
// divisor, Lean returns 0 resp. a: a variable divisor is not translated)
func (t *ltr) divmod(pos token.Pos, op token.Token, a lval, c lval) lval {
	if a.t.kind != "uint" || c.t.kind != "const" || c.t.val <= 0 || !fits(c.t.val, a.t) {
		t.die(pos, "%s is only supported on an unsigned value and a positive constant", op)
	}
	o := "/"
	if op == token.REM {
		o = "%"
	}
	return lval{lean: fmt.Sprintf("(%s %s %d)", a.lean, o, c.t.val), t: a.t, rng: arithRange(op, rangeOf(a), rangeOf(c), a.t)}
}

func constArith(t *ltr, pos token.Pos, op token.Token, a, b int64) int64 {
	switch op {
	case token.ADD:
		return a + b
	case token.SUB:
		return a - b
	case token.MUL:
		return a * b
	case token.AND:
		return a & b
	case token.OR:
		return a | b
	case token.XOR:
		return a ^ b
	case token.SHL:
		if b >= 0 && b < 62 {
			return a << uint(b)
		}
	case token.SHR:
		if b >= 0 {
			return a >> uint(b)
		}
	case token.QUO:
		if b != 0 {
			return a / b
		}
	case token.REM:
		if b != 0 {
			return a % b
		}
	}
	t.die(pos, "unsupported constant operation %s", op)
	return 0
}

// ex: value expression
func (t *ltr) ex(e ast.Expr, en *env) lval {
	v := t.exRaw(e, en)
	// an enclosing `if e < k` (an upper bound only: that the value is not negative must come from its type or
	// from what is known about it otherwise)
	if len(en.bound) > 0 && (v.t.kind == "uint" || v.t.kind == "int") {
		if b, ok := en.bound[canon(e)]; ok {
			if r := rangeOf(v); r != nil && r.lo >= 0 && b-1 < r.hi {
				v.rng = &irange{r.lo, b - 1}
			}
		}
	}
	return v
}

func (t *ltr) exRaw(e ast.Expr, en *env) lval {
	// a pointer expression already matched against nil
	if v, ok := en.nonnil[render(e)]; ok {
		return lval{lean: v.lean, t: v.t, opt: false}
	}
	switch e := e.(type) {
	case *ast.ParenExpr:
		return t.ex(e.X, en)
	case *ast.BasicLit:
		if e.Kind != token.INT {
			t.die(e.Pos(), "unsupported literal %s", e.Value)
		}
		v, ok := t.p.evalConst(e, 0)
		if !ok {
			t.die(e.Pos(), "unsupported literal %s", e.Value)
		}
		return lval{t: &gtype{kind: "const", val: v}}
	case *ast.Ident:
		if v, ok := en.vars[e.Name]; ok {
			return lval{lean: v.lean, t: v.t, opt: v.opt, rng: en.rng[v]}
		}
		if e.Name == "nil" {
			return lval{t: &gtype{kind: "nil"}}
		}
		if e.Name == "true" || e.Name == "false" {
			return lval{lean: e.Name, t: tBool}
		}
		if c, ok := t.p.consts[e.Name]; ok {
			v, ok := t.p.evalConst(c, 0)
			if !ok {
				t.die(e.Pos(), "constant %s is not an integer constant", e.Name)
			}
			if ct, ok := t.p.constTypes[e.Name]; ok && ct != nil {
				g := t.gtypeOf(ct)
				if !fits(v, g) {
					t.die(e.Pos(), "constant %s does not fit its type", e.Name)
				}
				return lval{lean: fmt.Sprintf("%d", v), t: g}
			}
			return lval{t: &gtype{kind: "const", val: v}}
		}
		t.die(e.Pos(), "unknown identifier %s", e.Name)
	case *ast.SelectorExpr:
		if v, ok := en.fields[render(e)]; ok {
			return lval{lean: v.lean, t: v.t, rng: en.rng[v]}
		}
		return t.fieldRead(e, en)
	case *ast.IndexExpr:
		return t.tableLookup(e, en)
	case *ast.StarExpr:
		x := t.ex(e.X, en)
		if x.t.kind != "ptr" {
			t.die(e.Pos(), "dereference of non-pointer %s", render(e.X))
		}
		if x.opt {
			t.die(e.Pos(), "dereference of %s, which is not known to be non-nil here", render(e.X))
		}
		return lval{lean: x.lean, t: x.t.elem}
	case *ast.CallExpr:
		return t.call(e, en)
	case *ast.UnaryExpr:
		if e.Op == token.NOT {
			return lval{lean: "(decide " + t.cond(e, en) + ")", t: tBool}
		}
		t.die(e.Pos(), "unsupported operator %s in a value expression", e.Op)
	case *ast.BinaryExpr:
		switch e.Op {
		case token.ADD, token.SUB, token.MUL, token.AND, token.OR, token.XOR:
			a, b := t.ex(e.X, en), t.ex(e.Y, en)
			if a.t.kind == "const" && b.t.kind == "const" {
				return lval{t: &gtype{kind: "const", val: constArith(t, e.Pos(), e.Op, a.t.val, b.t.val)}}
			}
			g := a.t
			if g.kind == "const" {
				g = b.t
			}
			if g.kind != "int" && g.kind != "uint" {
				t.die(e.Pos(), "arithmetic on %s", g)
			}
			r := arithRange(e.Op, rangeOf(a), rangeOf(b), g)
			a, b = t.conv(e.X.Pos(), a, g, false), t.conv(e.Y.Pos(), b, g, false)
			return lval{lean: t.arith(e.Pos(), e.Op, a.lean, b.lean, g), t: g, rng: r}
		case token.SHL, token.SHR, token.QUO, token.REM:
			a, b := t.ex(e.X, en), t.ex(e.Y, en)
			if a.t.kind == "const" && b.t.kind == "const" {
				return lval{t: &gtype{kind: "const", val: constArith(t, e.Pos(), e.Op, a.t.val, b.t.val)}}
			}
			if e.Op == token.SHL || e.Op == token.SHR {
				return t.shift(e.Pos(), e.Op, a, b)
			}
			return t.divmod(e.Pos(), e.Op, a, b)
		case token.LAND, token.LOR, token.EQL, token.NEQ, token.LSS, token.GTR, token.LEQ, token.GEQ:
			return lval{lean: "(decide " + t.cond(e, en) + ")", t: tBool}
		}
		t.die(e.Pos(), "unsupported operator %s in a value expression", e.Op)
	}
	t.die(e.Pos(), "unsupported expression %s", render(e))
	return lval{}
}

func (t *ltr) fieldRead(e *ast.SelectorExpr, en *env) lval {
	x := t.ex(e.X, en)
	g := x.t
	if g.kind == "ptr" {
		if x.opt {
			t.die(e.Pos(), "field access through %s, which may be nil", render(e.X))
		}
		g = g.elem
	}
	if g.kind != "struct" {
		t.die(e.Pos(), "field access on %s", g)
	}
	ft := t.structField(e.Pos(), g.name, e.Sel.Name)
	lean := x.lean + "." + leanField(e.Sel.Name)
	switch ft.kind {
	case "int":
		// the model stores some Go ints as Nat (never negative there): read every int field as Int
		lean = "(" + lean + " : Int)"
	case "uint", "bool", "slice":
	case "ptr":
		return lval{lean: lean, t: ft, opt: true}
	default:
		t.die(e.Pos(), "unsupported field type %s", ft)
	}
	return lval{lean: lean, t: ft}
}

func (t *ltr) call(e *ast.CallExpr, en *env) lval {
	if se, isSel := e.Fun.(*ast.SelectorExpr); isSel {
		// x.m(args): a method of a struct of the package
		x := t.ex(se.X, en)
		g := x.t
		if g.kind == "ptr" {
			if x.opt {
				t.die(e.Pos(), "method call through %s, which may be nil", render(se.X))
			}
			g = g.elem
		}
		if g.kind != "struct" {
			t.die(e.Pos(), "unsupported call %s", render(e))
		}
		return t.callFunc(e, g.name+"."+se.Sel.Name, &x, e.Args, en)
	}
	id, ok := e.Fun.(*ast.Ident)
	if !ok {
		t.die(e.Pos(), "unsupported call %s", render(e))
	}
	switch id.Name {
	case "len":
		if len(e.Args) != 1 {
			t.die(e.Pos(), "len arity")
		}
		if tbl := t.lookupTable(e.Args[0], en); tbl != nil { // the length of a lookup table: a constant
			n := len(tbl.elems)
			if tbl.kind == "map" {
				n = len(tbl.keys)
			}
			return lval{t: &gtype{kind: "const", val: int64(n)}}
		}
		x := t.ex(e.Args[0], en)
		if x.t.kind != "slice" {
			t.die(e.Pos(), "len of %s", x.t)
		}
		return lval{lean: "(" + x.lean + ".length : Int)", t: tInt}
	case "int", "uint8", "byte", "uint16", "uint32", "uint64":
		if _, shadow := en.vars[id.Name]; shadow || len(e.Args) != 1 {
			t.die(e.Pos(), "unsupported call %s", render(e))
		}
		return t.conv(e.Pos(), t.ex(e.Args[0], en), t.gtypeOf(id), true)
	}
	return t.callFunc(e, id.Name, nil, e.Args, en)
}

// callFunc: a call of the package function (or method, with its receiver) `key`.  A whitelisted
// function is called by name; any other function of the package is translated on demand and inlined.
func (t *ltr) callFunc(e *ast.CallExpr, key string, recv *lval, args []ast.Expr, en *env) lval {
	sig, ok := t.sigs[key]
	head := ""
	if ok {
		t.calls[sig.goName] = true
		head = sig.lean
	} else {
		if _, isFunc := t.p.funcs[key]; !isFunc {
			t.die(e.Pos(), "call of %s, which is not a function of the package", key)
		}
		sig = t.inlineSig(e.Pos(), key)
		head = t.inlineTerm(e.Pos(), sig)
	}
	if len(sig.fieldsT) > 0 {
		t.die(e.Pos(), "call of %s, which assigns fields of its receiver", key)
	}
	var vals []lval
	var poss []token.Pos
	if recv != nil {
		vals, poss = append(vals, *recv), append(poss, e.Pos())
	}
	for _, a := range args {
		vals, poss = append(vals, t.ex(a, en)), append(poss, a.Pos())
	}
	if len(vals) != len(sig.params) {
		t.die(e.Pos(), "arity of %s", key)
	}
	s := "(" + head
	for i, v := range vals {
		pr := sig.params[i]
		if v.t.kind == "const" {
			v = t.conv(poss[i], v, pr.t, false)
		}
		if recv != nil && i == 0 && v.t.kind == "struct" && pr.t.kind == "ptr" && pr.t.elem.same(v.t) {
			v = lval{lean: v.lean, t: pr.t} // x.m() with an addressable x and a pointer receiver: (&x).m()
		}
		if recv != nil && i == 0 && v.t.kind == "ptr" && !v.opt && pr.t.kind == "struct" && v.t.elem.same(pr.t) {
			v = lval{lean: v.lean, t: pr.t} // p.m() with a value receiver: (*p).m()
		}
		if !v.t.same(pr.t) {
			t.die(poss[i], "argument %d of %s: %s passed as %s", i, key, v.t, pr.t)
		}
		arg := v.lean
		if pr.t.kind == "ptr" {
			switch {
			case pr.opt && !v.opt:
				arg = "(some " + arg + ")"
			case !pr.opt && v.opt:
				// the callee dereferences its argument unconditionally: nil is a Go panic, which
				// the length functions do not model (the model writes `.getD {}` as well)
				arg = "(" + arg + ".getD default)"
			}
		}
		if strings.Contains(arg, " ") && !strings.HasPrefix(arg, "(") {
			arg = "(" + arg + ")"
		}
		s += " " + arg
	}
	s += ")"
	if len(sig.results) == 1 {
		return lval{lean: s, t: sig.results[0]}
	}
	return lval{lean: s, t: &gtype{kind: "tuple", tup: sig.results}}
}

// inlineSig: the signature of a function outside the whitelist (computed once)
func (t *ltr) inlineSig(pos token.Pos, key string) *lsig {
	if sig, ok := t.inlineSigs[key]; ok {
		return sig
	}
	saved := t.name
	sig := t.signature(key)
	t.name = saved
	t.inlineSigs[key] = sig
	return sig
}

// inlineTerm: the function as a closed Lean lambda, `(fun (x : T) … => body)`.  The call site applies
// it to the arguments (a beta-redex, which `simp only` reduces), so the generated file consists of the
// whitelisted definitions only and the tie theorems never have to name a helper function that a
// refactoring may introduce or remove.
func (t *ltr) inlineTerm(pos token.Pos, sig *lsig) string {
	if s, ok := t.inlineTerms[sig.goName]; ok {
		return s
	}
	for _, n := range t.inlining {
		if n == sig.goName {
			t.die(pos, "recursive call cycle through %s", sig.goName)
		}
	}
	// the translation state of the caller
	name, results, named, fields, nvars := t.name, t.results, t.named, t.fields, t.nvars
	t.inlining = append(t.inlining, sig.goName)
	binders, _, body := t.funcTerm(sig)
	t.inlining = t.inlining[:len(t.inlining)-1]
	t.name, t.results, t.named, t.fields, t.nvars = name, results, named, fields, nvars
	s := "(fun " + strings.Join(binders, " ") + " =>\n" + ind("-- "+sig.goName+" (inlined)\n"+body) + ")"
	t.inlineTerms[sig.goName] = s
	return s
}

// cond: a boolean expression in condition position, as a decidable Lean proposition
func (t *ltr) cond(e ast.Expr, en *env) string {
	switch e := e.(type) {
	case *ast.ParenExpr:
		return t.cond(e.X, en)
	case *ast.UnaryExpr:
		if e.Op == token.NOT {
			return "(¬" + t.cond(e.X, en) + ")"
		}
	case *ast.BinaryExpr:
		switch e.Op {
		case token.LAND:
			return "(" + t.cond(e.X, en) + " ∧ " + t.cond(e.Y, en) + ")"
		case token.LOR:
			return "(" + t.cond(e.X, en) + " ∨ " + t.cond(e.Y, en) + ")"
		case token.EQL, token.NEQ, token.LSS, token.GTR, token.LEQ, token.GEQ:
			a, b := t.ex(e.X, en), t.ex(e.Y, en)
			if a.t.kind == "nil" || b.t.kind == "nil" {
				t.die(e.Pos(), "comparison with nil is only supported as the whole condition of an if")
			}
			if a.t.kind == "const" && b.t.kind == "const" {
				t.die(e.Pos(), "constant condition")
			}
			g := a.t
			if g.kind == "const" {
				g = b.t
			}
			if g.kind != "int" && g.kind != "uint" {
				t.die(e.Pos(), "comparison of %s", g)
			}
			a, b = t.conv(e.X.Pos(), a, g, false), t.conv(e.Y.Pos(), b, g, false)
			op := map[token.Token]string{token.EQL: "=", token.NEQ: "≠", token.LSS: "<", token.GTR: ">", token.LEQ: "≤", token.GEQ: "≥"}[e.Op]
			return "(" + a.lean + " " + op + " " + b.lean + ")"
		}
	}
	v := t.ex(e, en)
	if v.t.kind != "bool" {
		t.die(e.Pos(), "condition %s is not a bool", render(e))
	}
	return "(" + v.lean + " = true)"
}

// nilTest recognises `x == nil` / `x != nil`; returns the pointer/slice expression and whether the
// then-branch is the nil case
func nilTest(e ast.Expr) (x ast.Expr, thenIsNil bool, ok bool) {
	for {
		p, isP := e.(*ast.ParenExpr)
		if !isP {
			break
		}
		e = p.X
	}
	b, isB := e.(*ast.BinaryExpr)
	if !isB || (b.Op != token.EQL && b.Op != token.NEQ) {
		return nil, false, false
	}
	isNil := func(e ast.Expr) bool { id, ok := e.(*ast.Ident); return ok && id.Name == "nil" }
	switch {
	case isNil(b.Y):
		return b.X, b.Op == token.EQL, true
	case isNil(b.X):
		return b.Y, b.Op == token.EQL, true
	}
	return nil, false, false
}

// guards collects, for the case that the condition is true (holds=true) resp. false, the exclusive upper
// bounds `e < k` that follow from it: comparisons of an expression with a constant, under !, && and ||.
// `int(e) < k` for an unsigned e also bounds e.
func (t *ltr) guards(c ast.Expr, en *env, holds bool, into map[string]int64) {
	switch c := c.(type) {
	case *ast.ParenExpr:
		t.guards(c.X, en, holds, into)
	case *ast.UnaryExpr:
		if c.Op == token.NOT {
			t.guards(c.X, en, !holds, into)
		}
	case *ast.BinaryExpr:
		switch c.Op {
		case token.LAND:
			if holds { // both conjuncts hold
				t.guards(c.X, en, true, into)
				t.guards(c.Y, en, true, into)
			}
		case token.LOR:
			if !holds { // neither disjunct holds
				t.guards(c.X, en, false, into)
				t.guards(c.Y, en, false, into)
			}
		case token.LSS, token.LEQ, token.GTR, token.GEQ:
			op, x, y := c.Op, c.X, c.Y
			if !holds { // !(x < y) is x >= y, …
				op = map[token.Token]token.Token{token.LSS: token.GEQ, token.LEQ: token.GTR, token.GTR: token.LEQ, token.GEQ: token.LSS}[op]
			}
			if op == token.GTR || op == token.GEQ { // k > x is x < k
				x, y = y, x
				op = map[token.Token]token.Token{token.GTR: token.LSS, token.GEQ: token.LEQ}[op]
			}
			k := t.ex(y, en)
			if k.t.kind != "const" || k.t.val >= rangeLimit {
				return
			}
			b := k.t.val
			if op == token.LEQ {
				b++
			}
			note := func(e ast.Expr) {
				key := canon(e)
				if old, ok := into[key]; !ok || b < old {
					into[key] = b
				}
			}
			note(x)
			for {
				p, ok := x.(*ast.ParenExpr)
				if !ok {
					break
				}
				x = p.X
			}
			if ce, ok := x.(*ast.CallExpr); ok && len(ce.Args) == 1 {
				if id, ok := ce.Fun.(*ast.Ident); ok && id.Name == "int" {
					if _, shadow := en.vars["int"]; !shadow && t.ex(ce.Args[0], en).t.kind == "uint" {
						note(ce.Args[0])
					}
				}
			}
		}
	}
}

// lookupTable: e names a package-level variable (not hidden by a local variable): the lookup table (tables.go)
func (t *ltr) lookupTable(e ast.Expr, en *env) *constTable {
	id, ok := e.(*ast.Ident)
	if !ok {
		return nil
	}
	if _, local := en.vars[id.Name]; local {
		return nil
	}
	tbl, ok := t.p.table(e.Pos(), id.Name)
	if !ok {
		return nil
	}
	return tbl
}

// tableLookup: tbl[i] on a lookup table.
//
//	array, slice: if i = 0 then e0 else if i = 1 then e1 else … else e(n-1)
//	map:          if i = k1 then v1 else if i = k2 then v2 else … else <zero value>
//
// An index out of range is a panic in Go, which the generated functions cannot express.  The chain for an array
// or slice is therefore only emitted if the interval analysis (irange: types, constants, arithmetic, the
// values assigned on all paths, enclosing `if i < k`) shows 0 <= i < n; otherwise the translation fails.
func (t *ltr) tableLookup(e *ast.IndexExpr, en *env) lval {
	tbl := t.lookupTable(e.X, en)
	if tbl == nil {
		t.die(e.Pos(), "unsupported expression %s (only package-level lookup tables can be indexed)", render(e))
	}
	et := t.gtypeOf(tbl.elemType)
	if et.kind != "int" && et.kind != "uint" && et.kind != "bool" {
		t.die(e.Pos(), "lookup table %s: unsupported element type %s", tbl.name, et)
	}
	consts := &env{vars: map[string]*lvar{}, nonnil: map[string]*lvar{}, fields: map[string]*lvar{}} // elements are constant expressions
	var all *irange
	first := true
	elem := func(x ast.Expr) string {
		v := lval{t: &gtype{kind: "const", val: 0}}
		switch {
		case x == nil && et.kind == "bool":
			v = lval{lean: "false", t: tBool}
		case x != nil:
			v = t.ex(x, consts)
		}
		if et.kind == "bool" {
			if v.t.kind != "bool" {
				t.die(e.Pos(), "lookup table %s: element %s is not a bool", tbl.name, render(x))
			}
			return v.lean
		}
		v = t.conv(e.Pos(), v, et, false)
		if first {
			all, first = rangeOf(v), false
		} else {
			all = hull(all, rangeOf(v))
		}
		return v.lean
	}
	i := t.ex(e.Index, en)
	if i.t.kind != "const" && i.t.kind != "int" && i.t.kind != "uint" {
		t.die(e.Pos(), "%s: index of type %s", render(e), i.t)
	}
	if tbl.kind == "map" {
		if i.t.kind == "const" {
			t.die(e.Pos(), "%s: constant key", render(e))
		}
		s := elem(nil)
		for k := len(tbl.keys) - 1; k >= 0; k-- {
			key := t.conv(e.Pos(), lval{t: &gtype{kind: "const", val: tbl.keys[k]}}, i.t, false)
			s = "if " + i.lean + " = " + key.lean + " then " + elem(tbl.vals[k]) + " else " + s
		}
		return lval{lean: "(" + s + ")", t: et, rng: all}
	}
	n := int64(len(tbl.elems))
	if i.t.kind == "const" {
		if i.t.val < 0 || i.t.val >= n {
			t.die(e.Pos(), "%s: index out of range", render(e))
		}
		s := elem(tbl.elems[i.t.val])
		return lval{lean: s, t: et, rng: all}
	}
	if r := rangeOf(i); r == nil || r.lo < 0 || r.hi >= n {
		t.die(e.Pos(), "%s: cannot show that the index is in range (0 <= index < %d; out of range is a panic)", render(e), n)
	}
	idx := i.lean
	bind := ""
	if len(idx) > 40 { // name a long index term once
		bind = "let i_ : " + t.leanType(e.Pos(), i.t, false) + " := " + idx + "; "
		idx = "i_"
	}
	s := elem(tbl.elems[n-1])
	for k := n - 2; k >= 0; k-- {
		s = fmt.Sprintf("if %s = %d then %s else %s", idx, k, elem(tbl.elems[k]), s)
	}
	return lval{lean: "(" + bind + s + ")", t: et, rng: all}
}

// ---- statements ----

// assigned: variables / receiver fields of the environment that a statement list assigns
func (t *ltr) assigned(list []ast.Stmt, en *env, into map[*lvar]bool) {
	local := map[string]bool{}
	var target func(e ast.Expr)
	target = func(e ast.Expr) {
		switch e := e.(type) {
		case *ast.Ident:
			if e.Name == "_" || local[e.Name] {
				return
			}
			if v, ok := en.vars[e.Name]; ok {
				into[v] = true
				return
			}
		case *ast.SelectorExpr:
			if v, ok := en.fields[render(e)]; ok {
				into[v] = true
				return
			}
		}
		t.die(e.Pos(), "unsupported assignment target %s", render(e))
	}
	for _, s := range list {
		switch s := s.(type) {
		case *ast.AssignStmt:
			if s.Tok == token.DEFINE {
				for _, l := range s.Lhs {
					if id, ok := l.(*ast.Ident); ok {
						local[id.Name] = true
					}
				}
				continue
			}
			for _, l := range s.Lhs {
				target(l)
			}
		case *ast.IncDecStmt:
			target(s.X)
		case *ast.IfStmt:
			inner := map[*lvar]bool{}
			t.assigned(s.Body.List, en, inner)
			if s.Else != nil {
				t.assigned(elseList(s.Else), en, inner)
			}
			for v := range inner {
				if !isShadowed(local, en, v) {
					into[v] = true
				}
			}
		case *ast.SwitchStmt:
			inner := map[*lvar]bool{}
			for _, c := range s.Body.List {
				t.assigned(c.(*ast.CaseClause).Body, en, inner)
			}
			for v := range inner {
				if !isShadowed(local, en, v) {
					into[v] = true
				}
			}
		case *ast.RangeStmt:
			inner := map[*lvar]bool{}
			t.assigned(s.Body.List, en, inner)
			for v := range inner {
				if !isShadowed(local, en, v) {
					into[v] = true
				}
			}
		case *ast.BlockStmt:
			inner := map[*lvar]bool{}
			t.assigned(s.List, en, inner)
			for v := range inner {
				if !isShadowed(local, en, v) {
					into[v] = true
				}
			}
		case *ast.ReturnStmt, *ast.EmptyStmt:
		default:
			t.die(s.Pos(), "unsupported statement %T", s)
		}
	}
}

func isShadowed(local map[string]bool, en *env, v *lvar) bool {
	for n, w := range en.vars {
		if w == v && local[n] {
			return true
		}
	}
	return false
}

func elseList(s ast.Stmt) []ast.Stmt {
	if b, ok := s.(*ast.BlockStmt); ok {
		return b.List
	}
	return []ast.Stmt{s}
}

// hasReturn: some path returns; terminates: every path returns
func hasReturn(list []ast.Stmt) bool {
	found := false
	for _, s := range list {
		ast.Inspect(s, func(n ast.Node) bool {
			if _, ok := n.(*ast.ReturnStmt); ok {
				found = true
			}
			return true
		})
	}
	return found
}

func terminates(list []ast.Stmt) bool {
	if len(list) == 0 {
		return false
	}
	switch s := list[len(list)-1].(type) {
	case *ast.ReturnStmt:
		return true
	case *ast.IfStmt:
		return s.Else != nil && terminates(s.Body.List) && terminates(elseList(s.Else))
	}
	return false
}

func sortedVars(m map[*lvar]bool) []*lvar {
	var vs []*lvar
	for v := range m {
		vs = append(vs, v)
	}
	sort.Slice(vs, func(i, j int) bool { return vs[i].ord < vs[j].ord })
	return vs
}

func (t *ltr) pack(pos token.Pos, vs []*lvar) (term, typ string) {
	var ns, ts []string
	for _, v := range vs {
		ns = append(ns, v.lean)
		ts = append(ts, t.leanType(pos, v.t, v.opt))
	}
	if len(vs) == 1 {
		return ns[0], ts[0]
	}
	return "(" + strings.Join(ns, ", ") + ")", strings.Join(ts, " × ")
}

func (t *ltr) newVar(lean string, g *gtype, opt bool) *lvar {
	t.nvars++
	return &lvar{lean: lean, t: g, opt: opt, ord: t.nvars}
}

// letMerged: `let <vars> := <value>` followed by rest
func letMerged(term, typ, value, rest string) string {
	return "let " + term + " : " + typ + " :=\n" + ind(value) + "\n" + rest
}

// block translates a statement list; `end` produces the term for falling off the end
func (t *ltr) block(list []ast.Stmt, en *env, end func(en *env) string) string {
	if len(list) == 0 {
		return end(en)
	}
	rest := list[1:]
	switch s := list[0].(type) {
	case *ast.EmptyStmt:
		return t.block(rest, en, end)

	case *ast.ReturnStmt:
		if len(rest) != 0 {
			t.die(s.Pos(), "statements after return")
		}
		return t.ret(s, en)

	case *ast.IncDecStmt:
		one := &ast.BasicLit{ValuePos: s.Pos(), Kind: token.INT, Value: "1"}
		op := token.ADD
		if s.Tok == token.DEC {
			op = token.SUB
		}
		return t.assign(s.Pos(), s.X, &ast.BinaryExpr{X: s.X, OpPos: s.Pos(), Op: op, Y: one}, false, en, rest, end)

	case *ast.AssignStmt:
		switch s.Tok {
		case token.DEFINE, token.ASSIGN:
			if len(s.Rhs) == 1 && len(s.Lhs) > 1 {
				return t.assignTuple(s, en, rest, end)
			}
			if len(s.Lhs) != 1 || len(s.Rhs) != 1 {
				t.die(s.Pos(), "unsupported assignment %s", render(s))
			}
			return t.assign(s.Pos(), s.Lhs[0], s.Rhs[0], s.Tok == token.DEFINE, en, rest, end)
		case token.ADD_ASSIGN, token.SUB_ASSIGN, token.MUL_ASSIGN, token.AND_ASSIGN, token.OR_ASSIGN, token.XOR_ASSIGN,
			token.SHL_ASSIGN, token.SHR_ASSIGN, token.QUO_ASSIGN, token.REM_ASSIGN:
			if len(s.Lhs) != 1 || len(s.Rhs) != 1 {
				t.die(s.Pos(), "unsupported assignment %s", render(s))
			}
			op := map[token.Token]token.Token{token.ADD_ASSIGN: token.ADD, token.SUB_ASSIGN: token.SUB, token.MUL_ASSIGN: token.MUL,
				token.AND_ASSIGN: token.AND, token.OR_ASSIGN: token.OR, token.XOR_ASSIGN: token.XOR, token.SHL_ASSIGN: token.SHL,
				token.SHR_ASSIGN: token.SHR, token.QUO_ASSIGN: token.QUO, token.REM_ASSIGN: token.REM}[s.Tok]
			return t.assign(s.Pos(), s.Lhs[0], &ast.BinaryExpr{X: s.Lhs[0], OpPos: s.Pos(), Op: op, Y: &ast.ParenExpr{X: s.Rhs[0]}}, false, en, rest, end)
		}
		t.die(s.Pos(), "unsupported assignment %s", render(s))

	case *ast.IfStmt:
		if s.Init != nil {
			t.die(s.Pos(), "if with an init statement")
		}
		return t.ifStmt(s, en, rest, end)

	case *ast.SwitchStmt:
		return t.block(append([]ast.Stmt{t.switchToIf(s)}, rest...), en, end)

	case *ast.RangeStmt:
		return t.rangeStmt(s, en, rest, end)

	case *ast.BlockStmt:
		// a nested scope: what it declares is not visible afterwards
		return t.block(s.List, en.clone(), func(inner *env) string {
			after := inner.clone()
			after.vars = map[string]*lvar{}
			for k, v := range en.vars {
				after.vars[k] = v
			}
			return t.block(rest, after, end)
		})
	}
	t.die(list[0].Pos(), "unsupported statement %T", list[0])
	return ""
}

func (t *ltr) assign(pos token.Pos, lhs, rhs ast.Expr, define bool, en *env, rest []ast.Stmt, end func(*env) string) string {
	v := t.ex(rhs, en)
	var target *lvar
	en2 := en
	switch l := lhs.(type) {
	case *ast.Ident:
		if define {
			g := v.t
			if g.kind == "const" {
				g = tInt // default type of an untyped integer constant
			}
			if g.kind != "int" && g.kind != "uint" && g.kind != "bool" {
				t.die(pos, "unsupported local variable type %s", g)
			}
			target = t.newVar(leanIdent(t, pos, l.Name), g, false)
			en2 = en.clone()
			en2.vars[l.Name] = target
		} else {
			var ok bool
			if target, ok = en.vars[l.Name]; !ok {
				t.die(pos, "assignment to unknown variable %s", l.Name)
			}
		}
	case *ast.SelectorExpr:
		var ok bool
		if target, ok = en.fields[render(l)]; !ok || define {
			t.die(pos, "unsupported assignment target %s", render(l))
		}
	default:
		t.die(pos, "unsupported assignment target %s", render(lhs))
	}
	if target.t.kind != "int" && target.t.kind != "uint" && target.t.kind != "bool" {
		t.die(pos, "assignment to a variable of type %s", target.t)
	}
	r := rangeOf(v)
	v = t.conv(pos, v, target.t, false)
	root := lhs
	for {
		if se, ok := root.(*ast.SelectorExpr); ok {
			root = se.X
		} else {
			break
		}
	}
	en2 = en2.assigned(target, render(root), r)
	return "let " + target.lean + " : " + t.leanType(pos, target.t, false) + " := " + v.lean + "\n" + t.block(rest, en2, end)
}

// a, _ := f(x)
func (t *ltr) assignTuple(s *ast.AssignStmt, en *env, rest []ast.Stmt, end func(*env) string) string {
	v := t.ex(s.Rhs[0], en)
	if v.t.kind != "tuple" || len(v.t.tup) != len(s.Lhs) {
		t.die(s.Pos(), "unsupported assignment %s", render(s))
	}
	out := ""
	en2 := en.clone()
	n := len(s.Lhs)
	for i, l := range s.Lhs {
		id, ok := l.(*ast.Ident)
		if !ok {
			t.die(s.Pos(), "unsupported assignment %s", render(s))
		}
		if id.Name == "_" {
			continue
		}
		proj := v.lean + tupleProj(i, n)
		g := v.t.tup[i]
		var target *lvar
		if s.Tok == token.DEFINE {
			target = t.newVar(leanIdent(t, s.Pos(), id.Name), g, false)
			en2.vars[id.Name] = target
		} else {
			if target, ok = en.vars[id.Name]; !ok || !target.t.same(g) {
				t.die(s.Pos(), "unsupported assignment %s", render(s))
			}
			en2 = en2.assigned(target, id.Name, nil)
		}
		out += "let " + target.lean + " : " + t.leanType(s.Pos(), g, false) + " := " + proj + "\n"
	}
	return out + t.block(rest, en2, end)
}

// tupleProj: projection of component i of a right-nested n-tuple
func tupleProj(i, n int) string {
	s := strings.Repeat(".2", i)
	if i < n-1 {
		s += ".1"
	}
	return s
}

func (t *ltr) ret(s *ast.ReturnStmt, en *env) string {
	var parts []string
	for _, f := range t.fields {
		parts = append(parts, f.lean)
	}
	switch {
	case len(s.Results) == 0:
		if !t.named {
			t.die(s.Pos(), "bare return without named results")
		}
		for _, r := range t.results {
			parts = append(parts, r.lean)
		}
	case len(s.Results) == len(t.results):
		for i, r := range s.Results {
			v := t.conv(r.Pos(), t.ex(r, en), t.results[i].t, false)
			parts = append(parts, v.lean)
		}
	default:
		t.die(s.Pos(), "unsupported return %s", render(s))
	}
	if len(parts) == 1 {
		return parts[0]
	}
	return "(" + strings.Join(parts, ", ") + ")"
}

func (t *ltr) ifStmt(s *ast.IfStmt, en *env, rest []ast.Stmt, end func(*env) string) string {
	var els []ast.Stmt
	if s.Else != nil {
		els = elseList(s.Else)
	}
	thenL := s.Body.List

	// the two continuations, with the environments refined by a nil test
	enT, enE := en, en
	var head func(a, b string) string
	if x, thenIsNil, ok := nilTest(s.Cond); ok {
		v := t.ex(x, en)
		switch {
		case v.t.kind == "ptr" && v.opt:
			name := strings.NewReplacer(".", "_", "*", "", "(", "", ")", "").Replace(render(x))
			bound := t.newVar(leanIdent(t, s.Pos(), name), v.t, false)
			enN := en.clone()
			if id, isId := x.(*ast.Ident); isId {
				enN.vars[id.Name] = bound
			} else {
				enN.nonnil[render(x)] = bound
			}
			if thenIsNil {
				enE = enN
			} else {
				enT = enN
			}
			head = func(a, b string) string {
				nilB, someB := a, b
				if !thenIsNil {
					nilB, someB = b, a
				}
				return "match " + v.lean + " with\n| none =>\n" + ind(nilB) + "\n| some " + bound.lean + " =>\n" + ind(someB)
			}
		case v.t.kind == "slice":
			// the model does not distinguish a nil slice from an empty one: `s == nil` becomes `s = []`
			c := "(" + v.lean + " = [])"
			if !thenIsNil {
				c = "(" + v.lean + " ≠ [])"
			}
			head = func(a, b string) string { return "if " + c + " then\n" + ind(a) + "\nelse\n" + ind(b) }
		default:
			t.die(s.Pos(), "nil test of %s (%s), which cannot be nil in the translation", render(x), v.t)
		}
	} else {
		c := t.cond(s.Cond, en)
		pos, neg := map[string]int64{}, map[string]int64{}
		t.guards(s.Cond, en, true, pos)
		t.guards(s.Cond, en, false, neg)
		enT, enE = en.withBounds(pos), en.withBounds(neg)
		head = func(a, b string) string {
			if strings.HasPrefix(b, "if ") { // else-if chain: no extra indentation
				return "if " + c + " then\n" + ind(a) + "\nelse " + b
			}
			return "if " + c + " then\n" + ind(a) + "\nelse\n" + ind(b)
		}
	}

	switch {
	case terminates(thenL):
		// if c { …return } [else B]; rest   ==>   if c then … else (B; rest)
		a := t.block(thenL, enT, func(*env) string { t.die(s.Pos(), "internal: fallthrough"); return "" })
		b := t.block(append(append([]ast.Stmt{}, els...), rest...), enE, end)
		return head(a, b)
	case els != nil && terminates(els) && !hasReturn(thenL):
		a := t.block(append(append([]ast.Stmt{}, thenL...), rest...), enT, end)
		b := t.block(els, enE, func(*env) string { t.die(s.Pos(), "internal: fallthrough"); return "" })
		return head(a, b)
	case !hasReturn(thenL) && !hasReturn(els):
		m := map[*lvar]bool{}
		t.assigned(thenL, en, m)
		t.assigned(els, en, m)
		if len(m) == 0 {
			// nothing is assigned in either branch and conditions are pure: the statement has no effect.
			// (still translate the condition so that an unsupported construct in it is an error)
			return t.block(rest, en, end)
		}
		vs := sortedVars(m)
		term, typ := t.pack(s.Pos(), vs)
		var finT, finE *env
		a := t.block(thenL, enT, func(e *env) string { finT = e; return term })
		b := t.block(els, enE, func(e *env) string { finE = e; return term })
		// after the statement: what both branches agree on
		en3 := en.clone()
		for _, v := range vs {
			en3 = en3.assigned(v, v.lean, hull(finT.rng[v], finE.rng[v]))
		}
		return letMerged(term, typ, "("+head(a, b)+")", t.block(rest, en3, end))
	}
	t.die(s.Pos(), "unsupported mixture of returning and non-returning branches")
	return ""
}

// switchToIf rewrites `switch [tag] { case a, b: A; default: D }` as `if tag == a || tag == b { A } else { D }`
func (t *ltr) switchToIf(s *ast.SwitchStmt) ast.Stmt {
	return switchToIf(s, func(pos token.Pos, msg string) { t.die(pos, "%s", msg) })
}

func switchToIf(s *ast.SwitchStmt, fail func(pos token.Pos, msg string)) ast.Stmt {
	if s.Init != nil {
		fail(s.Pos(), "switch with an init statement")
	}
	var dflt []ast.Stmt
	hasDflt := false
	type clause struct {
		cond ast.Expr
		body []ast.Stmt
		pos  token.Pos
	}
	var cs []clause
	for _, c := range s.Body.List {
		cc := c.(*ast.CaseClause)
		for _, st := range cc.Body {
			ast.Inspect(st, func(n ast.Node) bool {
				if b, ok := n.(*ast.BranchStmt); ok {
					fail(b.Pos(), b.Tok.String()+" inside switch")
				}
				return true
			})
		}
		if cc.List == nil {
			dflt, hasDflt = cc.Body, true
			continue
		}
		var cond ast.Expr
		for _, e := range cc.List {
			var c1 ast.Expr = e
			if s.Tag != nil {
				c1 = &ast.BinaryExpr{X: s.Tag, OpPos: e.Pos(), Op: token.EQL, Y: e}
			}
			if cond == nil {
				cond = c1
			} else {
				cond = &ast.BinaryExpr{X: cond, OpPos: e.Pos(), Op: token.LOR, Y: c1}
			}
		}
		cs = append(cs, clause{cond, cc.Body, cc.Pos()})
	}
	var cur ast.Stmt
	if hasDflt {
		cur = &ast.BlockStmt{Lbrace: s.Pos(), List: dflt}
	}
	for i := len(cs) - 1; i >= 0; i-- {
		cur = &ast.IfStmt{If: cs[i].pos, Cond: cs[i].cond, Body: &ast.BlockStmt{Lbrace: cs[i].pos, List: cs[i].body}, Else: cur}
	}
	if cur == nil {
		return &ast.EmptyStmt{Semicolon: s.Pos()}
	}
	if _, ok := cur.(*ast.BlockStmt); ok {
		fail(s.Pos(), "switch with only a default clause")
	}
	return cur
}

// for _, x := range xs { body }   ==>   let vars := xs.foldl (fun vars x => body; vars) vars
func (t *ltr) rangeStmt(s *ast.RangeStmt, en *env, rest []ast.Stmt, end func(*env) string) string {
	if s.Tok != token.DEFINE || s.Value == nil {
		t.die(s.Pos(), "unsupported range loop")
	}
	if k, ok := s.Key.(*ast.Ident); !ok || k.Name != "_" {
		t.die(s.Pos(), "range loop using the index")
	}
	item, ok := s.Value.(*ast.Ident)
	if !ok {
		t.die(s.Pos(), "unsupported range loop")
	}
	ast.Inspect(s.Body, func(n ast.Node) bool {
		switch b := n.(type) {
		case *ast.BranchStmt:
			t.die(b.Pos(), "%s inside a loop", b.Tok)
		case *ast.ReturnStmt:
			t.die(b.Pos(), "return inside a loop")
		}
		return true
	})
	if elems, ok := t.structArray(s.X, en); ok {
		// a fixed number of struct values: the loop is unrolled, one block per element with item.field replaced
		// by the element's expression for the field
		var unrolled []ast.Stmt
		for _, el := range elems {
			var body []ast.Stmt
			for _, st := range s.Body.List {
				body = append(body, t.rewriteStmt(st, item.Name, el))
			}
			unrolled = append(unrolled, &ast.BlockStmt{Lbrace: s.Pos(), List: body})
		}
		return t.block(append(unrolled, rest...), en, end)
	}
	xs := t.ex(s.X, en)
	if xs.t.kind != "slice" {
		t.die(s.Pos(), "range over %s", xs.t)
	}
	m := map[*lvar]bool{}
	t.assigned(s.Body.List, en, m)
	if len(m) == 0 {
		return t.block(rest, en, end)
	}
	vs := sortedVars(m)
	term, typ := t.pack(s.Pos(), vs)
	// nothing is known about the loop-carried variables, neither inside the loop nor after it
	for _, v := range vs {
		en = en.assigned(v, v.lean, nil)
	}
	en2 := en.clone()
	et := xs.t.elem
	iv := t.newVar(leanIdent(t, s.Pos(), item.Name), et, false) // elements of []*T are non-nil in the model
	en2.vars[item.Name] = iv
	body := t.block(s.Body.List, en2, func(*env) string { return term })
	elT := t.leanType(s.Pos(), et, false)
	if len(vs) > 1 {
		t.die(s.Pos(), "loops assigning more than one variable are not supported")
	}
	binder := "(" + term + " : " + typ + ")"
	val := xs.lean + ".foldl (fun " + binder + " (" + iv.lean + " : " + elT + ") =>\n" + ind(body) + ") " + term
	return letMerged(term, typ, val, t.block(rest, en, end))
}

// maximal length of an array of structs over which a loop is unrolled
const maxUnroll = 16

// structArray recognises an expression that denotes a fixed-size array of struct values known element by
// element: a call `f(args)` of a function of the package (no receiver) whose body is `return [N]T{…}`, or a
// package-level lookup table `var x = [N]T{…}`, T a struct type, N a constant of at most maxUnroll.  The result
// gives, per element, the expression of every field (parameters replaced by the arguments of the call).
func (t *ltr) structArray(x ast.Expr, en *env) ([]map[string]ast.Expr, bool) {
	var lit *ast.CompositeLit
	sub := map[string]ast.Expr{}
	switch x := x.(type) {
	case *ast.Ident:
		if _, local := en.vars[x.Name]; local {
			return nil, false
		}
		v, ok := t.p.varVal[x.Name].(*ast.CompositeLit)
		if !ok {
			return nil, false
		}
		if at, ok := v.Type.(*ast.ArrayType); !ok || at.Len == nil || t.structFields(at.Elt) == nil {
			return nil, false
		}
		if _, ok := t.p.table(x.Pos(), x.Name); !ok { // fatal if the variable is written somewhere
			return nil, false
		}
		lit = v
	case *ast.CallExpr:
		id, ok := x.Fun.(*ast.Ident)
		if !ok {
			return nil, false
		}
		if _, local := en.vars[id.Name]; local {
			return nil, false
		}
		fd, ok := t.p.funcs[id.Name]
		if !ok || fd.Recv != nil || fd.Body == nil || len(fd.Body.List) != 1 || fd.Type.Results == nil || len(fd.Type.Results.List) != 1 {
			return nil, false
		}
		if at, ok := fd.Type.Results.List[0].Type.(*ast.ArrayType); !ok || at.Len == nil || t.structFields(at.Elt) == nil {
			return nil, false
		}
		rs, ok := fd.Body.List[0].(*ast.ReturnStmt)
		if !ok || len(rs.Results) != 1 {
			t.die(x.Pos(), "%s: the body is not a single return of an array literal", id.Name)
		}
		if lit, ok = rs.Results[0].(*ast.CompositeLit); !ok {
			t.die(x.Pos(), "%s: the body is not a single return of an array literal", id.Name)
		}
		k := 0
		for _, f := range fd.Type.Params.List {
			for _, n := range f.Names {
				if k >= len(x.Args) {
					t.die(x.Pos(), "arity of %s", id.Name)
				}
				sub[n.Name] = x.Args[k]
				k++
			}
		}
		if k != len(x.Args) {
			t.die(x.Pos(), "arity of %s", id.Name)
		}
	default:
		return nil, false
	}
	at, ok := lit.Type.(*ast.ArrayType)
	if !ok || at.Len == nil {
		t.die(x.Pos(), "%s: not an array literal", render(x))
	}
	fields := t.structFields(at.Elt)
	n := int64(len(lit.Elts))
	if _, dots := at.Len.(*ast.Ellipsis); !dots {
		if n, ok = t.p.evalConst(at.Len, 0); !ok {
			t.die(x.Pos(), "%s: the array length is not a constant", render(x))
		}
	}
	if n != int64(len(lit.Elts)) || n > maxUnroll {
		t.die(x.Pos(), "%s: %d elements for an array of length %d (every element must be listed; at most %d)", render(x), len(lit.Elts), n, maxUnroll)
	}
	var out []map[string]ast.Expr
	for _, el := range lit.Elts {
		cl, ok := el.(*ast.CompositeLit)
		if !ok {
			t.die(el.Pos(), "%s: element %s is not a struct literal without index", render(x), render(el))
		}
		m := map[string]ast.Expr{}
		for i, fe := range cl.Elts {
			name, val := "", fe
			if kv, ok := fe.(*ast.KeyValueExpr); ok {
				kid, ok := kv.Key.(*ast.Ident)
				if !ok {
					t.die(fe.Pos(), "unsupported struct literal %s", render(cl))
				}
				name, val = kid.Name, kv.Value
			} else {
				if i >= len(fields) || len(cl.Elts) != len(fields) {
					t.die(fe.Pos(), "unsupported struct literal %s", render(cl))
				}
				name = fields[i]
			}
			if _, dup := m[name]; dup {
				t.die(fe.Pos(), "unsupported struct literal %s", render(cl))
			}
			m[name] = substIdents(val, sub)
		}
		for _, f := range fields { // a field that is not listed has the zero value: not supported
			if _, ok := m[f]; !ok {
				t.die(cl.Pos(), "struct literal %s does not give the field %s", render(cl), f)
			}
		}
		out = append(out, m)
	}
	return out, true
}

// structFields: the field names of a struct type (a struct type of the package or a struct type literal)
func (t *ltr) structFields(e ast.Expr) []string {
	if id, ok := e.(*ast.Ident); ok {
		e = t.p.types[id.Name]
	}
	st, ok := e.(*ast.StructType)
	if !ok {
		return nil
	}
	names := []string{}
	for _, f := range st.Fields.List {
		for _, n := range f.Names {
			names = append(names, n.Name)
		}
	}
	return names
}

// rewriteStmt copies a statement of an unrolled loop body, replacing item.f by fields[f]
func (t *ltr) rewriteStmt(s ast.Stmt, item string, fields map[string]ast.Expr) ast.Stmt {
	var ex func(e ast.Expr) ast.Expr
	ex = func(e ast.Expr) ast.Expr {
		switch e := e.(type) {
		case nil:
			return nil
		case *ast.Ident:
			if e.Name == item {
				t.die(e.Pos(), "the loop variable %s is used other than through its fields", item)
			}
			return e
		case *ast.BasicLit:
			return e
		case *ast.ParenExpr:
			return &ast.ParenExpr{Lparen: e.Lparen, X: ex(e.X), Rparen: e.Rparen}
		case *ast.SelectorExpr:
			if id, ok := e.X.(*ast.Ident); ok && id.Name == item {
				v, ok := fields[e.Sel.Name]
				if !ok {
					t.die(e.Pos(), "unknown field %s", render(e))
				}
				return &ast.ParenExpr{X: v}
			}
			return &ast.SelectorExpr{X: ex(e.X), Sel: e.Sel}
		case *ast.IndexExpr:
			return &ast.IndexExpr{X: ex(e.X), Lbrack: e.Lbrack, Index: ex(e.Index), Rbrack: e.Rbrack}
		case *ast.StarExpr:
			return &ast.StarExpr{Star: e.Star, X: ex(e.X)}
		case *ast.UnaryExpr:
			return &ast.UnaryExpr{OpPos: e.OpPos, Op: e.Op, X: ex(e.X)}
		case *ast.BinaryExpr:
			return &ast.BinaryExpr{X: ex(e.X), OpPos: e.OpPos, Op: e.Op, Y: ex(e.Y)}
		case *ast.CallExpr:
			c := &ast.CallExpr{Fun: ex(e.Fun), Lparen: e.Lparen, Rparen: e.Rparen}
			for _, a := range e.Args {
				c.Args = append(c.Args, ex(a))
			}
			return c
		}
		t.die(e.Pos(), "unsupported expression %s in an unrolled loop", render(e))
		return nil
	}
	exs := func(l []ast.Expr) []ast.Expr {
		var out []ast.Expr
		for _, e := range l {
			out = append(out, ex(e))
		}
		return out
	}
	var st func(s ast.Stmt) ast.Stmt
	sts := func(l []ast.Stmt) []ast.Stmt {
		var out []ast.Stmt
		for _, s := range l {
			out = append(out, st(s))
		}
		return out
	}
	st = func(s ast.Stmt) ast.Stmt {
		switch s := s.(type) {
		case nil:
			return nil
		case *ast.EmptyStmt:
			return s
		case *ast.AssignStmt:
			for _, l := range s.Lhs {
				if id, ok := l.(*ast.Ident); ok && id.Name == item {
					t.die(s.Pos(), "the loop variable %s is assigned", item)
				}
			}
			return &ast.AssignStmt{Lhs: exs(s.Lhs), TokPos: s.TokPos, Tok: s.Tok, Rhs: exs(s.Rhs)}
		case *ast.IncDecStmt:
			return &ast.IncDecStmt{X: ex(s.X), TokPos: s.TokPos, Tok: s.Tok}
		case *ast.BlockStmt:
			return &ast.BlockStmt{Lbrace: s.Lbrace, List: sts(s.List), Rbrace: s.Rbrace}
		case *ast.IfStmt:
			n := &ast.IfStmt{If: s.If, Init: st(s.Init), Cond: ex(s.Cond), Body: &ast.BlockStmt{Lbrace: s.Body.Lbrace, List: sts(s.Body.List)}}
			if s.Else != nil {
				n.Else = st(s.Else)
			}
			return n
		case *ast.SwitchStmt:
			n := &ast.SwitchStmt{Switch: s.Switch, Init: st(s.Init), Tag: ex(s.Tag), Body: &ast.BlockStmt{Lbrace: s.Body.Lbrace}}
			for _, c := range s.Body.List {
				cc := c.(*ast.CaseClause)
				n.Body.List = append(n.Body.List, &ast.CaseClause{Case: cc.Case, List: exs(cc.List), Body: sts(cc.Body)})
			}
			return n
		}
		t.die(s.Pos(), "unsupported statement %T in an unrolled loop", s)
		return nil
	}
	return st(s)
}

// ---- functions ----

// comparesWithNil: the parameter is compared with nil somewhere in the body
func comparesWithNil(fd *ast.FuncDecl, name string) bool {
	found := false
	ast.Inspect(fd.Body, func(n ast.Node) bool {
		if b, ok := n.(*ast.BinaryExpr); ok {
			if x, _, ok := nilTest(b); ok {
				if id, ok := x.(*ast.Ident); ok && id.Name == name {
					found = true
				}
			}
		}
		return true
	})
	return found
}

func (t *ltr) signature(goName string) *lsig {
	fd, ok := t.p.funcs[goName]
	if !ok {
		die("function %s not found", goName)
	}
	t.name = goName
	sig := &lsig{goName: goName, lean: strings.ReplaceAll(goName, ".", "_"), fd: fd}
	var fl []*ast.Field
	if fd.Recv != nil {
		fl = append(fl, fd.Recv.List...)
	}
	fl = append(fl, fd.Type.Params.List...)
	for _, f := range fl {
		g := t.gtypeOf(f.Type)
		if len(f.Names) == 0 {
			t.die(f.Pos(), "unnamed parameter")
		}
		for _, n := range f.Names {
			opt := false
			switch g.kind {
			case "ptr":
				if g.elem.kind != "struct" {
					t.die(f.Pos(), "unsupported parameter type %s", g)
				}
				opt = comparesWithNil(fd, n.Name)
			case "slice", "int", "uint", "bool":
			default:
				t.die(f.Pos(), "unsupported parameter type %s", g)
			}
			sig.params = append(sig.params, &lvar{lean: leanIdent(t, n.Pos(), n.Name), t: g, opt: opt})
		}
	}
	if fd.Type.Results == nil {
		t.die(fd.Pos(), "no result")
	}
	for _, f := range fd.Type.Results.List {
		g := t.gtypeOf(f.Type)
		if g.kind != "int" && g.kind != "uint" && g.kind != "bool" {
			t.die(f.Pos(), "unsupported result type %s", g)
		}
		k := len(f.Names)
		if k == 0 {
			k = 1
		}
		for i := 0; i < k; i++ {
			sig.results = append(sig.results, g)
		}
	}
	// assigned fields of pointer parameters (e.g. c.value in wrappingCounter.inc)
	seen := map[string]bool{}
	ast.Inspect(fd.Body, func(n ast.Node) bool {
		var targets []ast.Expr
		switch s := n.(type) {
		case *ast.AssignStmt:
			if s.Tok != token.DEFINE {
				targets = s.Lhs
			}
		case *ast.IncDecStmt:
			targets = []ast.Expr{s.X}
		}
		for _, l := range targets {
			if se, ok := l.(*ast.SelectorExpr); ok && !seen[render(se)] {
				seen[render(se)] = true
				id, ok := se.X.(*ast.Ident)
				if !ok {
					t.die(se.Pos(), "unsupported assignment target %s", render(se))
				}
				var pr *lvar
				for _, q := range sig.params {
					if q.lean == id.Name {
						pr = q
					}
				}
				if pr == nil || pr.t.kind != "ptr" || pr.opt {
					t.die(se.Pos(), "unsupported assignment target %s", render(se))
				}
				ft := t.structField(se.Pos(), pr.t.elem.name, se.Sel.Name)
				if ft.kind != "int" && ft.kind != "uint" {
					t.die(se.Pos(), "assignment to a field of type %s", ft)
				}
				sig.fieldsT = append(sig.fieldsT, ft)
			}
		}
		return true
	})
	return sig
}

// funcTerm translates the body of a function: the Lean binders of its parameters, the Lean types of
// its results and the body as a term over the binders
func (t *ltr) funcTerm(sig *lsig) (binders, rtypes []string, term string) {
	fd := sig.fd
	t.name = sig.goName
	t.results, t.fields, t.named, t.nvars = nil, nil, false, 0
	en := &env{vars: map[string]*lvar{}, nonnil: map[string]*lvar{}, fields: map[string]*lvar{}}
	for _, pr := range sig.params {
		v := t.newVar(pr.lean, pr.t, pr.opt)
		en.vars[pr.lean] = v
		binders = append(binders, "("+pr.lean+" : "+t.leanType(fd.Pos(), pr.t, pr.opt)+")")
	}
	prologue := ""
	zero := map[string]string{"int": "0", "uint": "0", "bool": "false"}
	// state variables for assigned receiver fields
	seen := map[string]bool{}
	ast.Inspect(fd.Body, func(n ast.Node) bool {
		var targets []ast.Expr
		switch s := n.(type) {
		case *ast.AssignStmt:
			if s.Tok != token.DEFINE {
				targets = s.Lhs
			}
		case *ast.IncDecStmt:
			targets = []ast.Expr{s.X}
		}
		for _, l := range targets {
			if se, ok := l.(*ast.SelectorExpr); ok && !seen[render(se)] {
				seen[render(se)] = true
				init := t.fieldRead(se, en)
				v := t.newVar(strings.ReplaceAll(render(se), ".", "_"), init.t, false)
				t.fields = append(t.fields, v)
				en.fields[render(se)] = v
				prologue += "let " + v.lean + " : " + t.leanType(se.Pos(), v.t, false) + " := " + init.lean + "\n"
			}
		}
		return true
	})
	// results
	for _, f := range t.fields {
		rtypes = append(rtypes, t.leanType(fd.Pos(), f.t, false))
	}
	for _, f := range fd.Type.Results.List {
		g := t.gtypeOf(f.Type)
		if len(f.Names) == 0 {
			t.results = append(t.results, &lvar{t: g})
			rtypes = append(rtypes, t.leanType(f.Pos(), g, false))
		}
		for _, n := range f.Names {
			t.named = true
			v := t.newVar(leanIdent(t, n.Pos(), n.Name), g, false)
			t.results = append(t.results, v)
			en.vars[n.Name] = v
			rtypes = append(rtypes, t.leanType(f.Pos(), g, false))
			prologue += "let " + v.lean + " : " + t.leanType(f.Pos(), g, false) + " := " + zero[g.kind] + "\n"
		}
	}
	body := t.block(fd.Body.List, en, func(*env) string {
		t.die(fd.Body.Rbrace, "falls off the end")
		return ""
	})
	return binders, rtypes, prologue + body
}

func (t *ltr) function(sig *lsig) (text string, calls []string) {
	t.calls = map[string]bool{}
	binders, rtypes, term := t.funcTerm(sig)
	for c := range t.calls {
		calls = append(calls, c)
	}
	sort.Strings(calls)
	src := filepath.Base(fset.Position(sig.fd.Pos()).Filename)
	text = fmt.Sprintf("/-- %s: `%s` -/\ndef %s %s : %s :=\n%s\n", src, sig.goName, sig.lean, strings.Join(binders, " "), strings.Join(rtypes, " × "), ind(term))
	return
}

const lengthsHeader = `/-
REGENERATED by /verif/extract from /repo (descriptor.go, packet.go, data_pes.go, data_pat.go, data_pmt.go,
wrapping_counter.go): the length calculators and other straight-line integer functions, translated
statement by statement into Lean functions over the model's structures. Do not edit.

Translation rules (anything outside this fragment makes the translator exit non-zero):
* Go struct T            ↔ model structure T (first letter capitalised); field Foo ↔ foo (leading capitals lower-cased);
  field of type *T       ↔ Option T;   []T, []*T ↔ List T;   []byte ↔ Bytes;   len(x) ↔ (x.length : Int).
* uintN                  ↔ Nat, every +, -, *, << at type uintN is followed by % 2^N;   uintN(e) of an int e ↔ (e % 2^N).toNat;
  &, |, ^, >> on uintN   ↔ &&&, |||, ^^^, >>> (operands below 2^N give a result below 2^N);   / and % by a positive constant only;
  int                    ↔ Int (unbounded: Go's int is 64 bits wide, sums of slice lengths do not reach 2^63; the model
  makes the same assumption); int fields are read as (x.f : Int) whether the model stores them as Int or Nat.
* untyped constant expressions are evaluated (from the constant declarations of the *current* source) and emitted as literals.
* a pointer parameter that the function compares with nil is an Option; if p == nil { A }; B ↔ match p with | none => A | some p => B.
  A pointer parameter that is dereferenced without a test is the structure itself (Go panics on nil; panics are not the subject
  of these functions); passing an Option field to such a parameter goes through .getD default.
  s == nil for a slice s ↔ s = [] (the model does not distinguish nil from empty slices).
* x := e, x = e, x op= e, x++ ↔ let x : T := …; if/else and switch without return ↔ let x := if … then … else x for the
  assigned variables; if c { …; return e } ↔ if c then … else <rest>; switch ↔ chain of if on tag = case.
* for _, item := range xs { body } ↔ let x := xs.foldl (fun x item => body; x) x for the assigned variable x.
* a method assigning fields of its pointer receiver returns the final values of those fields in front of its results.
* conditions are decidable propositions (=, ≠, <, ≤, ∧, ∨, ¬); a Bool b is b = true; a condition used as a value is decide c.
* f(x) / x.m() for a listed function ↔ (f x) / (T_m x); for any other function or method of the package the callee is
  translated by the same rules and INLINED as ((fun (p : T) … => body) x): the file defines the listed functions only,
  whatever helper functions the Go code is split into.
* &, |, ^ on int        ↔ (BitVec.ofInt 64 a ||| BitVec.ofInt 64 b).toInt etc.: Go's 64-bit two's complement (Lean's Int has no
  bitwise operators).
* tbl[i] for a package-level variable tbl that is NEVER WRITTEN anywhere in the package (extract/tables.go, the analysis behind
  the fact packageVarsWritten) and whose value is an array / slice / map literal of constants ↔ if i = 0 then e0 else if i = 1
  then e1 else … else e(n-1);  len(tbl) ↔ the constant n.  An index out of range is a Go panic, which these functions cannot
  express: the chain is only emitted when the translator's interval analysis (types, constants, +, -, *, &, |, ^, >>, %,
  the values assigned on all paths, enclosing guards if i < k) shows 0 ≤ i < n; otherwise the translation fails.
  A map gives … else <zero value> (a missing key is not a panic).
* for _, f := range g(x) { body } where g is return [N]T{{a1, b1}, …} (T a struct, N ≤ 16, also a package-level table of
  structs) ↔ the body N times, f.field replaced by the element's expression; { … } ↔ a nested scope.
-/
import Astits.Model.Mux
set_option linter.unusedVariables false
namespace Astits.Generated.Lengths

`

func emitLengths(p *pkgInfo, out string) {
	t := &ltr{p: p, sigs: map[string]*lsig{}, inlineSigs: map[string]*lsig{}, inlineTerms: map[string]string{}}
	for _, n := range lengthFuncs {
		sig := t.signature(n)
		if _, dup := t.sigs[sig.goName]; dup {
			die("duplicate function %s", n)
		}
		t.sigs[n] = sig
	}
	texts := map[string]string{}
	deps := map[string][]string{}
	for _, n := range lengthFuncs {
		texts[n], deps[n] = t.function(t.sigs[n])
	}
	// callees first; independent functions in whitelist order
	var order []string
	state := map[string]int{}
	var visit func(n string)
	visit = func(n string) {
		switch state[n] {
		case 1:
			die("recursive call cycle through %s", n)
		case 2:
			return
		}
		state[n] = 1
		for _, d := range deps[n] {
			visit(d)
		}
		state[n] = 2
		order = append(order, n)
	}
	for _, n := range lengthFuncs {
		visit(n)
	}
	var b strings.Builder
	b.WriteString(lengthsHeader)
	for _, n := range order {
		b.WriteString(texts[n])
		b.WriteString("\n")
	}
	b.WriteString("end Astits.Generated.Lengths\n")
	write(filepath.Join(out, "Lengths.lean"), b.String())
}
