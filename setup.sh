#!/bin/bash
# Build everything the checks need, offline, from files on disk only.
set -e
cd "$(dirname "$0")"
export GOFLAGS=-mod=mod GOPROXY=off GOSUMDB=off GOTOOLCHAIN=local CGO_ENABLED=0
REPO=${VERIF_REPO:-/repo}
# (exit status 3 of extract = some generated files are failing stubs: the checks report that, setup goes on)
(cd extract && go build -o extract . && { ./extract "$REPO" ../lean/Astits/Generated || [ $? -eq 3 ]; })
cp "$REPO/go.sum" harness/go.sum
(cd harness && go build -tags verif -o harness .)
(cd lean && lake build driver && { lake build Astits || echo "setup: some Lean modules do not build (the checks will say which)"; })
echo "setup done"
