#!/bin/bash
# Build everything the checks need, offline, from files on disk only.
set -e
cd "$(dirname "$0")"
export GOFLAGS=-mod=mod GOPROXY=off GOSUMDB=off GOTOOLCHAIN=local CGO_ENABLED=0
REPO=${VERIF_REPO:-/repo}
(cd extract && go build -o extract . && ./extract "$REPO" ../lean/Astits/Generated)
cp "$REPO/go.sum" harness/go.sum
(cd harness && go build -tags verif -o harness .)
(cd lean && lake build Astits driver)
echo "setup done"
