#!/bin/bash
# developer helper: run one property's cases against the real code and summarise mismatches
set -e
export GOFLAGS=-mod=mod GOPROXY=off GOSUMDB=off GOTOOLCHAIN=local
cd /verif/harness && go build -tags verif -o harness .
/verif/lean/.lake/build/bin/driver gen $1 ${2:-quick} ${3:-1} | ./harness -max-mismatches 400 > /tmp/run1.json
python3 - <<'PY'
import json
from collections import Counter
d=json.load(open('/tmp/run1.json'))
ms=d.pop('mismatches') or []
d.pop('samples')
print(json.dumps(d)[:1200])
print(Counter((m['kind'],m['tag'],m['cls']) for m in ms))
def diffwin(a,b,w=70):
    i=0
    while i<min(len(a),len(b)) and a[i]==b[i]: i+=1
    lo=max(0,i-w)
    return "@%d: ...%s | ...%s"%(i,a[lo:i+w],b[lo:i+w])
seen=set()
n=0
for m in ms:
    k=(m['kind'],m['tag'])
    if k in seen: continue
    seen.add(k); n+=1
    if n>12: break
    other=m['model'] if m['kind']=='corr' else (m.get('spec') or '')
    print('==',m['kind'],m['tag'],m['id'],'impl|'+('model' if m['kind']=='corr' else 'spec'), diffwin(m['impl'],other)); print('   case',m['case'][:260])
PY
