package main

import (
	"encoding/hex"
	"fmt"
	"strings"

	astits "github.com/asticode/go-astits"
)

func init() {
	ops["parseDesc"] = func(c *Case) string {
		ds, off, err := astits.VerifParseDescriptors(unhex(c.str("hex")))
		if err != nil {
			return "err:" + errClass(err)
		}
		if ds == nil {
			ds = []*astits.Descriptor{}
		}
		return fmt.Sprintf("ok:off=%d:%s", off, canon(ds))
	}
	ops["writeDesc"] = func(c *Case) string {
		var ds []*astits.Descriptor
		if err := decode(c.Raw["descs"], &ds); err != nil {
			panic(err)
		}
		bs, n, err := astits.VerifWriteDescriptorsWithLength(ds)
		if err != nil {
			return "err:" + errClass(err)
		}
		calc := make([]string, len(ds))
		for i, d := range ds {
			calc[i] = fmt.Sprintf("%d", astits.VerifCalcDescriptorLength(d))
		}
		return fmt.Sprintf("ok:n=%d:%s:calc=[%s]", n, hex.EncodeToString(bs), strings.Join(calc, ","))
	}
}
