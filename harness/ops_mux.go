package main

import (
	"bytes"
	"context"
	"encoding/hex"
	"encoding/json"
	"fmt"
	"sort"
	"strings"

	astits "github.com/asticode/go-astits"
)

// recWriter records what the muxer hands to its io.Writer; optionally fails the j-th Write call
type recWriter struct {
	buf      bytes.Buffer
	calls    int
	failAt   int
	once     bool
	done     bool
	accepted int
}

func (w *recWriter) Write(p []byte) (int, error) {
	i := w.calls
	w.calls++
	if w.failAt >= 0 && !w.done && i >= w.failAt {
		w.done = w.once
		return 0, fmt.Errorf("write failed: %w", errInjected)
	}
	w.accepted += len(p)
	return w.buf.Write(p)
}

// withSpare puts the caller's bytes into a larger backing array (as a sub-slice of a bigger buffer would be): the
// bytes behind the slice belong to the caller too and must not be touched
func withSpare(b []byte) ([]byte, int) {
	if b == nil {
		return nil, 0
	}
	const spare = 64
	back := make([]byte, len(b)+spare)
	copy(back, b)
	for i := len(b); i < len(back); i++ {
		back[i] = 0x5a
	}
	return back[:len(b)], spare
}

type muxOp struct {
	Add    json.RawMessage `json:"add"`
	Remove *int            `json:"remove"`
	PCR    *int            `json:"pcr"`
	Tables *bool           `json:"tables"`
	Data   json.RawMessage `json:"data"`
	Packet json.RawMessage `json:"packet"`
	// Reuse: pass the adaptation field OBJECT of the previous data op (as the muxer left it) instead of a fresh one
	Reuse bool `json:"reuse"`
}

func init() {
	ops["mux"] = func(c *Case) string {
		var mops []muxOp
		if err := json.Unmarshal(c.Raw["ops"], &mops); err != nil {
			panic(err)
		}
		w := &recWriter{failAt: -1}
		if c.has("failAt") {
			w.failAt = int(c.num("failAt"))
			w.once = c.boolean("once")
		}
		// period 0: no option at all (the library's default period applies)
		var m *astits.Muxer
		if int(c.num("period")) == 0 {
			m = astits.NewMuxer(context.Background(), w)
		} else {
			m = astits.NewMuxer(context.Background(), w, astits.MuxerOptTablesRetransmitPeriod(int(c.num("period"))))
		}
		view := c.str("view")
		var outs []string
		last := ""
		payloadOK := true
		var lastAF *astits.PacketAdaptationField
		for oi, op := range mops {
			if oi == len(mops)-1 && c.has("failAtLast") {
				// arm the writer fault relative to the first Write of the last call
				w.failAt = w.calls + int(c.num("failAtLast"))
				w.once = c.boolean("once")
			}
			before := w.buf.Len()
			acceptedBefore := w.accepted
			call := func(kind string, f func() (int, error)) {
				n, err := f()
				appended := w.buf.Bytes()[before:]
				outs = append(outs, fmt.Sprintf("%s:n=%d:err=%s:w=%s", kind, n, errClass(err), hex.EncodeToString(appended)))
				last = fmt.Sprintf("%s:err=%s:nle=%v", kind, errClass(err), n <= w.accepted-acceptedBefore)
			}
			switch {
			case op.Add != nil:
				var es astits.PMTElementaryStream
				if err := decode(op.Add, &es); err != nil {
					panic(err)
				}
				if err := m.AddElementaryStream(es); err != nil {
					outs = append(outs, "add:err:"+errClass(err))
				} else {
					outs = append(outs, "add:ok")
				}
			case op.Remove != nil:
				if err := m.RemoveElementaryStream(uint16(*op.Remove)); err != nil {
					outs = append(outs, "remove:err:"+errClass(err))
				} else {
					outs = append(outs, "remove:ok")
				}
			case op.PCR != nil:
				m.SetPCRPID(uint16(*op.PCR))
				outs = append(outs, "pcr")
			case op.Tables != nil:
				call("tables", func() (int, error) { return m.WriteTables() })
			case op.Data != nil:
				var d astits.MuxerData
				if err := decode(op.Data, &d); err != nil {
					panic(err)
				}
				if op.Reuse && lastAF != nil {
					d.AdaptationField = lastAF
				}
				d.PES.Data, _ = withSpare(d.PES.Data)
				payloadBefore := append([]byte{}, d.PES.Data[:cap(d.PES.Data)]...)
				// the other byte slices the caller owns sit in larger buffers too: private data of the PES extension and of
				// the adaptation field, extension 2 data
				var others []*[]byte
				if d.PES.Header != nil && d.PES.Header.OptionalHeader != nil {
					others = append(others, &d.PES.Header.OptionalHeader.PrivateData, &d.PES.Header.OptionalHeader.Extension2Data)
				}
				if d.AdaptationField != nil && !(op.Reuse && lastAF != nil) {
					others = append(others, &d.AdaptationField.TransportPrivateData)
				}
				var othersBefore [][]byte
				for _, o := range others {
					if *o != nil {
						*o, _ = withSpare(*o)
					}
					othersBefore = append(othersBefore, append([]byte{}, (*o)[:cap(*o)]...))
				}
				call("data", func() (int, error) { return m.WriteData(&d) })
				for k, o := range others {
					if !bytes.Equal(othersBefore[k], (*o)[:cap(*o)]) {
						payloadOK = false
					}
				}
				d.PES.Data = d.PES.Data[:cap(d.PES.Data)]
				lastAF = d.AdaptationField
				if !bytes.Equal(payloadBefore, d.PES.Data) {
					payloadOK = false
				}
			case op.Packet != nil:
				var p astits.Packet
				if err := decode(op.Packet, &p); err != nil {
					panic(err)
				}
				p.Payload, _ = withSpare(p.Payload)
				payloadBefore := append([]byte{}, p.Payload[:cap(p.Payload)]...)
				call("packet", func() (int, error) { return m.WritePacket(&p) })
				p.Payload = p.Payload[:cap(p.Payload)]
				if !bytes.Equal(payloadBefore, p.Payload) {
					payloadOK = false
				}
			}
		}
		switch view {
		case "fault":
			// the last call is the one during which the writer failed
			return last
		case "payload":
			return fmt.Sprintf("payload-unchanged=%v", payloadOK)
		case "demux":
			dmx := astits.NewDemuxer(context.Background(), bytes.NewReader(w.buf.Bytes()), astits.DemuxerOptPacketSize(188))
			byPid := map[uint16][]string{}
			var pids []int
			errors, ending := 0, "other"
			for i := 0; i < w.buf.Len()/188+8; i++ {
				d, err := dmx.NextData()
				if err != nil {
					if errClass(err) == "eof" {
						ending = "eof"
						break
					}
					errors++
					continue
				}
				if _, ok := byPid[d.PID]; !ok {
					pids = append(pids, int(d.PID))
				}
				byPid[d.PID] = append(byPid[d.PID], canon(d))
			}
			sort.Ints(pids)
			var parts []string
			for _, p := range pids {
				parts = append(parts, fmt.Sprintf("pid=%d:[%s]", p, strings.Join(byPid[uint16(p)], ",")))
			}
			return strings.Join(parts, ";") + fmt.Sprintf(";errors=%d;end=%s", errors, ending)
		}
		return strings.Join(outs, "|")
	}
}
