package main

import (
	"encoding/hex"
	"strconv"
	"strings"
	"time"

	astits "github.com/asticode/go-astits"
)

func bcd2(n int) byte { return byte(n/10)<<4 | byte(n%10) }

func joinRange(lo, hi int, f func(v int) string) string {
	var b strings.Builder
	for v := lo; v < hi; v++ {
		if v > lo {
			b.WriteByte(',')
		}
		b.WriteString(f(v))
	}
	return b.String()
}

func init() {
	parseTime := func(bs []byte) string {
		t, err := astits.VerifParseDVBTime(bs)
		if err != nil {
			return "-1"
		}
		return strconv.FormatInt(t.Unix(), 10)
	}
	ops["dvbDecodeRange"] = func(c *Case) string {
		return joinRange(int(c.num("lo")), int(c.num("hi")), func(v int) string {
			return parseTime([]byte{byte(v >> 8), byte(v), 0x12, 0x34, 0x56})
		})
	}
	ops["dvbDecodeTimeRange"] = func(c *Case) string {
		mjd := int(c.num("mjd"))
		return joinRange(int(c.num("lo")), int(c.num("hi")), func(s int) string {
			return parseTime([]byte{byte(mjd >> 8), byte(mjd), bcd2(s / 3600), bcd2(s / 60 % 60), bcd2(s % 60)})
		})
	}
	writeTime := func(unix int64) string {
		bs, _, err := astits.VerifWriteDVBTime(time.Unix(unix, 0).UTC())
		if err != nil {
			return "err"
		}
		return hex.EncodeToString(bs)
	}
	ops["dvbEncodeRange"] = func(c *Case) string {
		sec := c.num("sec")
		return joinRange(int(c.num("lo")), int(c.num("hi")), func(v int) string {
			return writeTime((int64(v)-40587)*86400 + sec)
		})
	}
	ops["dvbEncodeTimeRange"] = func(c *Case) string {
		mjd := c.num("mjd")
		return joinRange(int(c.num("lo")), int(c.num("hi")), func(s int) string {
			return writeTime((mjd-40587)*86400 + int64(s))
		})
	}
	ops["durMinParseRange"] = func(c *Case) string {
		return joinRange(int(c.num("lo")), int(c.num("hi")), func(v int) string {
			d, err := astits.VerifParseDVBDurationMinutes([]byte{byte(v >> 8), byte(v)})
			if err != nil {
				return "-1"
			}
			return strconv.FormatInt(int64(d), 10)
		})
	}
	ops["durSecParseRange"] = func(c *Case) string {
		return joinRange(int(c.num("lo")), int(c.num("hi")), func(v int) string {
			d, err := astits.VerifParseDVBDurationSeconds([]byte{byte(v >> 16), byte(v >> 8), byte(v)})
			if err != nil {
				return "-1"
			}
			return strconv.FormatInt(int64(d), 10)
		})
	}
	ops["durMinWriteRange"] = func(c *Case) string {
		return joinRange(int(c.num("lo")), int(c.num("hi")), func(v int) string {
			bs, _, err := astits.VerifWriteDVBDurationMinutes(time.Duration(v) * time.Minute)
			if err != nil {
				return "err"
			}
			return hex.EncodeToString(bs)
		})
	}
	ops["durSecWriteRange"] = func(c *Case) string {
		return joinRange(int(c.num("lo")), int(c.num("hi")), func(v int) string {
			bs, _, err := astits.VerifWriteDVBDurationSeconds(time.Duration(v) * time.Second)
			if err != nil {
				return "err"
			}
			return hex.EncodeToString(bs)
		})
	}
}
