package main

import (
	astits "github.com/asticode/go-astits"
)

func init() {
	ops["parsePSI"] = func(c *Case) string {
		d, err := astits.VerifParsePSIData(unhex(c.str("hex")))
		return showParse(d, err)
	}
	ops["writePSI"] = func(c *Case) string {
		var d astits.PSIData
		if err := decode(c.Raw["psi"], &d); err != nil {
			panic(err)
		}
		bs, n, err := astits.VerifWritePSIData(&d)
		if err != nil {
			return "err:" + errClass(err) + ":n=0:"
		}
		return showWrite(bs, n, nil)
	}
}
