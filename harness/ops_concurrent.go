package main

import (
	"encoding/json"
	"fmt"
	"os"
	"sync"
)

// concurrent: independent instances in different goroutines behave as they do alone (C16).
// "cases" is a list of sub-cases (any registered op: demux, mux, parsePSI, ...), each with the string its model
// expects ("model"). Every sub-case is first run alone, then all of them run together, each in its own goroutine,
// "rounds" times; every result must equal the sequential one (and the model's, which the caller compares through the
// returned string). Under the race build the Go race detector watches the same run.
func init() {
	ops["concurrent"] = func(c *Case) string {
		var raws []json.RawMessage
		if err := json.Unmarshal(c.Raw["cases"], &raws); err != nil {
			panic(err)
		}
		rounds := int(c.num("rounds"))
		subs := make([]*Case, len(raws))
		for i, r := range raws {
			sc := &Case{}
			if err := json.Unmarshal(r, sc); err != nil {
				panic(err)
			}
			if err := json.Unmarshal(r, &sc.Raw); err != nil {
				panic(err)
			}
			sc.ID = c.ID
			subs[i] = sc
		}
		fmt.Fprintf(os.Stderr, "concurrent: case %d (%d instances x %d rounds)\n", c.ID, len(subs), rounds)
		base := make([]string, len(subs))
		for i, sc := range subs {
			base[i] = run(sc)
			if base[i] != sc.Model {
				return fmt.Sprintf("alone:instance=%d differs from the model", i)
			}
		}
		var mu sync.Mutex
		first := ""
		var wg sync.WaitGroup
		start := make(chan struct{})
		for i, sc := range subs {
			wg.Add(1)
			go func(i int, sc *Case) {
				defer wg.Done()
				<-start
				for r := 0; r < rounds; r++ {
					// a private copy of the case: ops may keep per-run state in it
					cc := *sc
					got := run(&cc)
					if got != base[i] {
						mu.Lock()
						if first == "" {
							first = fmt.Sprintf("together:instance=%d:round=%d differs from its result alone", i, r)
						}
						mu.Unlock()
						return
					}
				}
			}(i, sc)
		}
		close(start)
		wg.Wait()
		if first != "" {
			return first
		}
		return "consistent"
	}
}
