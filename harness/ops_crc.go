package main

import (
	"encoding/json"
	"fmt"
	"strings"

	astits "github.com/asticode/go-astits"
)

func init() {
	ops["crc"] = func(c *Case) string {
		bs := unhex(c.str("hex"))
		cuts := c.ints("cuts")
		whole := astits.VerifComputeCRC32(bs)
		// piecewise
		st := astits.VerifUpdateCRC32(0xffffffff, nil)
		pos := 0
		for _, k := range cuts {
			st = astits.VerifUpdateCRC32(st, bs[pos:k])
			pos = k
		}
		st = astits.VerifUpdateCRC32(st, bs[pos:])
		withCRC := append(append([]byte{}, bs...), byte(whole>>24), byte(whole>>16), byte(whole>>8), byte(whole))
		res := astits.VerifComputeCRC32(withCRC)
		return fmt.Sprintf("%08x %08x %08x", whole, st, res)
	}
	// the checksum is a function of the bytes, not of the buffer: one buffer overwritten in place with several messages
	ops["crcseq"] = func(c *Case) string {
		var msgs []string
		if err := json.Unmarshal(c.Raw["msgs"], &msgs); err != nil {
			panic(err)
		}
		var buf []byte
		parts := []string{}
		for _, h := range msgs {
			b := unhex(h)
			if cap(buf) < len(b) {
				buf = make([]byte, len(b))
			}
			buf = buf[:len(b)]
			copy(buf, b)
			parts = append(parts, fmt.Sprintf("%08x", astits.VerifComputeCRC32(buf)))
		}
		return strings.Join(parts, " ")
	}
	ops["crcstep"] = func(c *Case) string {
		return fmt.Sprintf("%08x", astits.VerifUpdateCRC32(uint32(c.num("state")), []byte{byte(c.num("byte"))}))
	}
	ops["crctable"] = func(c *Case) string {
		t := astits.VerifCRC32Table()
		parts := make([]string, 256)
		for i, v := range t {
			parts[i] = fmt.Sprintf("%08x", v)
		}
		return strings.Join(parts, " ")
	}
}
