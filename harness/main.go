// harness: thin executor of the line protocol. It reads cases (one JSON object per line) produced
// by the Lean driver, performs the named operation on the REAL library (in-process; unexported
// pure functions through the verif-tagged hooks), renders what it observed in the canonical
// format and compares it, as a string, with the model's and the spec's expectation carried by the
// case. It contains no reference logic of its own.
package main

import (
	"bufio"
	"crypto/sha1"
	"encoding/json"
	"flag"
	"fmt"
	"os"
	"regexp"
	"runtime/debug"
	"sort"
	"strings"
	"time"
)

type Case struct {
	ID    int                        `json:"id"`
	Prop  string                     `json:"prop"`
	Do    string                     `json:"do"`
	Model string                     `json:"model"`
	Spec  *string                    `json:"spec"`
	Cls   string                     `json:"cls"`
	NT    bool                       `json:"nt"`
	Tag   string                     `json:"tag"`
	Raw   map[string]json.RawMessage `json:"-"`
	Line  string                     `json:"-"`
}

func (c *Case) str(k string) string {
	var s string
	if err := json.Unmarshal(c.Raw[k], &s); err != nil {
		panic(fmt.Sprintf("case %d: field %s: %v", c.ID, k, err))
	}
	return s
}
func (c *Case) num(k string) int64 {
	var n json.Number
	if err := json.Unmarshal(c.Raw[k], &n); err != nil {
		panic(fmt.Sprintf("case %d: field %s: %v", c.ID, k, err))
	}
	v, err := n.Int64()
	if err != nil {
		u, _ := json.Number(n).Float64()
		return int64(uint64(u))
	}
	return v
}
func (c *Case) boolean(k string) bool {
	var b bool
	if r, ok := c.Raw[k]; ok {
		json.Unmarshal(r, &b)
	}
	return b
}
func (c *Case) ints(k string) []int {
	var a []int
	if err := json.Unmarshal(c.Raw[k], &a); err != nil {
		panic(fmt.Sprintf("case %d: field %s: %v", c.ID, k, err))
	}
	return a
}
func (c *Case) has(k string) bool { _, ok := c.Raw[k]; return ok }

var ops = map[string]func(c *Case) string{}

type Mismatch struct {
	ID    int    `json:"id"`
	Kind  string `json:"kind"` // "judge" (impl != spec) or "corr" (impl != model)
	Cls   string `json:"cls"`
	Tag   string `json:"tag"`
	Do    string `json:"do"`
	Impl  string `json:"impl"`
	Model string `json:"model"`
	Spec  string `json:"spec,omitempty"`
	Line  string `json:"case"`
}

type Summary struct {
	Evaluations        int            `json:"evaluations"`
	DistinctNontrivial int            `json:"distinct_nontrivial"`
	Ops                map[string]int `json:"ops"`
	Tags               map[string]int `json:"tags"`
	Outcomes           map[string]int `json:"outcomes"`
	JudgeFail          int            `json:"judge_fail"`
	CorrFail           int            `json:"corr_fail"`
	WithSpec           int            `json:"with_spec"`
	Mismatches         []Mismatch     `json:"mismatches"`
	Samples            []string       `json:"samples"`
	Panics             int            `json:"panics"`
	// set when a case did not return in time: the harness stops there (the stuck goroutine cannot be killed)
	Aborted string `json:"aborted,omitempty"`
}

func run(c *Case) (impl string) {
	defer func() {
		if r := recover(); r != nil {
			impl = "panic"
			if os.Getenv("VERIF_DEBUG") != "" {
				fmt.Fprintf(os.Stderr, "case %d panicked: %v\n%s\n", c.ID, r, debug.Stack())
			}
		}
	}()
	f, ok := ops[c.Do]
	if !ok {
		return "unknown-op:" + c.Do
	}
	return f(c)
}

func outcomeClass(s string) string {
	if strings.Contains(s, ";skip=") || strings.Contains(s, "pid=") || strings.Contains(s, ",") {
		return "sequence"
	}
	switch {
	case s == "panic":
		return "panic"
	case len(s) >= 4 && s[:4] == "err:":
		for i := 4; i < len(s); i++ {
			if s[i] == ':' {
				return s[:i]
			}
		}
		return s
	case len(s) >= 3 && s[:3] == "ok:":
		return "ok"
	}
	return "value"
}

var panicRe = regexp.MustCompile(`\bpanic\b`)

func main() {
	maxMis := flag.Int("max-mismatches", 50, "mismatches to report in full")
	nsamples := flag.Int("samples", 3, "sample cases to echo per tag")
	caseTimeout := flag.Duration("case-timeout", 300*time.Second, "a case that has not returned after this long counts as an endless loop")
	flag.Parse()
	in := bufio.NewReaderSize(os.Stdin, 1<<20)
	sum := Summary{Ops: map[string]int{}, Tags: map[string]int{}, Outcomes: map[string]int{}}
	distinct := map[[20]byte]bool{}
	perTag := map[string]int{}
	for {
		line, err := in.ReadBytes('\n')
		if len(line) > 1 {
			var c Case
			if e := json.Unmarshal(line, &c); e != nil {
				fmt.Fprintf(os.Stderr, "harness: bad case line: %v\n", e)
				os.Exit(3)
			}
			json.Unmarshal(line, &c.Raw)
			c.Line = string(line[:len(line)-1])
			// every case runs under a watchdog: the library must terminate on every input (C03, and no muxer call loops)
			implCh := make(chan string, 1)
			go func() { implCh <- run(&c) }()
			var impl string
			select {
			case impl = <-implCh:
			case <-time.After(*caseTimeout):
				sum.Evaluations++
				sum.JudgeFail++
				sum.Aborted = fmt.Sprintf("case %d (%s, tag %s) did not return within %s", c.ID, c.Do, c.Tag, *caseTimeout)
				sum.Mismatches = append([]Mismatch{{c.ID, "judge", "", c.Tag, c.Do, "hang", c.Model, "<judge:terminates>", c.Line}}, sum.Mismatches...)
				sum.DistinctNontrivial = len(distinct)
				out, _ := json.Marshal(sum)
				fmt.Println(string(out))
				os.Exit(0)
			}
			sum.Evaluations++
			sum.Ops[c.Do]++
			sum.Tags[c.Tag]++
			sum.Outcomes[outcomeClass(impl)]++
			if impl == "panic" {
				sum.Panics++
			}
			if c.NT {
				// distinct by operation + arguments (the case line without id and expectations)
				h := sha1.New()
				keys := make([]string, 0, len(c.Raw))
				for k := range c.Raw {
					if k == "id" || k == "model" || k == "spec" || k == "tag" || k == "cls" || k == "nt" {
						continue
					}
					keys = append(keys, k)
				}
				sort.Strings(keys)
				for _, k := range keys {
					h.Write([]byte(k))
					h.Write(c.Raw[k])
				}
				var d [20]byte
				copy(d[:], h.Sum(nil))
				distinct[d] = true
			}
			if perTag[c.Tag] < *nsamples && len(c.Line) < 2000 {
				perTag[c.Tag]++
				sum.Samples = append(sum.Samples, c.Line)
			}
			if c.Spec != nil {
				sum.WithSpec++
				if impl != *c.Spec {
					sum.JudgeFail++
					if len(sum.Mismatches) < *maxMis {
						sum.Mismatches = append(sum.Mismatches, Mismatch{c.ID, "judge", c.Cls, c.Tag, c.Do, impl, c.Model, *c.Spec, c.Line})
					}
				}
			}
			if c.has("judge") {
				// generic predicate on the observed outcome sequence (evaluated on the implementation's own behaviour)
				name := c.str("judge")
				if jf, ok := judges[name]; ok {
					sum.WithSpec++
					if !jf(&c, impl) {
						sum.JudgeFail++
						if len(sum.Mismatches) < *maxMis {
							sum.Mismatches = append(sum.Mismatches, Mismatch{c.ID, "judge", c.Cls, c.Tag, c.Do, impl, c.Model, "<judge:" + name + ">", c.Line})
						}
					}
				}
			}
			// a Go panic that the model does not predict is a failing input in its own right (C03 for the readers; for the
			// writers the model predicts the panics that nil sub-structures cause, and those are not counted)
			if panicRe.MatchString(impl) && !panicRe.MatchString(c.Model) {
				sum.JudgeFail++
				if len(sum.Mismatches) < *maxMis {
					sum.Mismatches = append(sum.Mismatches, Mismatch{c.ID, "judge", c.Cls, c.Tag, c.Do, impl, c.Model, "<judge:no-panic>", c.Line})
				}
			}
			if impl != c.Model {
				sum.CorrFail++
				if len(sum.Mismatches) < *maxMis {
					sp := ""
					if c.Spec != nil {
						sp = *c.Spec
					}
					sum.Mismatches = append(sum.Mismatches, Mismatch{c.ID, "corr", c.Cls, c.Tag, c.Do, impl, c.Model, sp, c.Line})
				}
			}
		}
		if err != nil {
			break
		}
	}
	sum.DistinctNontrivial = len(distinct)
	out, _ := json.Marshal(sum)
	fmt.Println(string(out))
}
