package main

import (
	"encoding/hex"
	"fmt"
	"strings"

	astits "github.com/asticode/go-astits"
)

func init() {
	ops["parsePES"] = func(c *Case) string {
		d, err := astits.VerifParsePESData(unhex(c.str("hex")))
		return showParse(d, err)
	}
	ops["writePES"] = func(c *Case) string {
		var h astits.PESHeader
		if err := decode(c.Raw["header"], &h); err != nil {
			panic(err)
		}
		bs, ntot, np, err := astits.VerifWritePESData(&h, unhex(c.str("payload")), c.boolean("start"), int(c.num("avail")))
		if err != nil {
			return "err:" + errClass(err)
		}
		return fmt.Sprintf("ok:ntot=%d:np=%d:%s", ntot, np, hex.EncodeToString(bs))
	}
	// batched: bases start, start+step, ... (count values), same extension
	ops["durationRange"] = func(c *Case) string {
		start, step, count, ext := c.num("start"), c.num("step"), int(c.num("count")), c.num("ext")
		parts := make([]string, count)
		for i := 0; i < count; i++ {
			cr := astits.ClockReference{Base: start + int64(i)*step, Extension: ext}
			parts[i] = fmt.Sprintf("%d", int64(cr.Duration()))
		}
		return strings.Join(parts, ",")
	}
	ops["duration"] = func(c *Case) string {
		cr := astits.ClockReference{Base: c.num("base"), Extension: c.num("ext")}
		return fmt.Sprintf("%d", int64(cr.Duration()))
	}
}
