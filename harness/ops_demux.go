package main

import (
	"bufio"
	"context"
	"encoding/json"
	"fmt"
	"io"
	"sort"
	"strings"

	astits "github.com/asticode/go-astits"
)

// vreader: an io.Reader over a byte string with a read schedule (maximum chunk per Read) and an
// optional injected fault at a byte offset (one-shot or permanent).
type vreader struct {
	data    []byte
	pos     int
	chunks  []int
	ci      int
	faultAt int
	once    bool
	done    bool
	// dataEOF: the Read that hands out the last bytes returns them together with io.EOF (allowed by the io.Reader contract)
	dataEOF bool
}

func (r *vreader) Read(p []byte) (int, error) {
	if r.faultAt >= 0 && !r.done && r.pos == r.faultAt {
		r.done = r.once
		return 0, fmt.Errorf("read failed: %w", errInjected)
	}
	n := len(p)
	if len(r.chunks) > 0 {
		c := r.chunks[r.ci%len(r.chunks)]
		r.ci++
		if c < n {
			n = c
		}
	}
	if r.faultAt >= 0 && !r.done && r.pos < r.faultAt && r.faultAt-r.pos < n {
		n = r.faultAt - r.pos
	}
	if len(r.data)-r.pos < n {
		n = len(r.data) - r.pos
	}
	if n == 0 {
		if len(p) == 0 {
			return 0, nil
		}
		return 0, io.EOF
	}
	copy(p, r.data[r.pos:r.pos+n])
	r.pos += n
	if r.dataEOF && r.pos == len(r.data) {
		return n, io.EOF
	}
	return n, nil
}

type vseeker struct {
	*vreader
	// failSeek: every Seek fails, returning failRet (-1 or 0) and an error wrapping the injected cause
	failSeek bool
	failRet  int64
}

func (s vseeker) Seek(offset int64, whence int) (int64, error) {
	if s.failSeek {
		return s.failRet, fmt.Errorf("seek failed: %w", errInjected)
	}
	switch whence {
	case io.SeekStart:
		s.pos = int(offset)
	case io.SeekCurrent:
		s.pos += int(offset)
	case io.SeekEnd:
		s.pos = len(s.data) + int(offset)
	}
	return int64(s.pos), nil
}

type skipSpec struct {
	Kind string `json:"kind"`
	Pids []int  `json:"pids"`
	V    int    `json:"v"`
	Ds   []bool `json:"ds"`
}

func pktKey(p *astits.Packet) string {
	al := -1
	if p.AdaptationField != nil {
		al = p.AdaptationField.Length
	}
	return fmt.Sprintf("%d.%d.%d.%d", p.Header.PID, p.Header.ContinuityCounter, al, len(p.Payload))
}

// parsePerPID splits the per-PID view into pid -> rendered data items
func parsePerPID(s string) map[int][]string {
	out := map[int][]string{}
	for _, seg := range strings.Split(s, ";") {
		if !strings.HasPrefix(seg, "pid=") {
			continue
		}
		k := strings.Index(seg, ":")
		var pid int
		fmt.Sscanf(seg[4:k], "%d", &pid)
		var items []json.RawMessage
		if err := json.Unmarshal([]byte(seg[k+1:]), &items); err != nil {
			panic("bad per-pid view: " + err.Error())
		}
		for _, it := range items {
			out[pid] = append(out[pid], string(it))
		}
	}
	return out
}

var judges = map[string]func(c *Case, impl string) bool{
	// packet loss on the PIDs `faultPids`: every delivered datum is a datum of the loss-free output
	// (`expect`), in order; other PIDs are unaffected; at most `maxMissing` data are missing
	"loss": func(c *Case, impl string) bool {
		exp := parsePerPID(c.str("expect"))
		got := parsePerPID(impl)
		fault := map[int]bool{}
		for _, p := range c.ints("faultPids") {
			fault[p] = true
		}
		for pid, items := range got {
			e := exp[pid]
			j := 0
			for _, it := range items {
				for j < len(e) && e[j] != it {
					j++
				}
				if j == len(e) {
					return false // delivered something that is not in the loss-free output (or out of order)
				}
				j++
			}
		}
		for pid, e := range exp {
			missing := len(e) - len(got[pid])
			if !fault[pid] && missing != 0 {
				return false
			}
			if fault[pid] && missing > int(c.num("maxMissing")) {
				return false
			}
		}
		return true
	},
	// no panic; end of stream is reached and is then returned by every later call
	"eof-sticky": func(_ *Case, impl string) bool {
		seen := false
		for _, o := range strings.Split(impl, ",") {
			if o == "panic" {
				return false
			}
			if o == "rewind" || o == "poison" {
				seen = false
				continue
			}
			if seen && o != "eof" {
				return false
			}
			if o == "eof" {
				seen = true
			}
		}
		return seen
	},
	"stable": func(_ *Case, impl string) bool {
		return strings.HasSuffix(impl, ";stable=true") && !strings.Contains(impl, "panic")
	},
	"no-panic": func(_ *Case, impl string) bool { return !strings.Contains(impl, "panic") },
}

func init() {
	ops["demux"] = func(c *Case) string {
		data := unhex(c.str("hex"))
		size := int(c.num("size"))
		kind := c.str("reader")
		vr := &vreader{data: data, chunks: c.ints("chunks"), faultAt: -1}
		if r, ok := c.Raw["fault"]; ok && string(r) != "null" {
			var f struct {
				At   int  `json:"at"`
				Once bool `json:"once"`
			}
			json.Unmarshal(r, &f)
			vr.faultAt, vr.once = f.At, f.Once
		}
		var rd io.Reader
		if strings.HasSuffix(kind, "+dataeof") {
			vr.dataEOF = true
			kind = strings.TrimSuffix(kind, "+dataeof")
		}
		switch kind {
		case "seek":
			rd = vseeker{vreader: vr}
		case "seekfail-1":
			rd = vseeker{vreader: vr, failSeek: true, failRet: -1}
		case "seekfail0":
			rd = vseeker{vreader: vr, failSeek: true, failRet: 0}
		case "bufio":
			rd = bufio.NewReader(vr)
		case "bufio64":
			rd = bufio.NewReaderSize(vr, 64)
		case "bufio193", "bufio194", "bufio256":
			// buffers just large enough to be peeked for auto-detection: behave like the default-size bufio.Reader
			n := map[string]int{"bufio193": 193, "bufio194": 194, "bufio256": 256}[kind]
			rd = bufio.NewReaderSize(vr, n)
		case "bufio188", "bufio190", "bufio192":
			// too small to peek 193 bytes: read like a plain reader
			n := map[string]int{"bufio188": 188, "bufio190": 190, "bufio192": 192}[kind]
			rd = bufio.NewReaderSize(vr, n)
		default:
			rd = vr
		}
		opts := []func(*astits.Demuxer){}
		if size != 0 {
			opts = append(opts, astits.DemuxerOptPacketSize(size))
		}
		var skipLog []string
		if r, ok := c.Raw["skip"]; ok && string(r) != "null" {
			var s skipSpec
			json.Unmarshal(r, &s)
			idx := 0
			opts = append(opts, astits.DemuxerOptPacketSkipper(func(p *astits.Packet) bool {
				skipLog = append(skipLog, pktKey(p))
				switch s.Kind {
				case "pids":
					for _, x := range s.Pids {
						if int(p.Header.PID) == x {
							return true
						}
					}
					return false
				case "cc":
					return int(p.Header.ContinuityCounter) == s.V
				case "pusi":
					return p.Header.PayloadUnitStartIndicator
				case "af":
					return p.Header.HasAdaptationField
				case "afContent":
					a := p.AdaptationField
					return a != nil && (a.HasPCR || a.RandomAccessIndicator || a.StuffingLength > 0)
				case "script":
					i := idx
					idx++
					return i < len(s.Ds) && s.Ds[i]
				}
				return false
			}))
		}
		var parserLog []string
		// packets handed to a custom parser belong to it from then on: they are kept and rendered again at the end
		var heldPkts []*astits.Packet
		var heldStr []string
		if pk := c.str("parser"); pk != "none" {
			opts = append(opts, astits.DemuxerOptPacketsParser(func(ps []*astits.Packet) ([]*astits.DemuxerData, bool, error) {
				ccs := make([]string, len(ps))
				for i, p := range ps {
					ccs[i] = fmt.Sprintf("%d", p.Header.ContinuityCounter)
					heldPkts = append(heldPkts, p)
					heldStr = append(heldStr, canon(p))
				}
				parserLog = append(parserLog, fmt.Sprintf("%d:%s", ps[0].Header.PID, strings.Join(ccs, ",")))
				switch pk {
				case "replacer":
					return []*astits.DemuxerData{{PID: ps[0].Header.PID, PES: &astits.PESData{Data: []byte{byte(len(ps))}, Header: &astits.PESHeader{}}}}, true, nil
				case "dropper":
					return nil, true, nil
				case "failing":
					return nil, false, fmt.Errorf("parser failed: %w", errParser)
				}
				return nil, false, nil
			}))
		}
		dmx := astits.NewDemuxer(context.Background(), rd, opts...)
		packetAPI := c.str("api") == "packet"
		view := c.str("view")
		pos := func() string {
			if strings.HasPrefix(kind, "bufio") {
				return "-"
			}
			return fmt.Sprintf("%d", vr.pos)
		}
		var calls []string
		json.Unmarshal(c.Raw["calls"], &calls)
		var seq, outcomes []string
		var kept []interface{}
		var keptStr []string
		var datas []*astits.DemuxerData
		var tablepos []string
		errors, ending := 0, "other"
		afterEOF := 0
		for _, call := range calls {
			switch call {
			case "next":
				var v interface{}
				var err error
				panicked := false
				func() {
					defer func() {
						if r := recover(); r != nil {
							panicked = true
						}
					}()
					if packetAPI {
						var p *astits.Packet
						p, err = dmx.NextPacket()
						v = p
					} else {
						var d *astits.DemuxerData
						d, err = dmx.NextData()
						v = d
						if err == nil {
							datas = append(datas, d)
							if d.PAT != nil || d.PMT != nil {
								tablepos = append(tablepos, fmt.Sprintf(`"%d:%s"`, d.PID, pos()))
							}
						}
					}
				}()
				switch {
				case panicked:
					seq = append(seq, "panic@"+pos())
					outcomes = append(outcomes, "panic")
					errors++
					ending = "other"
				case err != nil:
					seq = append(seq, "err:"+errClass(err)+"@"+pos())
					outcomes = append(outcomes, errClass(err))
					if errClass(err) == "eof" {
						ending = "eof"
					} else {
						errors++
						ending = "other"
					}
				default:
					if ending == "eof" {
						afterEOF++ // something was delivered after ErrNoMorePackets had been returned
					}
					s := canon(v)
					kept = append(kept, v)
					keptStr = append(keptStr, s)
					seq = append(seq, "ok:"+s+"@"+pos())
					outcomes = append(outcomes, "ok")
					ending = "other"
				}
			case "rewind":
				ending = "other"
				n, err := dmx.Rewind()
				if err != nil {
					seq = append(seq, "rewind:err@"+pos())
				} else {
					seq = append(seq, fmt.Sprintf("rewind:%d@%s", n, pos()))
				}
				outcomes = append(outcomes, "rewind")
			case "poison":
				dmx.VerifPoison()
				astits.VerifPoisonPool(8)
				seq = append(seq, "poison")
				outcomes = append(outcomes, "poison")
			}
		}
		switch view {
		case "items":
			// seq entries without the reader position, up to and including the first end of stream
			var items []string
			for _, e := range seq {
				if i := strings.LastIndex(e, "@"); i >= 0 && e != "poison" {
					e = e[:i]
				}
				items = append(items, e)
				if e == "err:eof" {
					break
				}
			}
			return strings.Join(items, "|")
		case "outcomes":
			return strings.Join(outcomes, ",")
		case "tablepos":
			return "[" + strings.Join(tablepos, ",") + "]"
		case "perpid":
			byPid := map[uint16][]string{}
			var pids []int
			onlyPES := c.boolean("onlyPES")
			excl := map[int]bool{}
			if c.has("exclude") {
				for _, x := range c.ints("exclude") {
					excl[x] = true
				}
			}
			for _, d := range datas {
				if (onlyPES && d.PES == nil) || excl[int(d.PID)] {
					continue
				}
				if _, ok := byPid[d.PID]; !ok {
					pids = append(pids, int(d.PID))
				}
				byPid[d.PID] = append(byPid[d.PID], canon(d))
			}
			sort.Ints(pids)
			var parts []string
			for _, p := range pids {
				parts = append(parts, fmt.Sprintf("pid=%d:[%s]", p, strings.Join(byPid[uint16(p)], ",")))
			}
			late := ""
			if afterEOF > 0 {
				// a caller that stops at ErrNoMorePackets would never have seen these
				late = fmt.Sprintf(";delivered-after-eof=%d", afterEOF)
			}
			if c.boolean("noErr") {
				return strings.Join(parts, ";") + late
			}
			return strings.Join(parts, ";") + fmt.Sprintf(";errors=%d;end=%s", errors, ending) + late
		}
		stable := true
		for i, v := range kept {
			if canon(v) != keptStr[i] {
				stable = false
			}
		}
		for i, p := range heldPkts {
			if canon(p) != heldStr[i] {
				stable = false
			}
		}
		q := func(l []string) string {
			qs := make([]string, len(l))
			for i, s := range l {
				qs[i] = `"` + s + `"`
			}
			return "[" + strings.Join(qs, ",") + "]"
		}
		return strings.Join(seq, "|") + ";skip=" + q(skipLog) + ";parser=" + q(parserLog) + fmt.Sprintf(";stable=%v", stable)
	}
}

func init() {
	// pool: feed packets to a fresh packet pool, report what each add flushed and what the drain returns
	ops["pool"] = func(c *Case) string {
		var ps []*astits.Packet
		if err := decode(c.Raw["packets"], &ps); err != nil {
			panic(err)
		}
		pm := map[uint16]uint16{}
		for _, p := range c.ints("pmtPIDs") {
			pm[uint16(p)] = 1
		}
		flushed, drained := astits.VerifPoolAdd(pm, ps)
		show := func(gs [][]*astits.Packet) string {
			parts := make([]string, len(gs))
			for i, g := range gs {
				ks := make([]string, len(g))
				for j, p := range g {
					ks[j] = fmt.Sprintf("%d.%d", p.Header.PID, p.Header.ContinuityCounter)
				}
				parts[i] = "[" + strings.Join(ks, " ") + "]"
			}
			return strings.Join(parts, "")
		}
		return "flushed=" + show(flushed) + ";drained=" + show(drained)
	}
}

func init() {
	// parseData: one group of packets through the unit parser (PSI / PES dispatch, CRC check, toData)
	ops["parseData"] = func(c *Case) string {
		var ps []*astits.Packet
		if err := decode(c.Raw["packets"], &ps); err != nil {
			panic(err)
		}
		pm := map[uint16]uint16{}
		for _, p := range c.ints("pmtPIDs") {
			pm[uint16(p)] = 1
		}
		ds, err := astits.VerifParseData(ps, nil, pm)
		if err != nil {
			return "err"
		}
		if ds == nil {
			ds = []*astits.DemuxerData{}
		}
		return "ok:" + canon(ds)
	}
}
