package main

import (
	"bytes"
	"context"
	"encoding/hex"
	"errors"
	"fmt"

	astits "github.com/asticode/go-astits"
)

var errInjected = errors.New("verif: injected I/O failure")
var errParser = errors.New("verif: injected parser failure")

// errClass: the classes of errors a caller can tell apart
func errClass(err error) string {
	switch {
	case err == nil:
		return "none"
	case err == astits.ErrNoMorePackets:
		return "eof"
	case errors.Is(err, errInjected):
		return "io"
	case errors.Is(err, errParser):
		return "parser"
	case errors.Is(err, astits.ErrPIDNotFound):
		return "pidNotFound"
	case errors.Is(err, astits.ErrPIDAlreadyExists):
		return "pidExists"
	case errors.Is(err, astits.ErrPCRPIDInvalid):
		return "pcrInvalid"
	}
	return "other"
}

func showParse(v interface{}, err error) string {
	if err != nil {
		return "err:" + errClass(err)
	}
	return "ok:" + canon(v)
}

// showWrite: returned count and the bytes that reached the writer
func showWrite(bs []byte, n int, err error) string {
	if err != nil {
		return fmt.Sprintf("err:%s:n=%d:%s", errClass(err), n, hex.EncodeToString(bs))
	}
	return fmt.Sprintf("ok:n=%d:%s", n, hex.EncodeToString(bs))
}

func init() {
	ops["parsePacket"] = func(c *Case) string {
		p, err := astits.VerifParsePacket(unhex(c.str("hex")), nil)
		return showParse(p, err)
	}
	ops["writePacket"] = func(c *Case) string {
		var p astits.Packet
		if err := decode(c.Raw["packet"], &p); err != nil {
			panic(err)
		}
		bs, n, err := astits.VerifWritePacket(&p, int(c.num("target")))
		return showWrite(bs, n, err)
	}
	// NextPacket on the bytes, then Muxer.WritePacket of what was delivered
	ops["reemitStream"] = func(c *Case) string {
		in := unhex(c.str("hex"))
		dmx := astits.NewDemuxer(context.Background(), bytes.NewReader(in), astits.DemuxerOptPacketSize(188))
		var ps []*astits.Packet
		for {
			p, err := dmx.NextPacket()
			if err != nil {
				if errClass(err) == "eof" {
					break
				}
				return "err"
			}
			ps = append(ps, p)
		}
		out := &bytes.Buffer{}
		m := astits.NewMuxer(context.Background(), out)
		skip := 0
		if c.boolean("afterTables") {
			// the muxer has already been used (tables and a PES written): WritePacket output follows, nothing else
			m.AddElementaryStream(astits.PMTElementaryStream{ElementaryPID: 0x100, StreamType: astits.StreamTypeH264Video})
			m.SetPCRPID(0x100)
			if _, err := m.WriteTables(); err != nil {
				return "err"
			}
			if _, err := m.WriteData(&astits.MuxerData{PID: 0x100, PES: &astits.PESData{Header: &astits.PESHeader{StreamID: 0xe0}, Data: []byte{1, 2, 3, 4, 5}}}); err != nil {
				return "err"
			}
			skip = out.Len()
		}
		total := 0
		for _, p := range ps {
			n, err := m.WritePacket(p)
			if err != nil {
				return "err"
			}
			total += n
		}
		if total != out.Len()-skip {
			return fmt.Sprintf("count:%d written:%d", total, out.Len()-skip)
		}
		return "ok:" + hex.EncodeToString(out.Bytes()[skip:])
	}
	ops["reemit"] = func(c *Case) string {
		in := unhex(c.str("hex"))
		dmx := astits.NewDemuxer(context.Background(), bytes.NewReader(in), astits.DemuxerOptPacketSize(len(in)))
		p, err := dmx.NextPacket()
		if err != nil {
			return "parse-err:" + errClass(err)
		}
		out := &bytes.Buffer{}
		m := astits.NewMuxer(context.Background(), out)
		n, err := m.WritePacket(p)
		return showWrite(out.Bytes(), n, err)
	}
}
