package main

// Canonical rendering of library values and decoding of model values, both generic (reflection):
//   struct  -> {"Field":…} in Go declaration order      []byte -> "hex" (nil and empty identified)
//   slice   -> […] (nil = [])                            pointer -> null | value
//   bool, integers as JSON literals                      time.Time -> Unix seconds, time.Duration -> ns
//   string  -> "…" (only identifier-like strings occur)
// The Lean model renders its own values in exactly this format, so equal strings mean equal values.

import (
	"encoding/hex"
	"encoding/json"
	"fmt"
	"reflect"
	"strconv"
	"strings"
	"time"
)

var timeType = reflect.TypeOf(time.Time{})
var bytesType = reflect.TypeOf([]byte(nil))

func canon(v interface{}) string {
	var b strings.Builder
	canonValue(&b, reflect.ValueOf(v))
	return b.String()
}

func canonValue(b *strings.Builder, v reflect.Value) {
	if !v.IsValid() {
		b.WriteString("null")
		return
	}
	switch v.Kind() {
	case reflect.Ptr, reflect.Interface:
		if v.IsNil() {
			b.WriteString("null")
			return
		}
		canonValue(b, v.Elem())
	case reflect.Struct:
		if v.Type() == timeType {
			b.WriteString(strconv.FormatInt(v.Interface().(time.Time).Unix(), 10))
			return
		}
		b.WriteByte('{')
		first := true
		for i := 0; i < v.NumField(); i++ {
			f := v.Type().Field(i)
			if f.PkgPath != "" { // unexported
				continue
			}
			if !first {
				b.WriteByte(',')
			}
			first = false
			b.WriteString(`"` + f.Name + `":`)
			canonValue(b, v.Field(i))
		}
		b.WriteByte('}')
	case reflect.Slice:
		if v.Type().Elem().Kind() == reflect.Uint8 {
			b.WriteString(`"` + hex.EncodeToString(v.Bytes()) + `"`)
			return
		}
		b.WriteByte('[')
		for i := 0; i < v.Len(); i++ {
			if i > 0 {
				b.WriteByte(',')
			}
			canonValue(b, v.Index(i))
		}
		b.WriteByte(']')
	case reflect.Bool:
		if v.Bool() {
			b.WriteString("true")
		} else {
			b.WriteString("false")
		}
	case reflect.Int, reflect.Int8, reflect.Int16, reflect.Int32, reflect.Int64:
		b.WriteString(strconv.FormatInt(v.Int(), 10))
	case reflect.Uint, reflect.Uint8, reflect.Uint16, reflect.Uint32, reflect.Uint64:
		b.WriteString(strconv.FormatUint(v.Uint(), 10))
	case reflect.String:
		b.WriteString(`"` + v.String() + `"`)
	default:
		panic(fmt.Sprintf("canon: unsupported kind %s", v.Kind()))
	}
}

// decode fills the value pointed to by out from JSON in the canonical format.
func decode(raw json.RawMessage, out interface{}) error {
	d := json.NewDecoder(strings.NewReader(string(raw)))
	d.UseNumber()
	var x interface{}
	if err := d.Decode(&x); err != nil {
		return err
	}
	return fill(reflect.ValueOf(out).Elem(), x)
}

func fill(v reflect.Value, x interface{}) error {
	switch v.Kind() {
	case reflect.Ptr:
		if x == nil {
			v.Set(reflect.Zero(v.Type()))
			return nil
		}
		n := reflect.New(v.Type().Elem())
		if err := fill(n.Elem(), x); err != nil {
			return err
		}
		v.Set(n)
		return nil
	case reflect.Struct:
		if v.Type() == timeType {
			n, err := x.(json.Number).Int64()
			if err != nil {
				return err
			}
			v.Set(reflect.ValueOf(time.Unix(n, 0).UTC()))
			return nil
		}
		m, ok := x.(map[string]interface{})
		if !ok {
			return fmt.Errorf("decode: expected object for %s", v.Type())
		}
		for k, xv := range m {
			f := v.FieldByName(k)
			if !f.IsValid() {
				return fmt.Errorf("decode: %s has no field %s", v.Type(), k)
			}
			if err := fill(f, xv); err != nil {
				return fmt.Errorf("%s.%s: %w", v.Type().Name(), k, err)
			}
		}
		return nil
	case reflect.Slice:
		if v.Type().Elem().Kind() == reflect.Uint8 {
			if x == nil {
				v.Set(reflect.Zero(v.Type()))
				return nil
			}
			s, ok := x.(string)
			if !ok {
				return fmt.Errorf("decode: expected hex string")
			}
			bs, err := hex.DecodeString(s)
			if err != nil {
				return err
			}
			v.Set(reflect.ValueOf(bs).Convert(v.Type()))
			return nil
		}
		if x == nil {
			v.Set(reflect.Zero(v.Type()))
			return nil
		}
		a, ok := x.([]interface{})
		if !ok {
			return fmt.Errorf("decode: expected array for %s", v.Type())
		}
		s := reflect.MakeSlice(v.Type(), len(a), len(a))
		for i := range a {
			if err := fill(s.Index(i), a[i]); err != nil {
				return err
			}
		}
		v.Set(s)
		return nil
	case reflect.Bool:
		bv, ok := x.(bool)
		if !ok {
			return fmt.Errorf("decode: expected bool")
		}
		v.SetBool(bv)
		return nil
	case reflect.Int, reflect.Int8, reflect.Int16, reflect.Int32, reflect.Int64:
		n, err := x.(json.Number).Int64()
		if err != nil {
			return err
		}
		v.SetInt(n)
		return nil
	case reflect.Uint, reflect.Uint8, reflect.Uint16, reflect.Uint32, reflect.Uint64:
		n, err := strconv.ParseUint(x.(json.Number).String(), 10, 64)
		if err != nil {
			return err
		}
		v.SetUint(n)
		return nil
	case reflect.String:
		s, ok := x.(string)
		if !ok {
			return fmt.Errorf("decode: expected string")
		}
		v.SetString(s)
		return nil
	}
	return fmt.Errorf("decode: unsupported kind %s", v.Kind())
}

// errClass maps an error to the classes a caller can distinguish
func unhex(s string) []byte {
	b, err := hex.DecodeString(s)
	if err != nil {
		panic("bad hex in case: " + s)
	}
	return b
}
